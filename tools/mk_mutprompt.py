#!/usr/bin/env python3
"""tools/mk_mutprompt.py Cxx n : write /var/tmp/mutprompts/Cxx.txt (prompt of an independent seeding sub-agent: property text only)
and create its scratch worktree /tmp/mut-Cxx."""
import json, sys, os, subprocess
pid, n = sys.argv[1], int(sys.argv[2]); tag = sys.argv[3] if len(sys.argv) > 3 else ""
props = {json.loads(l)["id"]: json.loads(l) for l in open('/verif/properties.jsonl')}
T = open('/verif/tools/mutprompt.tmpl').read()
p = props[pid]; wt = f"/tmp/mut-{pid}{tag}"
os.makedirs("/var/tmp/mutprompts", exist_ok=True)
open(f"/var/tmp/mutprompts/{pid}{tag}.txt", "w").write(T.format(wt=wt, pid=pid, title=p["title"], statement=p["statement"],
     quant=p["quantifier"]["text"], anchors=json.dumps(p["anchors"].get("mechanism")), n=n))
subprocess.run(["git", "-C", "/repo", "worktree", "add", "-q", "--detach", wt, "HEAD"], check=True)
print(wt)
