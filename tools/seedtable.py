#!/usr/bin/env python3
"""tools/seedtable.py : regenerate the table of seeded changes in DESIGN.md (between the SEEDED-TABLE markers) from seeded/*/."""
import json, os, glob, re
V = os.path.dirname(os.path.dirname(os.path.abspath(__file__)))
rows = []
for d in sorted(glob.glob(os.path.join(V, "seeded", "*"))):
    try:
        m = json.load(open(os.path.join(d, "meta.json")))
    except Exception:
        continue
    r = json.load(open(os.path.join(d, "result.json"))) if os.path.exists(os.path.join(d, "result.json")) else {}
    def verdict(t):
        x = r.get(t)
        if not x:
            return "not run"
        if x.get("applies") is False:
            return "no longer applies (the code it changed was repaired since)"
        if x["demo_changed_rc"] == 0 or x["demo_clean_rc"] != 0 or "missing 0" not in x["baseline"]:
            return "not confirmed"
        if x["violation_lines"] > 0:
            return "caught" + (" (no-failing-input-found)" if x["no_failing_input_found"] == x["violation_lines"] else "")
        return "MISSED"
    files = sorted(set(re.findall(r"^\+\+\+ b/(\S+)", open(os.path.join(d, "patch.diff")).read(), re.M)))
    summ = (m.get("summary") or "").replace("|", "/").replace("\n", " ")
    if len(summ) > 230:
        summ = summ[:227] + "..."
    others = sorted({k.split("@")[1] for k in r if "@" in k and r[k].get("violation_lines", 0) > 0})
    qv = verdict('quick')
    if others and qv == "MISSED":
        qv = "MISSED by its own check; caught by the check of " + ", ".join(others)
    rows.append(f"| {os.path.basename(d)} | {m['property']} | {', '.join(files)} | {summ} | {qv} | {verdict('thorough') if 'thorough' in r else '-'} | {m.get('note', '')} |")
def cls(row):
    q = row.split("|")[5].strip()
    return ("caught" if q.startswith("caught") else "cross" if "caught by the check of" in q else "missed" if q.startswith("MISSED")
            else "stale" if q.startswith("no longer") else "other")
counts = {}
for row in rows:
    counts[cls(row)] = counts.get(cls(row), 0) + 1
summary = (f"Totals on the current HEAD: {len(rows)} seeded changes; {counts.get('caught', 0)} caught by the check of their own property, "
           f"{counts.get('cross', 0)} missed by it but caught by the check of the property whose mechanism they really break, "
           f"{counts.get('missed', 0)} caught by no check, {counts.get('stale', 0)} no longer apply because the code they changed was repaired since, "
           f"{counts.get('other', 0)} not confirmed (the demonstration no longer fails on the current HEAD).\n\n")
table = summary + ("| id | property | file(s) | change | quick tier | thorough tier | note |\n|---|---|---|---|---|---|---|\n" + "\n".join(rows))
p = os.path.join(V, "DESIGN.md")
s = open(p).read()
a, b = "<!-- SEEDED-TABLE-BEGIN -->", "<!-- SEEDED-TABLE-END -->"
if a in s:
    s = s[:s.index(a) + len(a)] + "\n" + table + "\n" + s[s.index(b):]
    open(p, "w").write(s)
print(table)
