#!/usr/bin/env python3
"""tools/seedtable.py : regenerate the table of seeded changes in DESIGN.md (between the SEEDED-TABLE markers) from seeded/*/."""
import json, os, glob, re
V = os.path.dirname(os.path.dirname(os.path.abspath(__file__)))
rows = []
for d in sorted(glob.glob(os.path.join(V, "seeded", "*"))):
    try:
        m = json.load(open(os.path.join(d, "meta.json")))
    except Exception:
        continue
    r = json.load(open(os.path.join(d, "result.json"))) if os.path.exists(os.path.join(d, "result.json")) else {}
    def verdict(t):
        x = r.get(t)
        if not x:
            return "not run"
        if x["demo_changed_rc"] == 0 or x["demo_clean_rc"] != 0 or "missing 0" not in x["baseline"]:
            return "not confirmed"
        if x["violation_lines"] > 0:
            return "caught" + (" (no-failing-input-found)" if x["no_failing_input_found"] == x["violation_lines"] else "")
        return "MISSED"
    files = sorted(set(re.findall(r"^\+\+\+ b/(\S+)", open(os.path.join(d, "patch.diff")).read(), re.M)))
    summ = (m.get("summary") or "").replace("|", "/").replace("\n", " ")
    if len(summ) > 230:
        summ = summ[:227] + "..."
    others = [k.split("@")[1] for k in r if "@" in k and r[k]["violation_lines"] > 0]
    if others:
        m["note"] = (m.get("note", "") + " Caught by the check of " + ", ".join(sorted(set(others))) + ".").strip()
    rows.append(f"| {os.path.basename(d)} | {m['property']} | {', '.join(files)} | {summ} | {verdict('quick')} | {verdict('thorough') if 'thorough' in r else '-'} | {m.get('note', '')} |")
table = ("| id | property | file(s) | change | quick tier | thorough tier | note |\n|---|---|---|---|---|---|---|\n" + "\n".join(rows))
p = os.path.join(V, "DESIGN.md")
s = open(p).read()
a, b = "<!-- SEEDED-TABLE-BEGIN -->", "<!-- SEEDED-TABLE-END -->"
if a in s:
    s = s[:s.index(a) + len(a)] + "\n" + table + "\n" + s[s.index(b):]
    open(p, "w").write(s)
print(table)
