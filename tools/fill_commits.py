#!/usr/bin/env python3
"""tools/fill_commits.py Cxx c1 c2 ... : fill the commit ids of the 'fixed' entries of tools/findings/Cxx.json in order.
With fewer commits than entries the last commit is repeated (several witnesses of one repair)."""
import json, sys, os
V = os.path.dirname(os.path.dirname(os.path.abspath(__file__)))
pid, commits = sys.argv[1], sys.argv[2:]
p = os.path.join(V, "tools", "findings", pid + ".json")
d = json.load(open(p))
k = 0
for e in d:
    if e.get("status") == "fixed" and ("<" in e.get("commit", "<") or not e.get("commit")):
        c = commits[min(k, len(commits) - 1)]; k += 1
        e["commit"] = c
        e["what"] = e["what"].replace("<commit>", c)
json.dump(d, open(p, "w"), indent=1)
print(pid, "filled", k)
