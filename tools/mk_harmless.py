#!/usr/bin/env python3
"""tools/mk_harmless.py Cxx n : prompt (/var/tmp/mutprompts/Cxxh.txt) + worktree /tmp/harm-Cxx for a harmless-rewrite agent."""
import json, sys, os, subprocess
pid, n = sys.argv[1], int(sys.argv[2])
props = {json.loads(l)["id"]: json.loads(l) for l in open('/verif/properties.jsonl')}
p = props[pid]; wt = f"/tmp/harm-{pid}"
T = open('/verif/tools/harmless.tmpl').read()
open(f"/var/tmp/mutprompts/{pid}h.txt", "w").write(T.format(wt=wt, pid=pid, title=p["title"], statement=p["statement"],
     quant=p["quantifier"]["text"], anchors=json.dumps(p["anchors"].get("mechanism")), n=n))
subprocess.run(["git", "-C", "/repo", "worktree", "add", "-q", "--detach", wt, "HEAD"], check=True)
print(wt)
