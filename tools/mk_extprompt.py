#!/usr/bin/env python3
"""tools/mk_extprompt.py Cxx tag "seed ids comma separated" "extra text" : prompt + worktrees for a strengthening builder."""
import json, sys, os, subprocess, shutil
pid, tag, seeds, extra = sys.argv[1], sys.argv[2], [s for s in sys.argv[3].split(",") if s], sys.argv[4]
props = {json.loads(l)["id"]: l.strip() for l in open('/verif/properties.jsonl')}
vw, rw = f"/var/tmp/vw-{pid}{tag}", f"/var/tmp/rw-{pid}{tag}"
subprocess.run(["git", "-C", "/verif", "worktree", "add", "-q", "-b", f"b2-{pid}{tag}", vw, "main"], check=True)
subprocess.run(["git", "-C", "/repo", "worktree", "add", "-q", "--detach", rw, "HEAD"], check=True)
os.makedirs("/var/tmp/seedcopy", exist_ok=True)
for s in seeds:
    shutil.copytree(f"/verif/seeded/{s}", f"/var/tmp/seedcopy/{s}", dirs_exist_ok=True)
seedtxt = "\n".join(f"  - /var/tmp/seedcopy/{s}/ (patch.diff, demo.py, meta.json: read meta.json for what it breaks and what it needs to manifest)" for s in seeds)
open(f"/var/tmp/prompts2/{pid}{tag}.txt", "w").write(f"""You are STRENGTHENING the machine-checked (Coq 8.16) verification of property {pid} of the Python library dan-fritchman/Hdl21 inside an existing framework. No network; everything needed is installed.

YOUR WORKSPACES (work only here):
- {vw} : git worktree (branch b2-{pid}{tag}) of the verification repository. Commit ALL deliverables here (never switch branches, never touch /verif itself).
- {rw} : scratch git worktree of the Hdl21 repository at its current repaired HEAD. Edit freely for repairs/mutations; never commit there; never touch /repo. Deliver repairs of GENUINE defects as fixes/{pid}-<n>.patch + fixes/{pid}-<n>.msg (continue the numbering after the files already in fixes/; first line of the msg starts with "fix: "; tools/run_baseline.py {rw} must print `missing 0`).
- /tmp/wt-pinned : the original pinned tree, read-only.

FIRST read {vw}/tools/BUILDERS.md completely (contract + round-2 rules). You OWN the existing {pid} files (coq/theories/*/{pid}*.v and the other Coq files notes/{pid}.md lists as this property's, harness/vp/{pid.lower()}*.py, harness/impl/{pid.lower()}*.py, tools/manifest/{pid}.json, tools/findings/{pid}.json, notes/{pid}.md) and may edit them; every other shared file is append-only. Read notes/{pid}.md, tools/manifest/{pid}.json, Props/{pid}.v and the harness first. Run `export VERIF_NPROC=8; cd {vw} && ./setup.sh` and `VERIF_REPO={rw} ./check {pid} --tier quick`.

THE PROPERTY (fixed text, JSON):
{props[pid]}

WHY YOU ARE HERE: independent sub-agents that saw only the property text produced realistic breaking changes (each passes the pinned 225 tests and comes with a demonstration). The {pid} quick tier MISSED these:
{seedtxt}
{extra}
YOUR JOB: (1) reproduce each miss (apply the patch in your scratch repo tree: `git -C {rw} apply /var/tmp/seedcopy/<id>/patch.diff`, run the demo, run the check, undo with `git -C {rw} checkout -- .`); (2) work out WHY the check is blind to it (generator never builds the needed shape/history? observable not compared? model abstracts it away?) and close the gap IN GENERAL — extend the generators/streams/observables and, where the model abstracts the mechanism away, the Coq model and theorems (new theorems closed under the global context, proved for all inputs; keep every existing theorem building) — not by special-casing the seeded input; (3) confirm the quick tier now prints VIOLATION with a concrete replay for each, is still silent on the repaired tree for VERIF_SEED=0,1,2,3, and still under ~3 minutes with VERIF_NPROC=16; (4) try 3 more small mutations of your own in the same neighbourhood (each passing tools/run_baseline.py) and report whether they are caught; (5) update tools/manifest/{pid}.json (honest text), notes/{pid}.md (append a section "Strengthening round": what was blind, what was added, results). Measure new coverage targets in the evidence and fail closed when one is missed. Commit after each milestone; leave any repair applied (uncommitted) in {rw}. Final reply: what was blind and why, what you added (streams, model, theorems), results per seeded change and per own mutation, any genuine defect found (witness, patch or finding), wall time of the quick tier.
""")
print(vw, rw)
