#!/usr/bin/env python3
"""Regenerate MANIFEST.json from tools/manifest/Cxx.json (claimed checks) and properties.jsonl,
and known_findings.json from tools/findings/Cxx.json."""
import json, os
V = os.path.dirname(os.path.dirname(os.path.abspath(__file__)))
props = [json.loads(l) for l in open(os.path.join(V, "properties.jsonl"))]
claimed = {}
for f in sorted(os.listdir(os.path.join(V, "tools", "manifest"))):
    if f.endswith(".json"):
        claimed[f[:-5]] = json.load(open(os.path.join(V, "tools", "manifest", f)))
# known_findings.json = concatenation of tools/findings/*.json (one list per property)
kf = []
for f in sorted(os.listdir(os.path.join(V, "tools", "findings"))):
    if f.endswith(".json"):
        kf.extend(json.load(open(os.path.join(V, "tools", "findings", f))))
json.dump(kf, open(os.path.join(V, "known_findings.json"), "w"), indent=1)
hooks = json.load(open(os.path.join(V, "tools", "manifest_hooks.json")))
checks, na = [], []
for p in props:
    pid = p["id"]
    c = claimed.get(pid)
    if not c or c.get("not_applicable"):
        na.append(dict(property_id=pid, reason=(c or {}).get("not_applicable", "check not built yet in this round (no claim made); see DESIGN.md section 6")))
        continue
    checks.append(dict(
        property_id=pid,
        quick_cmd=f"./check {pid} --tier quick",
        thorough_cmd=f"./check {pid} --tier thorough",
        evidence_file=f"evidence/{pid}.json",
        replay_cmd_template=f"./check {pid} --replay {{path}}",
        engine="coq-model-correspondence",
        level_claimed=dict(category="proof", text=c["text"], design_ref=c["design_ref"]),
        level_note=c["note"],
        technique=c["technique"]))
man = dict(
    version=1,
    setup_cmd="./setup.sh",
    hooks=hooks,
    engines=[dict(name="coq-model-correspondence", path="coq/ harness/ tools/ check",
                  serves_properties=[c["property_id"] for c in checks],
                  kind_free_text="Coq 8.16 theorems about hand-written Gallina models (coq/theories), tables regenerated from the repo by tools/translate_tables.py, and a correspondence run that evaluates model and specification inside Coq (vm_compute) on the inputs and outputs of the real implementation")],
    checks=checks,
    notes="Every check rebuilds generated tables and Coq objects from /repo's working tree (VERIF_REPO overrides the tree), runs the implementation in child interpreters with PYTHONPATH forced to that tree, and writes evidence/<id>.json. Trusted base and per-property limits: DESIGN.md sections 6 and 8.",
    not_applicable=na)
json.dump(man, open(os.path.join(V, "MANIFEST.json"), "w"), indent=1)
print("claimed:", [c["property_id"] for c in checks], "unclaimed:", [n["property_id"] for n in na])
