#!/bin/sh
# tools/mk_mutround.sh Cxx rN : prompt + worktree for another independent seeding round, listing the earlier rounds' changes as "already done"
p=$1; t=$2
python3 /verif/tools/mk_mutprompt.py $p 3 $t >/dev/null || exit 1
/venv/bin/python - "$p" "$t" <<'PY'
import json,glob,sys,re
p,t=sys.argv[1],sys.argv[2]
lines=[]
for d in sorted(glob.glob(f'/verif/seeded/{p}-*')+glob.glob(f'/verif/seeded/{p}r[0-9]-*')):
    m=json.load(open(d+'/meta.json'))
    files=sorted(set(re.findall(r"^\+\+\+ b/(\S+)", open(d+'/patch.diff').read(), re.M)))
    lines.append(f"  - {', '.join(files)}: {(m.get('summary') or '')[:220]}")
open(f'/var/tmp/mutprompts/{p}{t}.txt','a').write("\n\nADDITIONAL GUIDANCE FOR THIS ROUND: earlier rounds already produced the changes listed below. Choose OTHER mechanisms, other functions and other kinds of slip this time (look at every mechanism, file and clause the property names that is not touched below; two-site disagreements, history-dependent slips and slips that only show for one construction style are especially welcome):\n"+"\n".join(lines)+"\n")
PY
echo /tmp/mut-$p$t
