#!/usr/bin/env python3
"""tools/seedimport.py <Cxx> <outdir>: copy a sub-agent's out/{X.diff,X_demo.py,X.json} into seeded/Cxx-X/{patch.diff,demo.py,meta.json}."""
import sys, os, json, shutil, glob
pid, out = sys.argv[1], sys.argv[2]
tag = sys.argv[3] if len(sys.argv) > 3 else ""      # e.g. r2 for a second round
V = os.path.dirname(os.path.dirname(os.path.abspath(__file__)))
for diff in sorted(glob.glob(os.path.join(out, "*.diff"))):
    x = os.path.basename(diff)[:-5]
    d = os.path.join(V, os.environ.get("SEED_ROOT", "seeded"), f"{pid}{tag}-{x}")
    os.makedirs(d, exist_ok=True)
    shutil.copy(diff, os.path.join(d, "patch.diff"))
    shutil.copy(os.path.join(out, f"{x}_demo.py"), os.path.join(d, "demo.py"))
    try:
        m = json.load(open(os.path.join(out, f"{x}.json")))
    except Exception as e:
        m = {"summary": f"(meta unreadable: {e})"}
    m["property"] = pid
    m["source"] = "independent sub-agent given only the property text and a scratch worktree" + (f" (round {tag})" if tag else "")
    json.dump(m, open(os.path.join(d, "meta.json"), "w"), indent=1)
    print(d)
