#!/usr/bin/env python3
"""tools/harmtable.py : regenerate the table of harmless rewrites in DESIGN.md (between the HARMLESS-TABLE markers) from harmless/*/."""
import json, os, glob, re
V = os.path.dirname(os.path.dirname(os.path.abspath(__file__)))
rows = []
for d in sorted(glob.glob(os.path.join(V, "harmless", "*"))):
    try:
        m = json.load(open(os.path.join(d, "meta.json")))
    except Exception:
        continue
    r = json.load(open(os.path.join(d, "result.json"))) if os.path.exists(os.path.join(d, "result.json")) else {}
    x = r.get("quick")
    if not x:
        v = "not run"
    elif x.get("applies") is False:
        v = "no longer applies"
    elif "missing 0" not in x["baseline"] or x["demo_changed_rc"] != 0:
        v = "not a harmless rewrite (suite or its own demonstration fails)"
    elif x["violation_lines"] == 0:
        v = "silent"
    elif x["no_failing_input_found"] == x["violation_lines"]:
        v = "ALARM: broken tie only (no-failing-input-found)"
    else:
        v = "ALARM with a failing input"
    files = sorted(set(re.findall(r"^\+\+\+ b/(\S+)", open(os.path.join(d, "patch.diff")).read(), re.M)))
    summ = (m.get("summary") or "").replace("|", "/").replace("\n", " ")[:230]
    rows.append(f"| {os.path.basename(d)} | {m['property']} | {', '.join(files)} | {summ} | {v} | {m.get('note', '')} |")
table = "| id | property | file(s) | rewrite | quick tier | note |\n|---|---|---|---|---|---|\n" + "\n".join(rows)
p = os.path.join(V, "DESIGN.md")
s = open(p).read()
a, b = "<!-- HARMLESS-TABLE-BEGIN -->", "<!-- HARMLESS-TABLE-END -->"
if a in s:
    s = s[:s.index(a) + len(a)] + "\n" + table + "\n" + s[s.index(b):]
    open(p, "w").write(s)
print(table)
