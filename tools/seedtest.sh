#!/bin/sh
# tools/seedtest.sh <seeded-dir> [tier]  — run the property's check against a scratch worktree of /repo with the
# seeded change applied (never /repo itself), with evidence redirected, and print the verdict.
# Also confirms: the patch applies, the pinned suite passes with it, the demonstration fails with it and passes without it.
set -u
D=$(cd "$1" && pwd); TIER=${2:-quick}
PID=$(/venv/bin/python -c "import json,sys; print(json.load(open('$D/meta.json'))['property'])")
WT=/var/tmp/seedwt-$$
git -C /repo worktree add -q --detach $WT HEAD || exit 2
trap 'git -C /repo worktree remove --force $WT >/dev/null 2>&1' EXIT
PP="$WT:$WT/pdks/Sky130:$WT/pdks/Gf180:$WT/pdks/Asap7"
DEMO=$(ls $D/demo* | head -1)
( cd $WT && PYTHONPATH=$PP PYTHONDONTWRITEBYTECODE=1 /venv/bin/python $DEMO >/dev/null 2>&1 ); echo "demo-clean rc=$?"
git -C $WT apply $D/patch.diff || { echo "patch does not apply"; exit 2; }
( cd $WT && PYTHONPATH=$PP PYTHONDONTWRITEBYTECODE=1 /venv/bin/python $DEMO >/dev/null 2>&1 ); echo "demo-changed rc=$?"
/verif/tools/run_baseline.py $WT | head -3
cd /verif && VERIF_EVIDENCE_DIR=/verif/work/seed-evidence VERIF_REPO=$WT ./check $PID --tier $TIER 2>/dev/null | grep -E "VIOLATION|KNOWN-FINDING" | head -5
echo "check rc=$?"
