#!/venv/bin/python
"""debug: evaluate the pieces of chk_c01 on a replay file"""
import sys, json, os, subprocess
sys.path.insert(0, "/verif/harness")
from vp import core, design as D, c01
rp = json.load(open(sys.argv[1]))
d = rp["case"]
out = core.run_worker("c01", dict(jobs=[dict(design=d, spice=True)]))["results"][0]
print("impl err:", out["err"]); print(out.get("spice"))
case = c01.c_case(d, out)
os.makedirs("/verif/work/dbg", exist_ok=True)
path = "/verif/work/dbg/dbg.v"
open(path, "w").write(c01.IMPORTS + "\nRequire Import Hdl21.Base.PrimTable.\nOpen Scope Z_scope.\nDefinition c := " + case + ".\n" + """
Eval vm_compute in (wf_design (cc_design c)).
Eval vm_compute in (match terminals (cc_design c) with Ok ts => Ok (same_nodes (map fst ts) (cc_terms c), map snd ts) | Error e => Error e end).
Eval vm_compute in (labels (cc_design c) (design_fuel (cc_design c)) (cc_terms c)).
Eval vm_compute in (match cc_pkg c with Some p => match design_of_pkg prims_ext p (cc_top c) with Ok pd => (match terminals pd with Ok ts => Ok (same_nodes (map fst ts) (cc_pterms c), map snd ts) | Error e => Error e end, labels pd (design_fuel pd) (cc_pterms c)) | Error e => (Error e, Error e) end | None => (Error EOther, Error EOther) end).
Eval vm_compute in (chk_c01 c).
""")
p = subprocess.run(["coqc"] + core.COQ_FLAGS + [path], capture_output=True, text=True)
print(p.stdout[-6000:], p.stderr[-3000:])
