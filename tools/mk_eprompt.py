#!/usr/bin/env python3
"""tools/mk_eprompt.py TAG "Cxx,Cyy" jobfile : prompt + worktrees for an EXTENSION builder (new files prefixed TAG; job text from jobfile)."""
import json, sys, subprocess
tag, pids, job = sys.argv[1], sys.argv[2].split(","), open(sys.argv[3]).read()
props = {json.loads(l)["id"]: l.strip() for l in open('/verif/properties.jsonl')}
vw, rw = f"/var/tmp/vw-{tag}", f"/var/tmp/rw-{tag}"
subprocess.run(["git", "-C", "/verif", "worktree", "add", "-q", "-b", f"b2-{tag}", vw, "main"], check=True)
subprocess.run(["git", "-C", "/repo", "worktree", "add", "-q", "--detach", rw, "HEAD"], check=True)
p0 = pids[0]
open(f"/var/tmp/prompts2/{tag}.txt", "w").write(f"""You are EXTENDING the machine-checked (Coq 8.16) verification of propert{'y' if len(pids)==1 else 'ies'} {', '.join(pids)} of the Python library dan-fritchman/Hdl21 inside an existing framework. No network; everything needed is installed.

YOUR WORKSPACES (work only here):
- {vw} : git worktree (branch b2-{tag}) of the verification repository. Commit ALL deliverables here (never switch branches, never touch /verif itself).
- {rw} : scratch git worktree of the Hdl21 repository at its current repaired HEAD (reading, mutation experiments, repairs; never commit there; never touch /repo; never use `git stash`). Deliver repairs of GENUINE defects as fixes/{tag}-<n>.patch + fixes/{tag}-<n>.msg in {vw} (first line of the msg starts with "fix: "; `python3 tools/run_baseline.py {rw}` must print `missing 0` with the repair applied; leave the repair applied, uncommitted, in {rw}).

FIRST read {vw}/tools/BUILDERS.md completely (contract + round-2 rules). All your NEW files are prefixed {tag} (coq/theories/Model/{tag}*.v, Proofs/{tag}*.v, Props/{tag}.v, Corr/{tag}.v, harness/vp/{tag.lower()}.py, harness/impl/{tag.lower()}.py, notes/{tag}.md); existing definitions and lemma STATEMENTS of other files are not changed (you may add lemmas to new files; shared files are append-only; the only edit of harness/vp/{p0.lower()}.py is an append-only hook at the END of run() calling your module, as the existing c01e/c01f/c01g/c02e/c07e hooks do). Props/{tag}.v holds only statements closed by `exact`/`apply` of a lemma with `Print Assumptions` beneath each; everything must be `Closed under the global context` (no Axiom/Parameter/Admitted/admit, no Variable/Hypothesis outside a Section). Run `export VERIF_NPROC=8; cd {vw} && ./setup.sh` and `VERIF_REPO={rw} ./check {p0} --tier quick` first. Run every coqc/make under a shell `timeout`.

THE PROPERT{'Y' if len(pids)==1 else 'IES'} (fixed text, JSON):
""" + "\n".join(props[p] for p in pids) + f"""

{job}

GENERAL: state each theorem at full strength; where only part can be proved name it `..._partial` and say exactly what is missing; Examples showing the hypotheses are satisfiable by a non-trivial object. Keep the {p0} quick tier under ~3.5 minutes with VERIF_NPROC=16 and silent on the repaired tree for VERIF_SEED=0,1,2,3 (use VERIF_EVIDENCE_DIR=/var/tmp/ev-{tag} for your runs). Try 3 small mutations of the implementation in the neighbourhood of what you modelled (each passing tools/run_baseline.py) and report whether the check catches them (VIOLATION with a concrete replay). Append to tools/manifest/{p0}.json (honest text: what is proved, under which hypotheses, what stays partial/trusted) and write notes/{tag}.md. Commit after each milestone (small commits; the session may be interrupted - whatever is committed counts). Final reply: deliverables, theorems in plain words with exact hypotheses, what stays partial, tie statistics, mutation results, wall times.
""")
print(vw, rw)
