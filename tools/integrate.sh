#!/bin/bash
# tools/integrate.sh Cxx : merge builder branch b2-Cxx, commit its repairs to /repo one by one (pinned suite after each)
set -u
P=$1
cd /verif
git merge --no-edit b2-$P > /tmp/merge-$P.log 2>&1
for f in $(git diff --name-only --diff-filter=U); do
  case $f in evidence/*|MANIFEST.json|known_findings.json) git checkout --ours $f; git add $f;; *) echo "REAL CONFLICT $f";; esac
done
if git diff --name-only --diff-filter=U | grep -q .; then echo "unresolved conflicts"; exit 1; fi
git commit -q --no-edit 2>/dev/null
echo "merged b2-$P: $(git log --oneline -1)"
for patch in $(ls fixes/$P-*.patch 2>/dev/null | sort -V); do
  n=$(basename $patch .patch)
  if [ -f fixes/$n.applied ]; then continue; fi
  if git -C /repo apply --check /verif/$patch 2>/dev/null; then
    git -C /repo apply /verif/$patch
    bl=$(tools/run_baseline.py /repo | head -1)
    case "$bl" in *"missing 0"*) ;; *) echo "BASELINE BROKEN by $n: $bl"; git -C /repo checkout -- .; continue;; esac
    if [ -f fixes/$n.msg ]; then git -C /repo commit -qaF /verif/fixes/$n.msg; else echo "NO MSG for $n"; git -C /repo checkout -- .; continue; fi
    c=$(git -C /repo rev-parse --short HEAD); echo "$c" > fixes/$n.applied
    echo "applied $n as $c [$bl]: $(head -1 fixes/$n.msg)"
  else
    echo "PATCH DOES NOT APPLY: $n"; git -C /repo apply --check /verif/$patch 2>&1 | head -3
  fi
done
git -C /repo status --short | head -5
