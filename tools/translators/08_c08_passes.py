"""C08 table: for each entry of Elaborator.default — its cache index, whether it declares REWRITES_MODULES, whether it
sets Module._elaborated, and whether a scan of its source finds calls that change a Module in place.
Run by tools/translate_tables.py (globals: repo, outdir, emit, die, src, cz, cstr, find_class, find_func, ...).

The repaired code records EVERY failure of a pass body on its Module (every pass counts as rewriting).  Should a tree
declare exemptions through a class attribute `REWRITES_MODULES` (an earlier draft of the repair did), the flags are read from
the class bodies in the SOURCE (ast; inherited along the textual base classes) and cross-checked against the live classes, and
Props/C08.v requires every pass whose source changes Modules in place to be declared rewriting.  `c08_has_failure_record` says
whether elaborate_module_base and the exporter raise a recorded `_elab_failure`; without it Props/C08.v fails closed.

Strengthening round: the SHAPE of the exception handling is read as well (the model's policy `repaired` does not tell an
`Exception` from any other `BaseException`; the code must not either):
  c08_pass_pending_finally   every `pending.remove` of elaborate_module_base sits in a `finally` whose `try` directly follows `pending.add`
  c08_pass_record_base       the handler that records `_elab_failure` around `self.elaborate_module(...)` is bare or `BaseException`, and re-raises
  c08_pass_sweep             elaborate_tops visits `self.modules_below(self.tops)` after the tops; the live `modules_below` is a depth-first walk
  c08_gen_pending_finally / c08_gen_stack_finally   the same for generator.run (`pending.remove`, `stack.pop`)"""
import ast as _ast

_FILES = {"Orphanage": "orphanage.py", "InstBundleElabPass": "inst_bundles.py", "ResolvePortRefs": "portrefs.py",
          "ConnTypes": "conntypes.py", "BundleFlattener": "flatten_bundles.py", "ArrayFlattener": "arrays.py",
          "SliceResolver": "slices.py", "MarkModules": "mark_modules.py"}
_MUTATORS = {"add", "connect", "disconnect", "popitem", "pop", "remove", "clear", "update", "setdefault"}


def _class_flag(cls):
    for st in cls.body:
        tgt = None
        if isinstance(st, _ast.Assign) and len(st.targets) == 1 and isinstance(st.targets[0], _ast.Name):
            tgt, val = st.targets[0].id, st.value
        elif isinstance(st, _ast.AnnAssign) and isinstance(st.target, _ast.Name) and st.value is not None:
            tgt, val = st.target.id, st.value
        if tgt == "REWRITES_MODULES":
            if not (isinstance(val, _ast.Constant) and isinstance(val.value, bool)):
                die(f"{cls.name}.REWRITES_MODULES is not a boolean literal")
            return val.value
    return None


def _is_self_stack(node):
    """self.stack.append / self.stack.pop — the per-call error path, not a Module."""
    return (isinstance(node, _ast.Attribute) and isinstance(node.value, _ast.Attribute) and node.value.attr == "stack"
            and isinstance(node.value.value, _ast.Name) and node.value.value.id == "self")


def _scan(cls):
    """(mutating call names found, assigns module._elaborated, that assignment is the last statement before return)"""
    found, marks, mark_last = set(), False, True
    for fn in [n for n in cls.body if isinstance(n, _ast.FunctionDef)]:
        # local containers: names bound in this function to a fresh copy / literal / constructor result
        local = set()
        for n in _ast.walk(fn):
            if isinstance(n, (_ast.Assign, _ast.AnnAssign)) and n.value is not None:
                tg = n.targets[0] if isinstance(n, _ast.Assign) else n.target
                v = n.value
                fresh = isinstance(v, (_ast.Dict, _ast.List, _ast.Set, _ast.DictComp, _ast.ListComp)) or (
                    isinstance(v, _ast.Call) and (
                        (isinstance(v.func, _ast.Name) and v.func.id in ("dict", "list", "set", "SetList")) or
                        (isinstance(v.func, _ast.Attribute) and v.func.attr == "copy" and isinstance(v.func.value, _ast.Name)
                         and v.func.value.id == "copy")))
                if fresh and isinstance(tg, _ast.Name):
                    local.add(tg.id)
        for n in _ast.walk(fn):
            if isinstance(n, _ast.Call) and isinstance(n.func, _ast.Attribute) and n.func.attr in _MUTATORS \
                    and not _is_self_stack(n.func) \
                    and not (isinstance(n.func.value, _ast.Name) and n.func.value.id in local):
                found.add(n.func.attr)
            if isinstance(n, (_ast.Assign, _ast.AugAssign)):
                for t in (n.targets if isinstance(n, _ast.Assign) else [n.target]):
                    if isinstance(t, _ast.Attribute) and not (isinstance(t.value, _ast.Name) and t.value.id == "self"):
                        if t.attr == "_elaborated":
                            marks = True
                            body = [s for s in fn.body if not isinstance(s, _ast.Expr) or not isinstance(s.value, _ast.Constant)]
                            if not (len(body) >= 2 and body[-2] is n and isinstance(body[-1], _ast.Return)):
                                mark_last = False
                        else:
                            found.add("=" + t.attr)
    return found, marks, mark_last


def _c08_passes():
    base = find_class(src("hdl21/elab/passes/base.py"), "ElabPass")
    default_flag = _class_flag(base)
    has_attr = default_flag is not None
    if has_attr and default_flag is not True:
        die("ElabPass.REWRITES_MODULES must default to True (unknown passes are treated as rewriting)")
    elab_tree = src("hdl21/elab/elab.py")
    # the entries of the live default Elaborator (the list of the source must agree when it can be read)
    from hdl21.elab.elab import Elaborator
    live = Elaborator.default().passes
    names = [p.__name__ for p in live]
    sp = source_pass_list()
    if not names or (sp is not None and sp != names):
        die(f"default passes: ast {sp} vs live {names}")

    def class_node(name):
        if name in _FILES:
            return find_class(src("hdl21/elab/passes/" + _FILES[name]), name)
        for n in _ast.walk(elab_tree):
            if isinstance(n, _ast.ClassDef) and n.name == name:
                return n
        die(f"pass class {name} not found in elab.py or the built-in pass files")

    def resolve(name, depth=0):
        """(rewrites flag, scan) following textual single inheritance down to a built-in pass"""
        if depth > 4:
            die(f"inheritance chain of {name} too deep")
        c = class_node(name)
        flag = _class_flag(c)
        found, marks, mark_last = _scan(c)
        if name not in _FILES:
            if len(c.bases) != 1 or not isinstance(c.bases[0], _ast.Name):
                die(f"{name}: expected exactly one named base class")
            bflag, bfound, bmarks, blast = resolve(c.bases[0].id, depth + 1)
            flag = bflag if flag is None else flag
            found, marks, mark_last = found | bfound, marks or bmarks, mark_last and blast
        elif flag is None:
            flag = True
        return flag, found, marks, mark_last

    caches, rows = [], []
    for nm, p in zip(names, live):
        c = id(p.CLASS_LEVEL_CACHE)
        if c not in caches:
            caches.append(c)
        flag, found, marks, mark_last = resolve(nm)
        if has_attr and getattr(p, "REWRITES_MODULES", None) is not flag:
            die(f"{nm}.REWRITES_MODULES: source says {flag}, live class says {getattr(p, 'REWRITES_MODULES', None)}")
        if marks and not mark_last:
            die(f"{nm}: assignment of Module._elaborated is not the last statement of its function")
        rows.append((nm, caches.index(c), flag, marks, bool(found), ",".join(sorted(found))))
    # the failure record must be consulted by elaborate_module_base and by the exporter
    uses = 0
    for rel, fn, cls in (("hdl21/elab/passes/base.py", "elaborate_module_base", "ElabPass"),
                         ("hdl21/proto/exporting.py", "export_module", "ProtoExporter")):
        ftree = src(rel)
        fnode = _inline(find_func(ftree, fn, cls=cls), find_class(ftree, cls))
        if any(isinstance(n, _ast.Raise) and isinstance(n.exc, _ast.Attribute) and n.exc.attr == "_elab_failure"
               for n in _ast.walk(fnode)):
            uses += 1
    b = lambda x: "true" if x else "false"
    # the record must be set where a pass body raises
    btree = src("hdl21/elab/passes/base.py")
    fnode = _inline(find_func(btree, "elaborate_module_base", cls="ElabPass"), find_class(btree, "ElabPass"))
    sets = any(isinstance(n, _ast.Assign) and isinstance(n.targets[0], _ast.Attribute) and n.targets[0].attr == "_elab_failure"
               for n in _ast.walk(fnode))
    shape = _c08_shape()
    body = (f"Definition c08_has_failure_record : bool := {b(sets and uses == 2)}.\n" +
            "".join(f"Definition {k} : bool := {b(v)}.\n" for k, v in shape) +
            "(* entry name, cache index, REWRITES_MODULES, sets _elaborated, source scan finds in-place changes, what it found *)\n"
            "Definition c08_passes : list (string * nat * bool * bool * bool * string) :=\n  [" +
            ";\n   ".join(f"({cstr(n)}, {i}%nat, {b(rw)}, {b(mk)}, {b(mu)}, {cstr(what)})" for n, i, rw, mk, mu, what in rows) + "].\n")
    emit("C08Passes", body)


def _attr_chain(n):
    out = []
    while isinstance(n, _ast.Attribute):
        out.append(n.attr)
        n = n.value
    if isinstance(n, _ast.Name):
        out.append(n.id)
    return list(reversed(out))


def _calls(node, tail):
    """Call nodes below `node` whose function is an attribute chain ending in `tail` (e.g. ["pending", "remove"])"""
    return [n for n in _ast.walk(node) if isinstance(n, _ast.Call) and _attr_chain(n.func)[-len(tail):] == tail]


def _blocks(fn):
    """every statement list of the function"""
    out = []
    for n in _ast.walk(fn):
        for fld in ("body", "orelse", "finalbody"):
            b = getattr(n, fld, None)
            if isinstance(b, list) and b and isinstance(b[0], _ast.stmt):
                out.append(b)
        if isinstance(n, _ast.Try):
            for h in n.handlers:
                out.append(h.body)
    return out


def _guarded(fn, add_tail, rem_tail):
    """every call ...rem_tail lies in the `finally` of a `try` that DIRECTLY follows the statement holding ...add_tail,
    there is at least one, and none anywhere else"""
    rems = _calls(fn, rem_tail)
    adds = _calls(fn, add_tail)
    if not rems or len(adds) != 1:
        return False
    infinal = []
    for t in [n for n in _ast.walk(fn) if isinstance(n, _ast.Try)]:
        for st in t.finalbody:
            infinal += _calls(st, rem_tail)
    if len(infinal) != len(rems):
        return False
    for blk in _blocks(fn):
        for i, st in enumerate(blk):
            if any(n is adds[0] for n in _ast.walk(st)):
                nxt = blk[i + 1] if i + 1 < len(blk) else None
                if isinstance(nxt, _ast.Try) and any(_calls(x, rem_tail) for x in nxt.finalbody):
                    return True
    return False



# ---- helper extraction must not change what is read: one level of statement-level calls of helpers defined beside the function
#      (`self.<h>(...)` -> a method of the same class, `<h>(...)` -> a function of the same module) is inlined before the shape
#      is looked at.  The hooks the flags look FOR are never inlined.
_ANCHORS = {"elaborate_module", "elaborate_module_base", "modules_below", "elaborate_tops", "run"}


def _helper_of(call, scope):
    """the FunctionDef a statement-level call refers to, or None: self.h(...) / cls.h(...) in a class scope, h(...) in a module"""
    if not isinstance(call, _ast.Call):
        return None
    f = call.func
    name = None
    if isinstance(scope, _ast.ClassDef) and isinstance(f, _ast.Attribute) and isinstance(f.value, _ast.Name) and f.value.id in ("self", "cls"):
        name = f.attr
    elif isinstance(scope, _ast.Module) and isinstance(f, _ast.Name):
        name = f.id
    if name is None or name in _ANCHORS:
        return None
    found = [n for n in scope.body if isinstance(n, _ast.FunctionDef) and n.name == name]
    if len(found) != 1 or any("contextmanager" in _ast.unparse(d) for d in found[0].decorator_list):
        return None
    return found[0]


def _body_of(helper, how, target):
    """the statements of the helper with every `return e` of its own (not of nested functions) turned into what the call
    site does with the value: `target = e`, `return e`, or the bare expression"""
    import copy

    class R(_ast.NodeTransformer):
        def visit_FunctionDef(self, n):
            return n
        visit_AsyncFunctionDef = visit_Lambda = visit_FunctionDef

        def visit_Return(self, n):
            if how == "return":
                return n
            if n.value is None:
                return _ast.Pass()
            if how == "assign":
                return _ast.Assign(targets=[copy.deepcopy(target)], value=n.value, lineno=n.lineno, col_offset=0)
            return _ast.Expr(value=n.value)

    body = [copy.deepcopy(st) for st in helper.body]
    if body and isinstance(body[0], _ast.Expr) and isinstance(body[0].value, _ast.Constant) and isinstance(body[0].value.value, str):
        body = body[1:]
    out = []
    for st in body:
        r = R().visit(st)
        out.append(r)
    return out or [_ast.Pass()]


def _inline(fn, scope):
    """a copy of fn with one level of helper calls inlined (see above)"""
    import copy
    fn = copy.deepcopy(fn)

    def splice(stmts):
        out = []
        for st in stmts:
            call, how, target = None, None, None
            if isinstance(st, _ast.Expr):
                call, how = st.value, "expr"
            elif isinstance(st, _ast.Assign) and len(st.targets) == 1:
                call, how, target = st.value, "assign", st.targets[0]
            elif isinstance(st, _ast.Return):
                call, how = st.value, "return"
            h = _helper_of(call, scope) if call is not None else None
            if h is not None and h.name != fn.name:
                out += _body_of(h, how, target)
                continue
            for fld in ("body", "orelse", "finalbody"):
                b = getattr(st, fld, None)
                if isinstance(b, list) and b and isinstance(b[0], _ast.stmt) and not isinstance(st, (_ast.FunctionDef, _ast.ClassDef)):
                    setattr(st, fld, splice(b))
            if isinstance(st, _ast.Try):
                for hd in st.handlers:
                    hd.body = splice(hd.body)
            out.append(st)
        return out

    fn.body = splice(fn.body)
    return _ast.fix_missing_locations(fn)


def _ctx_managers(fn, scope):
    """the @contextmanager functions of the scope that fn enters through `with`"""
    out = []
    for n in _ast.walk(fn):
        if isinstance(n, _ast.With):
            for it in n.items:
                c = it.context_expr
                if isinstance(c, _ast.Call):
                    name = c.func.id if isinstance(c.func, _ast.Name) else (c.func.attr if isinstance(c.func, _ast.Attribute) else None)
                    for d in scope.body:
                        if isinstance(d, _ast.FunctionDef) and d.name == name and any("contextmanager" in _ast.unparse(x) for x in d.decorator_list) \
                                and d not in out:
                            out.append(d)
    return out


def _guarded_unit(fn, scope, add_tail, rem_tail):
    """_guarded over fn with its helpers inlined; or, when fn itself neither adds nor removes, over the ONE @contextmanager
    it enters through `with` that does (add; try: yield; finally: remove) - every use of that manager must be a `with`"""
    f = _inline(fn, scope)
    if _calls(f, add_tail) or _calls(f, rem_tail):
        return _guarded(f, add_tail, rem_tail)
    cms = [c for c in _ctx_managers(f, scope) if _calls(c, add_tail) or _calls(c, rem_tail)]
    if len(cms) != 1:
        return False
    cm = cms[0]
    if not _guarded(cm, add_tail, rem_tail):
        return False
    # the `yield` sits in the try whose finally removes
    ok = False
    for t in [n for n in _ast.walk(cm) if isinstance(n, _ast.Try)]:
        if any(_calls(x, rem_tail) for x in t.finalbody) and any(isinstance(n, _ast.Yield) for st in t.body for n in _ast.walk(st)):
            ok = True
    if not ok or sum(isinstance(n, _ast.Yield) for n in _ast.walk(cm)) != 1:
        return False
    # entered through `with` only
    uses = [n for n in _ast.walk(scope) if isinstance(n, _ast.Name) and n.id == cm.name]
    withs = [it.context_expr.func for w in _ast.walk(scope) if isinstance(w, _ast.With) for it in w.items if isinstance(it.context_expr, _ast.Call)]
    return all(any(u is w for w in withs) for u in uses)


def _c08_shape():
    base = src("hdl21/elab/passes/base.py")
    ecls = find_class(base, "ElabPass")
    emb = _inline(find_func(base, "elaborate_module_base", cls="ElabPass"), ecls)
    pend_ok = _guarded_unit(find_func(base, "elaborate_module_base", cls="ElabPass"), ecls, ["pending", "add"], ["pending", "remove"])
    rec_ok = False
    for t in [n for n in _ast.walk(emb) if isinstance(n, _ast.Try)]:
        if any(_calls(st, ["self", "elaborate_module"]) for st in t.body):
            for h in t.handlers:
                catches_all = h.type is None or (isinstance(h.type, _ast.Name) and h.type.id == "BaseException")
                sets = any(isinstance(n, _ast.Assign) and isinstance(n.targets[0], _ast.Attribute) and n.targets[0].attr == "_elab_failure"
                           for st in h.body for n in _ast.walk(st))
                reraises = any(isinstance(n, _ast.Raise) and n.exc is None for st in h.body for n in _ast.walk(st))
                first = h is t.handlers[0]
                if catches_all and sets and reraises and first:
                    rec_ok = True
    tops = _inline(find_func(base, "elaborate_tops", cls="ElabPass"), ecls)
    loops = [n for n in _ast.walk(tops) if isinstance(n, _ast.For)]
    sweep_ok = False
    if len(loops) == 2 and _calls(loops[0], ["self", "elaborate_module_base"]) and _calls(loops[1], ["self", "elaborate_module_base"]):
        it = loops[1].iter
        if isinstance(it, _ast.Call) and _attr_chain(it.func) == ["self", "modules_below"] and len(it.args) == 1 \
                and _attr_chain(it.args[0]) == ["self", "tops"] and tops.body.index(loops[0]) < tops.body.index(loops[1]):
            sweep_ok = True
    if sweep_ok:
        # live cross-check: a depth-first walk, each module once, following instances, arrays and instance bundles
        import hdl21 as h
        from hdl21.elab.passes.base import ElabPass
        ms = [h.Module(name=f"W{i}") for i in range(5)]
        for a, kids in ((0, [1, 3]), (1, [2]), (3, [2, 4]), (4, [0])):      # a diamond, and a cycle back to the top
            for j, k in enumerate(kids):
                ms[a].add((h.Instance if (a + j) % 2 else h.InstanceArray)(of=ms[k], name=f"i{j}", **({} if (a + j) % 2 else {"n": 2})))
        got = [m.name for m in ElabPass.modules_below([ms[0], ms[4]])]
        if got != _dfs_expected(ms) or sorted(got) != [f"W{i}" for i in range(5)]:
            die(f"ElabPass.modules_below is not the depth-first walk the model follows: {got} vs {_dfs_expected(ms)}")
    gtree = src("hdl21/generator.py")
    gen = find_func(gtree, "run")
    gp_ok = _guarded_unit(gen, gtree, ["pending", "add"], ["pending", "remove"])
    gs_ok = _guarded_unit(gen, gtree, ["stack", "append"], ["stack", "pop"])
    return [("c08_pass_pending_finally", pend_ok), ("c08_pass_record_base", rec_ok), ("c08_pass_sweep", sweep_ok),
            ("c08_gen_pending_finally", gp_ok), ("c08_gen_stack_finally", gs_ok)]


def _dfs_expected(ms):
    """the order the MODEL walks (Model/C08PassFail.v reach_step): instances, then arrays, then instance bundles"""
    order, seen = [], set()

    def walk(m):
        if id(m) in seen:
            return
        seen.add(id(m))
        order.append(m.name)
        for ctr in (m.instances, m.instarrays, m.instbundles):
            for x in ctr.values():
                walk(x.of)
    walk(ms[0]); walk(ms[4])
    return order


_c08_passes()
