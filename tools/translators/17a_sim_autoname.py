"""C17Names.v : auto_name_prefix - what SimProtoExporter puts before the counter in the name of an UNNAMED analysis.

The property (C17) asks for distinct names, not for a spelling; Model/SimExport.v takes the prefix from here.
BEHAVIOUR: a Sim of twelve unnamed analyses goes through the public hdl21.sim.to_proto; every name must be ONE prefix followed
by the decimal position, else the step fails closed.  A step (and a file) of its own: the model depends on it, and must keep
building when a table of 17_sim_tables.py fails closed, so that the streams can still look for a failing input."""
import sys
import hdl21
import hdl21.sim
_d = sys.modules["hdl21.sim.data"]
_p = sys.modules["hdl21.sim.proto"]
_tb = hdl21.Module(name="TrxSimTb")
_tb.add(hdl21.Port(name="VSS"))
_sim = _d.Sim(tb=_tb, attrs=[_d.Op() for _ in range(12)])
_inp = _p.to_proto(_sim)
_names = [getattr(a, a.WhichOneof("an")).analysis_name for a in _inp.an]
if len(_names) != 12 or not _names[0].endswith("0"):
    die(f"unnamed analyses: names {_names[:3]}... do not end in a counter starting at 0")
auto_prefix = _names[0][:-1]
if _names != [auto_prefix + str(k) for k in range(12)]:
    die(f"unnamed analyses: names {_names} are not one prefix followed by the decimal position")
if not all(32 <= ord(ch) < 127 for ch in auto_prefix):
    die(f"unnamed analyses: non-ASCII prefix {auto_prefix!r}")
emit("C17Names", f"Definition auto_name_prefix : string := {cstr(auto_prefix)}.\n")
