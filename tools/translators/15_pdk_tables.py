"""C15 translator: import-and-dump every PDK device table into Hdl21Gen.PdkTables_*.v and Hdl21Gen.PrimitivePorts.v.

The PDK tables are built by constructor calls (xtor_module(...), res_module(...)), so they are dumped from the imported
packages of the repo tree under test (PYTHONPATH points there), and cross-checked against an `ast` reading of the dict
literals in the source (number of entries and the literal key strings, in order).  Fail-closed on any unexpected shape.

Generated shapes (plain stdlib types only):
  entry  := (key : list string, (device name : string, ordered port names : list string, parameter class name : string))
  sizes  := list (device name * ((num, den) * (num, den)))      default (w, l) as exact rationals
  enums  := list string, members rendered "MosType.NMOS"
"""
import ast, os, sys, enum, decimal
from fractions import Fraction

import hdl21 as h
from hdl21.primitives import MosType, MosVth, MosFamily, BipolarType


def key_str(x):
    if isinstance(x, enum.Enum):
        return f"{type(x).__name__}.{x.name}"
    if isinstance(x, str):
        return x
    die(f"C15 tables: unexpected key member {x!r}")


def ascii_ok(s):
    if not (isinstance(s, str) and s and all(32 <= ord(c) < 127 for c in s)):
        die(f"C15 tables: non printable-ascii string {s!r}")
    return s


def frac(x):
    """exact rational of a table value (Prefixed | int | float written as a short decimal)"""
    if isinstance(x, h.Prefixed):
        return Fraction(x.number) * Fraction(10) ** x.prefix.value
    if isinstance(x, bool):
        die("C15 tables: bool size")
    if isinstance(x, int):
        return Fraction(x)
    if isinstance(x, float):
        return Fraction(repr(x))
    if isinstance(x, decimal.Decimal):
        return Fraction(x)
    die(f"C15 tables: unexpected size value {x!r}")


def cfrac(f):
    return f"({cz(f.numerator)}, {cz(f.denominator)})"


def clist(xs):
    return "[" + "; ".join(xs) + "]"


def dev_term(mod):
    if not isinstance(mod, h.ExternalModule):
        die(f"C15 tables: table value {mod!r} is not an ExternalModule")
    ports = [ascii_ok(p.name) for p in mod.port_list]
    pt = mod.paramtype
    pname = pt.__name__ if isinstance(pt, type) else repr(pt)
    return f"({cstr(ascii_ok(mod.name))}, {clist([cstr(p) for p in ports])}, {cstr(ascii_ok(pname))})"


def table_term(name, d, tuple_keys):
    rows = []
    for k, v in d.items():
        if tuple_keys:
            if not isinstance(k, tuple) or not k:
                die(f"C15 tables: {name}: key {k!r} is not a non-empty tuple")
            ks = [ascii_ok(key_str(x)) for x in k]
        else:
            if not isinstance(k, str):
                die(f"C15 tables: {name}: key {k!r} is not a string")
            ks = [ascii_ok(k)]
        rows.append(f"({clist([cstr(x) for x in ks])}, {dev_term(v)})")
    if not rows:
        die(f"C15 tables: {name} is empty")
    return f"Definition {name} : list (list string * (string * list string * string)) :=\n  [" + ";\n   ".join(rows) + "].\n"


def sizes_term(name, d):
    rows = []
    for k, v in d.items():
        if not (isinstance(k, str) and isinstance(v, tuple) and len(v) == 2):
            die(f"C15 tables: {name}: unexpected entry {k!r}: {v!r}")
        rows.append(f"({cstr(ascii_ok(k))}, ({cfrac(frac(v[0]))}, {cfrac(frac(v[1]))}))")
    return f"Definition {name} : list (string * ((Z * Z) * (Z * Z))) :=\n  [" + ";\n   ".join(rows) + "].\n"


def size1_term(name, d):
    rows = [f"({cstr(ascii_ok(k))}, {cfrac(frac(v))})" for k, v in d.items()]
    return f"Definition {name} : list (string * (Z * Z)) :=\n  [" + ";\n   ".join(rows) + "].\n"


def ast_dict_keys(rel, varname):
    """first-string-of-key of every entry of the module-level dict literal `varname` in the source file, in order"""
    tree = src(rel)
    for st in tree.body:
        tgt = None
        if isinstance(st, ast.AnnAssign) and isinstance(st.target, ast.Name):
            tgt, val = st.target.id, st.value
        elif isinstance(st, ast.Assign) and len(st.targets) == 1 and isinstance(st.targets[0], ast.Name):
            tgt, val = st.targets[0].id, st.value
        if tgt == varname:
            if not isinstance(val, ast.Dict):
                die(f"{rel}: {varname} is not a dict literal")
            out = []
            for k in val.keys:
                if isinstance(k, ast.Tuple) and k.elts and isinstance(k.elts[0], ast.Constant) and isinstance(k.elts[0].value, str):
                    out.append((k.elts[0].value, len(k.elts)))
                elif isinstance(k, ast.Constant) and isinstance(k.value, str):
                    out.append((k.value, 1))
                else:
                    die(f"{rel}: {varname}: unexpected key shape {ast.dump(k)}")
            return out
    die(f"{rel}: dict literal {varname} not found")


def cross_check(rel, varname, live, tuple_keys):
    # the live table is what is dumped; the dict literal of the source, when the table still is one, must list the same keys
    a = soft(ast_dict_keys, rel, varname)
    l = [((k[0], len(k)) if tuple_keys else (k, 1)) for k in live.keys()]
    if a is not None and a != l:
        die(f"{rel}: {varname}: ast reading {a[:3]}... ({len(a)}) differs from the live table ({len(l)})")


def cross_check_sizes(rel, varname, live):
    a = soft(ast_dict_keys, rel, varname)
    if a is not None and [k for k, _ in a] != list(live.keys()):
        die(f"{rel}: {varname}: ast keys differ from the live table")


# ------------------------------------------------------------------------------------------ primitives
prims = ["Mos", "PhysicalResistor", "ThreeTerminalResistor", "PhysicalCapacitor", "ThreeTerminalCapacitor", "Diode", "Bipolar"]
body = "Definition primitive_ports : list (string * list string) :=\n  [" + ";\n   ".join(
    f"({cstr(p)}, {clist([cstr(ascii_ok(q.name)) for q in getattr(h.primitives, p).port_list])})" for p in prims) + "].\n"
for en, nm in ((MosType, "mos_types"), (MosFamily, "mos_families"), (MosVth, "mos_vths"), (BipolarType, "bipolar_types")):
    body += f"Definition {nm} : list string := {clist([cstr(key_str(m)) for m in en])}.\n"
# defaults of the generic MosParams (the walkers rely on them)
dmp = h.MosParams()
body += f"Definition mos_param_defaults : list string := {clist([cstr(key_str(dmp.tp)), cstr(key_str(dmp.family)), cstr(key_str(dmp.vth))])}.\n"
emit("PrimitivePorts", body)

# ------------------------------------------------------------------------------------------ Sky130
import sky130_hdl21.primitives.prim_dicts as SK
rel = "pdks/Sky130/sky130_hdl21/primitives/prim_dicts.py"
body = ""
for nm, tk in (("xtors", True), ("ress", False), ("caps", False), ("diodes", False), ("bjts", False), ("vpps", False)):
    cross_check(rel, nm, getattr(SK, nm), tk)
    body += table_term("sky130_" + nm, getattr(SK, nm), tk)
for nm in ("default_xtor_size", "default_gen_res_size", "default_cap_sizes"):
    cross_check_sizes(rel, nm, getattr(SK, nm))
    body += sizes_term("sky130_" + nm, getattr(SK, nm))
cross_check_sizes(rel, "default_prec_res_L", SK.default_prec_res_L)
body += size1_term("sky130_default_prec_res_L", SK.default_prec_res_L)
emit("PdkTables_sky130", body)

# ------------------------------------------------------------------------------------------ GF180
import gf180_hdl21.primitives.prim_dicts as GF
rel = "pdks/Gf180/gf180_hdl21/primitives/prim_dicts.py"
body = ""
for nm, tk in (("xtors", True), ("ress", False), ("caps", False), ("diodes", False), ("bjts", False)):
    cross_check(rel, nm, getattr(GF, nm), tk)
    body += table_term("gf180_" + nm, getattr(GF, nm), tk)
for nm in ("default_xtor_size", "default_res_size", "default_diode_size"):
    cross_check_sizes(rel, nm, getattr(GF, nm))
    body += sizes_term("gf180_" + nm, getattr(GF, nm))
emit("PdkTables_gf180", body)

# ------------------------------------------------------------------------------------------ ASAP7 (table built by a loop: dump only, cross-check the two literal name maps)
import asap7_hdl21.pdk as A7
tree = src("pdks/Asap7/asap7_hdl21/pdk.py")
nlit = {}
for st in tree.body:
    if isinstance(st, ast.Assign) and isinstance(st.targets[0], ast.Name) and st.targets[0].id in ("_mos_typenames", "_mos_vtnames"):
        if isinstance(st.value, ast.Dict):
            nlit[st.targets[0].id] = len(st.value.keys)
for nm in nlit:
    if nlit[nm] != len(getattr(A7, nm)):
        die(f"asap7: {nm}: the literal of the source has {nlit[nm]} entries, the live table {len(getattr(A7, nm))}")
if len(A7._mos_modules) != len(A7._mos_typenames) * len(A7._mos_vtnames):
    die("asap7: device table does not have |types| x |vts| entries")


def walker_choices(walker_cls, what):
    """BEHAVIOUR of <walker>.mos_module on the generic MosParams of every (type, family, threshold) triple:
    {triple: ExternalModule | None (refused)}"""
    out = {}
    for tp in MosType:
        for fam in MosFamily:
            for vth in MosVth:
                try:
                    mod = walker_cls().mos_module(h.MosParams(tp=tp, family=fam, vth=vth))
                except Exception:
                    mod = None
                if mod is not None and not isinstance(mod, h.ExternalModule):
                    die(f"{what}: mos_module returns {mod!r}")
                out[(tp, fam, vth)] = mod
    return out


# the walker must choose by (type, threshold) out of the dumped table, and refuse what the table does not have
for (tp, fam, vth), mod in walker_choices(A7.Asap7Walker, "asap7").items():
    if mod is not A7._mos_modules.get((tp, vth), None):
        die(f"asap7: Asap7Walker.mos_module{(tp, fam, vth)} is not the entry {(tp, vth)} of _mos_modules")
emit("PdkTables_asap7", table_term("asap7_mos_modules", A7._mos_modules, True))

# ------------------------------------------------------------------------------------------ sample PDK (two devices chosen by the MOS type alone)
import hdl21.pdk.sample_pdk.pdk as SP
by_type = {}
for (tp, fam, vth), mod in walker_choices(SP.SamplePdkWalker, "sample pdk").items():
    if mod is None:
        die(f"sample pdk: mos_module refuses {(tp, fam, vth)}")
    if by_type.setdefault(tp, mod) is not mod:
        die(f"sample pdk: mos_module chooses by more than the MOS type ({(tp, fam, vth)})")
# SOURCE, when the choice is still spelled with the two module names: they must be the devices chosen
f = soft(find_func, src("hdl21/pdk/sample_pdk/pdk.py"), "mos_module", cls="SamplePdkWalker")
rets = []
for n in (ast.walk(f) if f is not None else []):
    if isinstance(n, ast.Return) and n.value is not None:
        vals = [n.value.body, n.value.orelse] if isinstance(n.value, ast.IfExp) else [n.value]
        rets += [v.id for v in vals if isinstance(v, ast.Name)]
if rets and (any(not hasattr(SP, r) for r in rets) or {id(getattr(SP, r)) for r in rets} != {id(m) for m in by_type.values()}):
    die(f"sample pdk: mos_module returns {rets} in the source, the live walker chooses {[m.name for m in by_type.values()]}")
order = [MosType.PMOS, MosType.NMOS] + [t for t in MosType if t not in (MosType.PMOS, MosType.NMOS)]
emit("PdkTables_sample", table_term("sample_mos_modules", {(tp,): by_type[tp] for tp in order}, True))
