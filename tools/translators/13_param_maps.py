# C13Tables.v : the tables the parameter-export path of hdl21/proto/exporting.py depends on (property C13).
#   c13_prim_map      ideal-primitive name map: the exporter's behaviour on every registered primitive (order: the literal table of the source)
#   c13_pulse_class / c13_pulse_rename
#                     the ONE paramclass export_primitive_params writes under other names and the renaming
#                     (exported name, attribute read from params), in order: behaviour on probes of every IDEAL paramclass
#   c13_prims         the primitive registry: name, primitive type, paramclass name, fields (name, kind, default)
#                     kind 0 = Scalar, 1 = Optional[Scalar], 2 = Optional[str], 3 = string-valued Enum
#                     default tag 0 = required, 1 = None, 2 = int (value in the next column), 3 = enum member (its .value)
#   c13_vlsir_prims   the parameter names each `vlsir.primitives` element documents (live vlsirtools.primitives.package)
#   c13_ws / c13_digit_zeros
#                     CPython's str.isspace() code points and the zero digits of every Unicode decimal-digit block
#                     (Decimal(str) strips the former at both ends and reads the latter as digits)
# Everything is cross-checked against the live objects; any unexpected shape aborts (fail-closed).
import ast, sys, enum, typing, unicodedata


def _run():
    tree = src("hdl21/proto/exporting.py")

    # ---- ideal-primitive name map: behaviour of the exporter on every registered primitive, ordered by the literal table of
    #      the source wherever it stands (translate_tables.py: prim_export_reading)
    pm = prim_export_reading()

    # ---- export_primitive_params: the ONE parameter class written under other names, and the renaming (exported name, field
    #      read), in the order of the exported dict - read off the behaviour on a probe of every IDEAL parameter class
    #      (translate_tables.py: export_renaming_reading).  When the source still has the form
    #      `if isinstance(params, <Cls>): return dict(k=params.attr, ...)` that reading must agree.
    pcls, ren = export_renaming_reading()
    pulse_cls = pcls.__name__

    def _source_form():
        f = find_func(tree, "export_primitive_params")
        ifs = [n for n in f.body if isinstance(n, ast.If)]
        if len(ifs) != 1:
            die("not one if")
        t = ifs[0].test
        if not (isinstance(t, ast.Call) and isinstance(t.func, ast.Name) and t.func.id == "isinstance" and len(t.args) == 2
                and isinstance(t.args[1], ast.Name)):
            die("test shape")
        body = ifs[0].body
        if not (len(body) == 1 and isinstance(body[0], ast.Return) and isinstance(body[0].value, ast.Call)
                and isinstance(body[0].value.func, ast.Name) and body[0].value.func.id == "dict" and not body[0].value.args):
            die("not return dict(...)")
        out = []
        for kw in body[0].value.keywords:
            v = kw.value
            if kw.arg is None or not (isinstance(v, ast.Attribute) and isinstance(v.value, ast.Name)):
                die("entry shape")
            out.append((kw.arg, v.attr))
        return t.args[1].id, out

    sf = soft(_source_form)
    if sf is not None and sf != (pulse_cls, ren):
        die(f"C13: export_primitive_params: the source says {sf}, the live function does {(pulse_cls, ren)}")

    # ---- primitive registry, live
    import hdl21.primitives as hp
    from hdl21.scalar import Scalar
    from hdl21.default import Default
    if getattr(hp, pulse_cls, None) is not pcls:
        die(f"C13: {pulse_cls} is not a member of hdl21.primitives")

    def kind(dt):
        if dt is Scalar:
            return 0
        if dt == typing.Optional[Scalar]:
            return 1
        if dt == typing.Optional[str]:
            return 2
        if isinstance(dt, type) and issubclass(dt, enum.Enum):
            if not all(isinstance(m.value, str) for m in dt):
                die(f"C13: enum {dt} has non-string values")
            return 3
        die(f"C13: parameter type {dt!r} of a primitive is not one of Scalar, Optional[Scalar], Optional[str], Enum")

    prims = []
    for key, ent in hp._primitives.items():
        prim = ent.prim
        pc = prim.paramtype
        flds = []
        import dataclasses
        names = [fl.name for fl in dataclasses.fields(pc)]
        if names != list(pc.__params__.keys()):
            die(f"C13: dataclass fields of {pc} differ from its Params")
        for nm, par in pc.__params__.items():
            k = kind(par.dtype)
            if par.default_factory is not Default:
                die(f"C13: default_factory on {pc}.{nm}")
            if par.default is Default:
                dflt = (0, 0, "")
            elif par.default is None:
                dflt = (1, 0, "")
            elif type(par.default) is int:
                dflt = (2, par.default, "")
            elif isinstance(par.default, enum.Enum) and isinstance(par.default.value, str):
                dflt = (3, 0, par.default.value)
            else:
                die(f"C13: default {par.default!r} of {pc}.{nm} is not None, an int or an enum member")
            flds.append((nm, k, dflt))
        prims.append((prim.name, prim.primtype.name, pc.__name__, flds))
    if len(prims) < 10:
        die("C13: primitive registry unexpectedly small")
    pulse_fields = [nm for nm in getattr(hp, pulse_cls).__params__]
    if not set(a for _, a in ren) <= set(pulse_fields):
        die("C13: export_primitive_params reads an attribute the pulse parameter class does not have")

    # ---- vlsir.primitives documentation, live
    import vlsirtools.primitives as vp
    vl = [(x.name.name, [p.name for p in x.parameters]) for x in vp.package.ext_modules if x.name.domain == "vlsir.primitives"]
    if len(vl) < 8:
        die("C13: vlsirtools.primitives unexpectedly small")

    # ---- Unicode tables of the running CPython
    ws = [c for c in range(sys.maxunicode + 1) if chr(c).isspace()]
    zeros = []
    nd = 0
    for c in range(sys.maxunicode + 1):
        dv = unicodedata.decimal(chr(c), -1)
        if dv >= 0:
            nd += 1
        if dv == 0:
            if [unicodedata.decimal(chr(c + i), -1) for i in range(10)] != list(range(10)):
                die(f"C13: decimal digits after U+{c:04X} are not a contiguous block 0..9")
            zeros.append(c)
    if nd != 10 * len(zeros) or 48 not in zeros or 32 not in ws:
        die("C13: Unicode decimal digits are not exactly blocks of ten")

    def sl(xs):
        return "[" + "; ".join(cstr(x) for x in xs) + "]"

    out = "Definition c13_prim_map : list (string * string) :=\n  [" + ";\n   ".join(f"({cstr(k)}, {cstr(v)})" for k, v in pm) + "].\n"
    out += f"Definition c13_pulse_class : string := {cstr(pulse_cls)}.\n"
    out += "Definition c13_pulse_rename : list (string * string) :=\n  [" + "; ".join(f"({cstr(k)}, {cstr(a)})" for k, a in ren) + "].\n"
    out += ("Definition c13_prims : list (string * string * string * list (string * Z * (Z * Z * string))) :=\n  ["
            + ";\n   ".join(f"({cstr(n)}, {cstr(t)}, {cstr(pc)}, [" + "; ".join(
                f"({cstr(fn)}, {k}, ({d[0]}, {cz(d[1])}, {cstr(d[2])}))" for fn, k, d in flds) + "])" for n, t, pc, flds in prims) + "].\n")
    out += "Definition c13_vlsir_prims : list (string * list string) :=\n  [" + ";\n   ".join(f"({cstr(n)}, {sl(ps)})" for n, ps in vl) + "].\n"
    out += "Definition c13_ws : list Z :=\n  [" + "; ".join(str(c) for c in ws) + "].\n"
    out += "Definition c13_digit_zeros : list Z :=\n  [" + "; ".join(str(c) for c in zeros) + "].\n"
    emit("C13Tables", out)


_run()
