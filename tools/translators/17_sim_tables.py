"""C17Tables.v : the tables of hdl21/sim the model of property C17 refers to.

Read with `ast` from hdl21/sim/data.py and hdl21/sim/proto.py, cross-checked against the live objects:
  analysis_types      (class name, AnalysisType value) per member of the `Analysis` union, in union order;
                      the AnalysisType member is read from the `tp` property body, its value from the live enum
  control_union       member names of the `Control` union
  hdl_save_modes      members of data.SaveMode (name, value)
  vlsir_save_modes    member names of vlsir.spice.Save.SaveMode (live protobuf enum: no source in the tree)
  save_mode_exported  pairs (data.SaveMode member, vsp.Save.SaveMode member) of export_save's if/elif chain
  sim_protected_names the `protected_names` list literal of data.py:sim
  (the prefix of the names of unnamed analyses is a step of its own, 17a_sim_autoname.py -> C17Names.v: the MODEL depends on
   it, and must keep building when one of the tables below fails closed, so that the streams can still look for a failing input)
Each table is read off the BEHAVIOUR of the live code over its whole (finite) domain; the source form, where it is still
recognisable, gives the order and must agree (else the step fails closed).
"""
import ast, sys


def _path(n):
    """dotted name a.b.c -> ['a', 'b', 'c']"""
    out = []
    while isinstance(n, ast.Attribute):
        out.append(n.attr)
        n = n.value
    if not isinstance(n, ast.Name):
        return []
    out.append(n.id)
    return out[::-1]


def _union(tree, name, rel):
    for st in tree.body:
        if isinstance(st, ast.Assign) and len(st.targets) == 1 and isinstance(st.targets[0], ast.Name) \
                and st.targets[0].id == name:
            v = st.value
            if not (isinstance(v, ast.Subscript) and isinstance(v.value, ast.Name) and v.value.id == "Union"):
                die(f"{rel}:{name} is not a Union[...]")
            elts = v.slice.elts if isinstance(v.slice, ast.Tuple) else [v.slice]
            out = []
            for e in elts:
                if not isinstance(e, ast.Name):
                    die(f"{rel}:{name}: non-name member")
                out.append(e.id)
            return out
    die(f"{rel}:{name} not found")


dtree = src("hdl21/sim/data.py")
ptree = src("hdl21/sim/proto.py")
import hdl21
_d = sys.modules["hdl21.sim.data"]
_p = sys.modules["hdl21.sim.proto"]
import vlsir.spice_pb2 as _vsp

# ---- the Analysis union and each member's AnalysisType: the live Union and the live `tp` of each member; the source
#      (`Analysis = Union[...]`, `return AnalysisType.X`) must agree where it still has that form
an_union = [c.__name__ for c in _d.Analysis.__args__]
sa = soft(_union, dtree, "Analysis", "data.py")
if sa is not None and sa != an_union:
    die("Analysis union: ast reading differs from the live Union")
an_types = []
for cname in an_union:
    live = getattr(_d, cname).tp.fget(None)
    if not isinstance(live, _d.AnalysisType) or not isinstance(live.value, str):
        die(f"{cname}.tp is not an AnalysisType member with a string value")

    def _member():
        cls = find_class(dtree, cname)
        tp = [n for n in cls.body if isinstance(n, ast.FunctionDef) and n.name == "tp"]
        body = [n for n in tp[0].body if not isinstance(n, ast.Expr)] if len(tp) == 1 else []
        if not (len(body) == 1 and isinstance(body[0], ast.Return) and _path(body[0].value)[:-1] == ["AnalysisType"]):
            die("shape")
        return body[0].value.attr
    member = soft(_member)
    if member is not None and member != live.name:
        die(f"{cname}.tp: the source returns AnalysisType.{member}, the live property {live}")
    an_types.append((cname, live.value))
if len({v for _, v in an_types}) != len(an_types):
    die("AnalysisType values of the Analysis members are not distinct")

ctrl_union = [c.__name__ for c in _d.Control.__args__]
sa = soft(_union, dtree, "Control", "data.py")
if sa is not None and sa != ctrl_union:
    die("Control union: ast reading differs from the live Union")

# ---- SaveMode of hdl21 and of vlsir (live enums; the literal class body must agree when every member is a string literal)
hdl_modes = [(m.name, m.value) for m in _d.SaveMode]
if not hdl_modes or not all(isinstance(v, str) for _, v in hdl_modes):
    die("SaveMode: members are not strings")


def _savemode_source():
    out = []
    for st in find_class(dtree, "SaveMode").body:
        if isinstance(st, ast.Assign):
            if not (len(st.targets) == 1 and isinstance(st.targets[0], ast.Name) and isinstance(st.value, ast.Constant)
                    and isinstance(st.value.value, str)):
                die("shape")
            out.append((st.targets[0].id, st.value.value))
    return out or None


sa = soft(_savemode_source)
if sa is not None and sa != hdl_modes:
    die("SaveMode: ast reading differs from the live enum")
vlsir_modes = [k for k, _ in sorted(_vsp.Save.SaveMode.items(), key=lambda kv: kv[1])]
if not vlsir_modes:
    die("vlsir Save.SaveMode has no members")

# ---- export_save: which SaveMode members are translated, and to what.  BEHAVIOUR: export_save on a Save of every member
#      (a refusal = not translated).  SOURCE: the if/elif chain `if save.targ == data.SaveMode.X: mode = vsp.Save.SaveMode.Y`
#      or a literal table {data.SaveMode.X: vsp.Save.SaveMode.Y} (order; must agree).
if not callable(getattr(_p, "export_save", None)):
    die("proto.py has no export_save to probe")
sm_b = []
for m in _d.SaveMode:
    try:
        got = _p.export_save(_d.Save(targ=m))
    except Exception:
        continue
    if [f.name for f, _ in got.ListFields()] != ["mode"]:
        die(f"export_save(Save({m})) does not set exactly the mode")
    sm_b.append((m.name, _vsp.Save.SaveMode.Name(got.mode)))


def _chain():
    pairs = []
    for n in ast.walk(find_func(ptree, "export_save")):
        if isinstance(n, ast.If) and isinstance(n.test, ast.Compare) and len(n.test.ops) == 1 \
                and isinstance(n.test.ops[0], ast.Eq) and _path(n.test.comparators[0])[:-1] == ["data", "SaveMode"]:
            if not (len(n.body) == 1 and isinstance(n.body[0], ast.Assign) and isinstance(n.body[0].targets[0], ast.Name)):
                die("shape")
            rhs = _path(n.body[0].value)
            if rhs[:-1] != ["vsp", "Save", "SaveMode"]:
                die("shape")
            pairs.append((_path(n.test.comparators[0])[-1], rhs[-1]))
    return pairs or None


_hk = lambda n: _path(n)[-1] if _path(n)[-2:-1] == ["SaveMode"] and "vsp" not in _path(n) else None
_vk = lambda n: _path(n)[-1] if _path(n)[-2:-1] == ["SaveMode"] and "vsp" in _path(n) else None
cands = literal_tables(ptree, _hk, _vk) + if_chain_tables(ptree, _hk, _vk)
sa = soft(_chain)
if sa is not None:
    cands.append(sa)
pairs = reconcile("export_save", sm_b, cands)
for a, b in pairs:
    if a not in dict(hdl_modes) or b not in vlsir_modes:
        die(f"export_save: unknown SaveMode member in {a}->{b}")

# ---- protected names of class-style definitions.  BEHAVIOUR: which names a class body handed to the live @sim decorator may
#      not bind, probed over the public attributes of a Sim, the names the model knew, and the literal `protected_names` of the
#      source when it is there (which then gives the order, and must be refused name by name)
pn_src = None
for n in (ast.walk(soft(find_func, dtree, "sim") or ast.Module(body=[], type_ignores=[]))):
    if isinstance(n, ast.Assign) and isinstance(n.targets[0], ast.Name) and n.targets[0].id == "protected_names":
        if isinstance(n.value, (ast.List, ast.Tuple, ast.Set)) and all(isinstance(e, ast.Constant) and isinstance(e.value, str) for e in n.value.elts):
            pn_src = [e.value for e in n.value.elts]
_tb = hdl21.Module(name="TrxSimTb")
_tb.add(hdl21.Port(name="VSS"))
_probe0 = _d.Sim(tb=_tb)


def _refused(name):
    body = {"tb": _tb}
    body[name] = {"name": "x", "tb": _tb, "Tb": _tb}.get(name, 5)
    try:
        _d.sim(type("TrxProbeSim", (), body))
        return False
    except Exception:
        return True


if _refused("trx_not_a_reserved_name"):
    die("data.py:sim refuses a class body that binds an ordinary name: cannot probe the protected names")
_cands = list(dict.fromkeys((pn_src or []) + ["attrs", "add", "run", "namespace"] + sorted(n for n in dir(_probe0) if not n.startswith("_"))))
_probed = [n for n in _cands if _refused(n)]
if pn_src is not None:
    if set(pn_src) != set(_probed):
        die(f"data.py:sim: protected_names {pn_src} of the source, but the live decorator refuses {_probed}")
    pn = pn_src
else:
    pn = _probed
if not pn:
    die("data.py:sim: no protected name found")

def _ok(s):
    if not all(32 <= ord(ch) < 127 for ch in s):
        die(f"non-ASCII table entry {s!r}")
    return cstr(s)


def _pairs(name, xs):
    return f"Definition {name} : list (string * string) :=\n  [" + "; ".join(f"({_ok(a)}, {_ok(b)})" for a, b in xs) + "].\n"


def _lst(name, xs):
    return f"Definition {name} : list string :=\n  [" + "; ".join(_ok(x) for x in xs) + "].\n"


emit("C17Tables", _pairs("analysis_types", an_types) + _lst("control_union", ctrl_union)
     + _pairs("hdl_save_modes", hdl_modes) + _lst("vlsir_save_modes", vlsir_modes)
     + _pairs("save_mode_exported", pairs) + _lst("sim_protected_names", pn))
