"""C17Tables.v : the tables of hdl21/sim the model of property C17 refers to.

Read with `ast` from hdl21/sim/data.py and hdl21/sim/proto.py, cross-checked against the live objects:
  analysis_types      (class name, AnalysisType value) per member of the `Analysis` union, in union order;
                      the AnalysisType member is read from the `tp` property body, its value from the live enum
  control_union       member names of the `Control` union
  hdl_save_modes      members of data.SaveMode (name, value)
  vlsir_save_modes    member names of vlsir.spice.Save.SaveMode (live protobuf enum: no source in the tree)
  save_mode_exported  pairs (data.SaveMode member, vsp.Save.SaveMode member) of export_save's if/elif chain
  sim_protected_names the `protected_names` list literal of data.py:sim
"""
import ast, sys


def _path(n):
    """dotted name a.b.c -> ['a', 'b', 'c']"""
    out = []
    while isinstance(n, ast.Attribute):
        out.append(n.attr)
        n = n.value
    if not isinstance(n, ast.Name):
        return []
    out.append(n.id)
    return out[::-1]


def _union(tree, name, rel):
    for st in tree.body:
        if isinstance(st, ast.Assign) and len(st.targets) == 1 and isinstance(st.targets[0], ast.Name) \
                and st.targets[0].id == name:
            v = st.value
            if not (isinstance(v, ast.Subscript) and isinstance(v.value, ast.Name) and v.value.id == "Union"):
                die(f"{rel}:{name} is not a Union[...]")
            elts = v.slice.elts if isinstance(v.slice, ast.Tuple) else [v.slice]
            out = []
            for e in elts:
                if not isinstance(e, ast.Name):
                    die(f"{rel}:{name}: non-name member")
                out.append(e.id)
            return out
    die(f"{rel}:{name} not found")


dtree = src("hdl21/sim/data.py")
ptree = src("hdl21/sim/proto.py")
import hdl21
_d = sys.modules["hdl21.sim.data"]
import vlsir.spice_pb2 as _vsp

# ---- the Analysis union and each member's AnalysisType
an_union = _union(dtree, "Analysis", "data.py")
if [c.__name__ for c in _d.Analysis.__args__] != an_union:
    die("Analysis union: ast reading differs from the live Union")
an_types = []
for cname in an_union:
    cls = find_class(dtree, cname)
    tp = [n for n in cls.body if isinstance(n, ast.FunctionDef) and n.name == "tp"]
    if len(tp) != 1:
        die(f"{cname}.tp: expected exactly one definition")
    body = [n for n in tp[0].body if not isinstance(n, ast.Expr)]
    if not (len(body) == 1 and isinstance(body[0], ast.Return) and isinstance(body[0].value, ast.Attribute)
            and isinstance(body[0].value.value, ast.Name) and body[0].value.value.id == "AnalysisType"):
        die(f"{cname}.tp does not return an AnalysisType member")
    member = body[0].value.attr
    value = getattr(_d.AnalysisType, member).value
    live = getattr(_d, cname).tp.fget(None).value
    if live != value or not isinstance(value, str):
        die(f"{cname}.tp: live value {live!r} differs from {value!r}")
    an_types.append((cname, value))
if len({v for _, v in an_types}) != len(an_types):
    die("AnalysisType values of the Analysis members are not distinct")

ctrl_union = _union(dtree, "Control", "data.py")
if [c.__name__ for c in _d.Control.__args__] != ctrl_union:
    die("Control union: ast reading differs from the live Union")

# ---- SaveMode of hdl21 and of vlsir
sm = find_class(dtree, "SaveMode")
hdl_modes = []
for st in sm.body:
    if isinstance(st, ast.Assign):
        if not (len(st.targets) == 1 and isinstance(st.targets[0], ast.Name) and isinstance(st.value, ast.Constant)
                and isinstance(st.value.value, str)):
            die("SaveMode: unexpected member shape")
        hdl_modes.append((st.targets[0].id, st.value.value))
if [(m.name, m.value) for m in _d.SaveMode] != hdl_modes or not hdl_modes:
    die("SaveMode: ast reading differs from the live enum")
vlsir_modes = [k for k, _ in sorted(_vsp.Save.SaveMode.items(), key=lambda kv: kv[1])]
if not vlsir_modes:
    die("vlsir Save.SaveMode has no members")

# ---- export_save: which SaveMode members are translated, and to what
fn = find_func(ptree, "export_save")
pairs = []
for n in ast.walk(fn):
    if isinstance(n, ast.If) and isinstance(n.test, ast.Compare) and len(n.test.ops) == 1 \
            and isinstance(n.test.ops[0], ast.Eq) and _path(n.test.comparators[0])[:-1] == ["data", "SaveMode"]:
        left = _path(n.test.left)
        if left != ["save", "targ"]:
            die(f"export_save: comparison of {left}")
        if not (len(n.body) == 1 and isinstance(n.body[0], ast.Assign) and isinstance(n.body[0].targets[0], ast.Name)
                and n.body[0].targets[0].id == "mode"):
            die("export_save: unexpected branch body")
        rhs = _path(n.body[0].value)
        if rhs[:-1] != ["vsp", "Save", "SaveMode"]:
            die(f"export_save: unexpected mode value {rhs}")
        pairs.append((_path(n.test.comparators[0])[-1], rhs[-1]))
if not pairs:
    die("export_save: no SaveMode branch found")
for a, b in pairs:
    if a not in dict(hdl_modes) or b not in vlsir_modes:
        die(f"export_save: unknown SaveMode member in {a}->{b}")

# ---- protected names of class-style definitions
pn = None
for n in ast.walk(find_func(dtree, "sim")):
    if isinstance(n, ast.Assign) and isinstance(n.targets[0], ast.Name) and n.targets[0].id == "protected_names":
        if not (isinstance(n.value, ast.List) and all(isinstance(e, ast.Constant) and isinstance(e.value, str) for e in n.value.elts)):
            die("data.py:sim: protected_names is not a list of strings")
        pn = [e.value for e in n.value.elts]
if pn is None:
    die("data.py:sim: protected_names not found")


def _ok(s):
    if not all(32 <= ord(ch) < 127 for ch in s):
        die(f"non-ASCII table entry {s!r}")
    return cstr(s)


def _pairs(name, xs):
    return f"Definition {name} : list (string * string) :=\n  [" + "; ".join(f"({_ok(a)}, {_ok(b)})" for a, b in xs) + "].\n"


def _lst(name, xs):
    return f"Definition {name} : list string :=\n  [" + "; ".join(_ok(x) for x in xs) + "].\n"


emit("C17Tables", _pairs("analysis_types", an_types) + _lst("control_union", ctrl_union)
     + _pairs("hdl_save_modes", hdl_modes) + _lst("vlsir_save_modes", vlsir_modes)
     + _pairs("save_mode_exported", pairs) + _lst("sim_protected_names", pn))
