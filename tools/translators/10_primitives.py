# Primitives.v : the primitive library (import-and-dump of names, types, ordered port names and widths)
# and the two ideal-primitive name maps (ast of the dict literals in exporting.py / importing.py).
import ast


def _run():
    import hdl21.primitives as hp
    entries = []
    seen = set()
    for key, ent in hp._primitives.items():
        prim = ent.prim
        if prim.name in seen:
            continue
        seen.add(prim.name)
        ports = [(p.name, p.width) for p in prim.port_list]
        entries.append((prim.name, prim.primtype.name, ports))
    if len(entries) < 10:
        die("primitive registry unexpectedly small")

    def str_dict(tree, fname):
        d = dict_in_func(tree, fname, "prim_map")
        out = []
        for k, v in zip(d.keys, d.values):
            if not (isinstance(k, ast.Constant) and isinstance(v, ast.Constant) and isinstance(k.value, str) and isinstance(v.value, str)):
                die(f"{fname}: prim_map is not a dict of string constants")
            out.append((k.value, v.value))
        if len(set(k for k, _ in out)) != len(out):
            die(f"{fname}: duplicate keys in prim_map")
        return out

    exp = str_dict(src("hdl21/proto/exporting.py"), "export_instance")
    imp = str_dict(src("hdl21/proto/importing.py"), "import_vlsir_primitive")
    body = "Definition primitives : list (string * string * list (string * Z)) :=\n  [" + ";\n   ".join(
        f"({cstr(n)}, {cstr(t)}, [" + "; ".join(f"({cstr(p)}, {cz(w)})" for p, w in ps) + "])" for n, t, ps in entries) + "].\n"
    body += "Definition prim_map_export : list (string * string) :=\n  [" + ";\n   ".join(f"({cstr(k)}, {cstr(v)})" for k, v in exp) + "].\n"
    body += "Definition prim_map_import : list (string * string) :=\n  [" + ";\n   ".join(f"({cstr(k)}, {cstr(v)})" for k, v in imp) + "].\n"
    emit("Primitives", body)


_run()
