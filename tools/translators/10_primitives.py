# Primitives.v : the primitive library (import-and-dump of names, types, ordered port names and widths)
# and the two ideal-primitive name maps (behaviour of exporting.py / importing.py on every primitive / element; the
# literal tables of the source, wherever they stand, give the order and must agree).
import ast


def _run():
    import hdl21.primitives as hp
    entries = []
    seen = set()
    for key, ent in hp._primitives.items():
        prim = ent.prim
        if prim.name in seen:
            continue
        seen.add(prim.name)
        ports = [(p.name, p.width) for p in prim.port_list]
        entries.append((prim.name, prim.primtype.name, ports))
    if len(entries) < 10:
        die("primitive registry unexpectedly small")

    # the two name maps: behaviour of the exporter / importer on every key, ordered by the literal tables of the source when
    # those are recognisable (translate_tables.py: prim_export_reading / prim_import_reading)
    exp = prim_export_reading()
    imp = prim_import_reading()
    body = "Definition primitives : list (string * string * list (string * Z)) :=\n  [" + ";\n   ".join(
        f"({cstr(n)}, {cstr(t)}, [" + "; ".join(f"({cstr(p)}, {cz(w)})" for p, w in ps) + "])" for n, t, ps in entries) + "].\n"
    body += "Definition prim_map_export : list (string * string) :=\n  [" + ";\n   ".join(f"({cstr(k)}, {cstr(v)})" for k, v in exp) + "].\n"
    body += "Definition prim_map_import : list (string * string) :=\n  [" + ";\n   ".join(f"({cstr(k)}, {cstr(v)})" for k, v in imp) + "].\n"
    emit("Primitives", body)


_run()
