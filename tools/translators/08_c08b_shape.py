"""C08 (strengthening round 2): two facts the models Model/C08Elaborator.v (`fresh = true`) and Model/C08PassFail.v (the error
path is no state: it is not in `pst`) stand for, read from the SOURCE and cross-checked with the live objects.
  c08_default_fresh        Elaborator.default carries no decorator but `staticmethod`, its body returns `Elaborator(passes=[...])`
                           with a list literal; reset_elaborator assigns `Elaborator.default()`; live: two calls return two
                           objects with two lists of equal content, and editing one leaves the other alone
  c08_stack_per_instance   ElabPass.__init__ binds `self.stack` to a NEW empty list, nothing else assigns `self.stack`, and
                           ClassLevelCache declares no field but `done` and `pending`
Run by tools/translate_tables.py (globals: repo, outdir, emit, die, src, find_class, find_func, ...)."""
import ast as _ast


def _c08b():
    elab = src("hdl21/elab/elab.py")
    cls = find_class(elab, "Elaborator")
    f = find_func(elab, "default", cls="Elaborator")
    decs = [d.id if isinstance(d, _ast.Name) else "?" for d in f.decorator_list]
    rets = [n for n in _ast.walk(f) if isinstance(n, _ast.Return)]
    shape = (decs == ["staticmethod"] and len(rets) == 1 and isinstance(rets[0].value, _ast.Call)
             and isinstance(rets[0].value.func, _ast.Name) and rets[0].value.func.id == "Elaborator"
             and any(k.arg == "passes" and isinstance(k.value, _ast.List) for k in rets[0].value.keywords))
    rs = find_func(elab, "reset_elaborator")
    resets = any(isinstance(n, _ast.Assign) and isinstance(n.targets[0], _ast.Name) and n.targets[0].id == "the_global_elaborator"
                 and isinstance(n.value, _ast.Call) and isinstance(n.value.func, _ast.Attribute) and n.value.func.attr == "default"
                 and isinstance(n.value.func.value, _ast.Name) and n.value.func.value.id == "Elaborator" for n in _ast.walk(rs))
    from hdl21.elab.elab import Elaborator
    a, b = Elaborator.default(), Elaborator.default()
    live = a is not b and a.passes is not b.passes and a.passes == b.passes
    if live:
        n = len(b.passes)
        a.passes.insert(0, a.passes[-1])
        live = len(b.passes) == n and len(Elaborator.default().passes) == n
    if shape and resets and not live:
        die("Elaborator.default: the source builds a new Elaborator per call, the live function does not")

    base = src("hdl21/elab/passes/base.py")
    init = find_func(base, "__init__", cls="ElabPass")
    binds = [n for n in _ast.walk(find_class(base, "ElabPass")) if isinstance(n, (_ast.Assign, _ast.AnnAssign))
             and isinstance((n.targets[0] if isinstance(n, _ast.Assign) else n.target), _ast.Attribute)
             and (n.targets[0] if isinstance(n, _ast.Assign) else n.target).attr == "stack"]
    fresh_list = lambda v: (isinstance(v, _ast.List) and not v.elts) or (
        isinstance(v, _ast.Call) and isinstance(v.func, _ast.Name) and v.func.id == "list" and not v.args and not v.keywords)
    in_init = [n for n in _ast.walk(init) if n in binds]
    clc = find_class(base, "ClassLevelCache")
    fields = [st.target.id for st in clc.body if isinstance(st, _ast.AnnAssign) and isinstance(st.target, _ast.Name)] + \
             [t.id for st in clc.body if isinstance(st, _ast.Assign) for t in st.targets if isinstance(t, _ast.Name)]
    stack_ok = len(binds) == 1 and len(in_init) == 1 and fresh_list(binds[0].value) and sorted(fields) == ["done", "pending"]
    b = lambda x: "true" if x else "false"
    emit("C08Shape", f"Definition c08_default_fresh : bool := {b(shape and resets and live)}.\n"
                     f"Definition c08_stack_per_instance : bool := {b(stack_ok)}.\n")


_c08b()
