"""C05 table: every call of ElabPass.flatname in hdl21/elab/passes/*.py (file, enclosing function, source text of its
`avoid` argument) and every function of the passes that inserts into a Module (`module.add(...)`).
Fail closed when a naming site appears that the model (coq/theories/Model/C05Naming.v) does not know, when a known site
disappears, or when a pass inserts into a Module without going through flatname.
Run by tools/translate_tables.py (globals: repo, outdir, emit, die, src, cz, cstr, find_class, find_func)."""
import ast as _ast, os as _os


def _avoid_text(f, node):
    """source text of the `avoid` argument, up to spelling: a local name bound exactly once in the function stands for the
    expression it is bound to (one hop), and `<p>.namespace` with <p> a parameter of the function annotated `Module` (or
    named `module`) is written `module.namespace`, whatever the parameter is called"""
    if isinstance(node, _ast.Name):
        binds = [n for n in _ast.walk(f) if isinstance(n, (_ast.Assign, _ast.AnnAssign)) and n.value is not None and any(
            isinstance(t, _ast.Name) and t.id == node.id for t in (n.targets if isinstance(n, _ast.Assign) else [n.target]))]
        params = [a.arg for a in f.args.args + f.args.kwonlyargs + f.args.posonlyargs]
        if len(binds) == 1 and node.id not in params:
            node = binds[0].value
    if isinstance(node, _ast.Attribute) and node.attr == "namespace" and isinstance(node.value, _ast.Name):
        for a in f.args.args + f.args.kwonlyargs + f.args.posonlyargs:
            if a.arg == node.value.id and (a.arg == "module" or (a.annotation is not None and _ast.unparse(a.annotation) in ("Module", "h.Module"))):
                return "module.namespace"
    return _ast.unparse(node)


def _c05_sites():
    known = {("portrefs", "create_source"): "ResolvePortRefs", ("portrefs", "replace_noconn"): "ResolvePortRefs",
             ("portrefs", "noconn_array_bundle"): "ResolvePortRefs",
             ("flatten_bundles", "replace_bundle_inst"): "BundleFlattener", ("arrays", "elaborate_module"): "ArrayFlattener",
             ("inst_bundles", "elaborate_instance_bundle"): "InstBundleElabPass"}
    pdir = _os.path.join(repo, "hdl21/elab/passes")
    calls, adders = [], set()
    for fn in sorted(_os.listdir(pdir)):
        if not fn.endswith(".py") or fn in ("__init__.py", "base.py"):
            continue
        stem = fn[:-3]
        tree = src("hdl21/elab/passes/" + fn)
        for f in _ast.walk(tree):
            if not isinstance(f, _ast.FunctionDef):
                continue
            for n in _ast.walk(f):
                if not (isinstance(n, _ast.Call) and isinstance(n.func, _ast.Attribute)):
                    continue
                if n.func.attr == "flatname":
                    kws = {k.arg: k.value for k in n.keywords}
                    if len(n.args) > 1:
                        die(f"{fn}:{f.name}: flatname called with positional arguments beyond `segments`")
                    calls.append((stem, f.name, _avoid_text(f, kws["avoid"]) if "avoid" in kws else ""))
                if n.func.attr == "add" and isinstance(n.func.value, _ast.Name) and n.func.value.id == "module":
                    adders.add((stem, f.name))
    # A naming site is identified by the PASS (file): helpers may be extracted or renamed inside a pass without changing
    # which pass invents the name.  Fail closed when another file starts calling flatname, when a pass of the model stops
    # calling it, or when a file outside the model inserts into a Module.
    files = sorted(set(a for a, _, _ in calls))
    known_files = sorted(set(a for a, _ in known))
    for f in files:
        if f not in known_files:
            die(f"C05: flatname is called from {f}.py, a pass the naming model does not cover")
    for f in known_files:
        if f not in files:
            die(f"C05: the pass {f}.py no longer calls flatname")
    for s in sorted(adders):
        if s[0] not in known_files:
            die(f"C05: {s[0]}.py:{s[1]} inserts into a Module but is not a pass of the naming model")
    # cross-check against the live classes: each pass of the model still is an ElabPass with a flatname method
    import importlib
    for cls in sorted(set(known.values())):
        stem = [a for (a, _), c in known.items() if c == cls][0]
        mod = importlib.import_module("hdl21.elab.passes." + stem)
        if not callable(getattr(getattr(mod, cls, None), "flatname", None)):
            die(f"C05: live class {cls} of hdl21.elab.passes.{stem} has no flatname")
    body = ("Definition c05_flatname_calls : list (string * string * string) :=\n  [" +
            ";\n   ".join(f"({cstr(a)}, {cstr(b)}, {cstr(c)})" for a, b, c in calls) + "].\n")
    emit("C05Sites", body)


_c05_sites()
