"""C05 table: every call of ElabPass.flatname in hdl21/elab/passes/*.py (file, enclosing function, source text of its
`avoid` argument) and every function of the passes that inserts into a Module (`module.add(...)`).
Fail closed when a naming site appears that the model (coq/theories/Model/C05Naming.v) does not know, when a known site
disappears, or when a pass inserts into a Module without going through flatname.
Run by tools/translate_tables.py (globals: repo, outdir, emit, die, src, cz, cstr, find_class, find_func)."""
import ast as _ast, os as _os


def _c05_sites():
    known = {("portrefs", "create_source"): "ResolvePortRefs", ("portrefs", "replace_noconn"): "ResolvePortRefs",
             ("portrefs", "noconn_array_bundle"): "ResolvePortRefs",
             ("flatten_bundles", "replace_bundle_inst"): "BundleFlattener", ("arrays", "elaborate_module"): "ArrayFlattener",
             ("inst_bundles", "elaborate_instance_bundle"): "InstBundleElabPass"}
    pdir = _os.path.join(repo, "hdl21/elab/passes")
    calls, adders = [], set()
    for fn in sorted(_os.listdir(pdir)):
        if not fn.endswith(".py") or fn in ("__init__.py", "base.py"):
            continue
        stem = fn[:-3]
        tree = src("hdl21/elab/passes/" + fn)
        for f in _ast.walk(tree):
            if not isinstance(f, _ast.FunctionDef):
                continue
            for n in _ast.walk(f):
                if not (isinstance(n, _ast.Call) and isinstance(n.func, _ast.Attribute)):
                    continue
                if n.func.attr == "flatname":
                    kws = {k.arg: k.value for k in n.keywords}
                    if len(n.args) > 1:
                        die(f"{fn}:{f.name}: flatname called with positional arguments beyond `segments`")
                    calls.append((stem, f.name, _ast.unparse(kws["avoid"]) if "avoid" in kws else ""))
                if n.func.attr == "add" and isinstance(n.func.value, _ast.Name) and n.func.value.id == "module":
                    adders.add((stem, f.name))
    sites = sorted(set((a, b) for a, b, _ in calls))
    for s in sites:
        if s not in known:
            die(f"C05: flatname is called from {s[0]}.py:{s[1]}, a naming site the model does not cover")
    for s in known:
        if s not in sites:
            die(f"C05: the naming site {s[0]}.py:{s[1]} no longer calls flatname")
    for s in sorted(adders):
        if s not in known:
            die(f"C05: {s[0]}.py:{s[1]} inserts into a Module but is not a naming site of the model")
    # cross-check against the live classes
    import importlib
    for (stem, fname), cls in known.items():
        mod = importlib.import_module("hdl21.elab.passes." + stem)
        if not callable(getattr(getattr(mod, cls, None), fname, None)):
            die(f"C05: live class {cls} of hdl21.elab.passes.{stem} has no method {fname}")
    body = ("Definition c05_flatname_calls : list (string * string * string) :=\n  [" +
            ";\n   ".join(f"({cstr(a)}, {cstr(b)}, {cstr(c)})" for a, b, c in calls) + "].\n")
    emit("C05Sites", body)


_c05_sites()
