"""C10 tables: the default name-length limit of ElabPass.flatname and the members of PortDir (hdl21/signal.py).
Run by tools/translate_tables.py (globals: repo, outdir, emit, die, src, cz, cstr, find_class, find_func, const_int)."""
import ast as _ast


def _c10_tables():
    tree = src("hdl21/elab/passes/base.py")
    fn = find_func(tree, "flatname", cls="ElabPass")
    # the default of the live signature is what is emitted; the default of the source (a literal, or the name of a module-level
    # constant) must agree when it can be read
    import inspect
    from hdl21.elab.passes.base import ElabPass
    par = inspect.signature(ElabPass.flatname).parameters.get("maxlen")
    if par is None or par.kind is not inspect.Parameter.KEYWORD_ONLY:
        die("ElabPass.flatname has no keyword-only argument maxlen")
    if type(par.default) is not int:
        die("ElabPass.flatname: maxlen has no integer default")
    maxlen = par.default
    if maxlen < 1:
        die(f"ElabPass.flatname: implausible maxlen {maxlen}")
    kw = [a.arg for a in fn.args.kwonlyargs]
    if "maxlen" in kw and fn.args.kw_defaults[kw.index("maxlen")] is not None:
        lit = soft(const_int, resolve_const(tree, fn.args.kw_defaults[kw.index("maxlen")]))
        if lit is not None and lit != maxlen:
            die(f"flatname maxlen: source says {lit}, live object says {maxlen}")
    # the separator and the collision suffix: BEHAVIOUR of the live method (two segments; the same with the plain name taken,
    # and with that one taken as well); the literals of the function body must agree when they can be read
    p = ElabPass(tops=[])
    got = [p.flatname(["ab", "cd"]), p.flatname(["ab", "cd"], avoid={"ab_cd": 1}), p.flatname(["ab", "cd"], avoid={"ab_cd": 1, "ab_cd_": 1}),
           p.flatname(["ab"]), p.flatname(["ab", "cd", "ef"])]
    if got != ["ab_cd", "ab_cd_", "ab_cd__", "ab", "ab_cd_ef"]:
        die(f"ElabPass.flatname: expected separator '_' and collision suffix '_', the live method gives {got}")
    seps = [n.func.value.value for n in _ast.walk(fn) if isinstance(n, _ast.Call) and isinstance(n.func, _ast.Attribute)
            and n.func.attr == "join" and isinstance(n.func.value, _ast.Constant)]
    sufs = [n.value.value for n in _ast.walk(fn) if isinstance(n, _ast.AugAssign) and isinstance(n.op, _ast.Add)
            and isinstance(n.value, _ast.Constant)]
    if (seps and seps != ["_"]) or (sufs and sufs != ["_"]):
        die(f"ElabPass.flatname: expected separator '_' and collision suffix '_', found {seps} / {sufs}")
    # PortDir members, in order: the live enum; the class body of the source must agree where its members are string literals
    from hdl21.signal import PortDir
    members = [m.name for m in PortDir]
    if members != ["INPUT", "OUTPUT", "INOUT", "NONE"]:
        die(f"PortDir members changed: {members}")
    cls = soft(find_class, src("hdl21/signal.py"), "PortDir")
    lit = [st.targets[0].id for st in (cls.body if cls is not None else [])
           if isinstance(st, _ast.Assign) and len(st.targets) == 1 and isinstance(st.targets[0], _ast.Name)
           and isinstance(st.value, _ast.Constant) and isinstance(st.value.value, str)]
    if lit and [m for m in lit if m in members] != [m for m in members if m in lit]:
        die("PortDir: live members differ from the source")
    body = (f"Definition flatname_maxlen : Z := {cz(maxlen)}.\n"
            f"Definition flatname_sep : string := {cstr('_')}.\n"
            "Definition portdir_members : list string := [" + "; ".join(cstr(m) for m in members) + "].\n")
    emit("C10Tables", body)


_c10_tables()
