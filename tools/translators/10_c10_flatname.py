"""C10 tables: the default name-length limit of ElabPass.flatname and the members of PortDir (hdl21/signal.py).
Run by tools/translate_tables.py (globals: repo, outdir, emit, die, src, cz, cstr, find_class, find_func, const_int)."""
import ast as _ast


def _c10_tables():
    tree = src("hdl21/elab/passes/base.py")
    fn = find_func(tree, "flatname", cls="ElabPass")
    kw = [a.arg for a in fn.args.kwonlyargs]
    if "maxlen" not in kw:
        die("ElabPass.flatname has no keyword-only argument maxlen")
    default = fn.args.kw_defaults[kw.index("maxlen")]
    if default is None:
        die("ElabPass.flatname: maxlen has no default")
    maxlen = const_int(default)
    if maxlen < 1:
        die(f"ElabPass.flatname: implausible maxlen {maxlen}")
    # the separator and the collision suffix are literals of the function body
    seps = [n.func.value.value for n in _ast.walk(fn) if isinstance(n, _ast.Call) and isinstance(n.func, _ast.Attribute)
            and n.func.attr == "join" and isinstance(n.func.value, _ast.Constant)]
    sufs = [n.value.value for n in _ast.walk(fn) if isinstance(n, _ast.AugAssign) and isinstance(n.op, _ast.Add)
            and isinstance(n.value, _ast.Constant)]
    if seps != ["_"] or sufs != ["_"]:
        die(f"ElabPass.flatname: expected separator '_' and collision suffix '_', found {seps} / {sufs}")
    # PortDir members, in order
    cls = find_class(src("hdl21/signal.py"), "PortDir")
    members = []
    for st in cls.body:
        if isinstance(st, _ast.Assign) and len(st.targets) == 1 and isinstance(st.targets[0], _ast.Name):
            if not (isinstance(st.value, _ast.Constant) and isinstance(st.value.value, str)):
                die(f"PortDir.{st.targets[0].id}: expected a string literal")
            members.append(st.targets[0].id)
    if members != ["INPUT", "OUTPUT", "INOUT", "NONE"]:
        die(f"PortDir members changed: {members}")
    # cross-check against the live objects
    import inspect
    from hdl21.elab.passes.base import ElabPass
    from hdl21.signal import PortDir
    live = inspect.signature(ElabPass.flatname).parameters["maxlen"].default
    if live != maxlen:
        die(f"flatname maxlen: source says {maxlen}, live object says {live}")
    if [m.name for m in PortDir] != members:
        die("PortDir: live members differ from the source")
    body = (f"Definition flatname_maxlen : Z := {cz(maxlen)}.\n"
            f"Definition flatname_sep : string := {cstr('_')}.\n"
            "Definition portdir_members : list string := [" + "; ".join(cstr(m) for m in members) + "].\n")
    emit("C10Tables", body)


_c10_tables()
