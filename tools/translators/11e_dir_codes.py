"""C11E tables: the numeric codes of vlsir.circuit.Port.Direction (Base/Package.v keeps port directions as the integer the
message holds; Model/C11RoundTrip.v keeps the member NAME).  Read from the live protobuf enum descriptor and cross-checked
against the names hdl21/proto/exporting.py:export_port_dir mentions.
Run by tools/translate_tables.py (globals: repo, outdir, emit, die, src, cz, cstr, find_class, find_func, const_int)."""
import ast as _ast


def _c11e_dir_codes():
    import vlsir.circuit_pb2 as vckt
    desc = vckt.Port.Direction.DESCRIPTOR
    codes = sorted((v.number, v.name) for v in desc.values)
    if not codes or len({c for c, _ in codes}) != len(codes) or len({n for _, n in codes}) != len(codes):
        die(f"Port.Direction: unexpected enum {codes}")
    # every vlsir direction the exporter writes must be a member
    fn = find_func(src("hdl21/proto/exporting.py"), "export_port_dir")
    written = set()
    for n in _ast.walk(fn):
        if isinstance(n, _ast.Attribute) and isinstance(n.value, _ast.Attribute) and n.value.attr == "Direction":
            written.add(n.attr)
    names = {n for _, n in codes}
    if not written or not written <= names:
        die(f"export_port_dir writes {sorted(written)}, Port.Direction has {sorted(names)}")
    body = ("Definition direction_codes : list (Z * string) :=  (* vlsir.circuit.Port.Direction: number, name *)\n  ["
            + "; ".join(f"({cz(c)}, {cstr(n)})" for c, n in codes) + "].\n")
    emit("C11EMaps", body)


_c11e_dir_codes()
