"""Banned.v : reserved attribute names of hdl21.Module / hdl21.Bundle (property C18).

Read with `ast` from hdl21/module.py and hdl21/bundle.py:
  _banned                      (list of str constants)
  _reserved = _banned + [...]  (the names `_add` refuses; a tree without `_reserved` checks nothing in `_add`
                                beyond `_banned` in `__setattr__`, and is translated as _reserved = _banned)
  protected_names              (list literal inside bundle.py:bundle)
cross-checked against the live module objects; plus, from the live classes, the PUBLIC attribute names of a fresh
Module / Bundle (`dir()` without underscore names) over which Props/C18.v proves `every public attribute is reserved`.
"""
import ast


def _str_list(node, what):
    if not isinstance(node, ast.List):
        die(f"{what}: expected a list literal, got {ast.dump(node)[:80]}")
    out = []
    for e in node.elts:
        if not (isinstance(e, ast.Constant) and isinstance(e.value, str)):
            die(f"{what}: non-string entry")
        out.append(e.value)
    if len(set(out)) != len(out):
        die(f"{what}: duplicate entries")
    return out


def _toplevel_assign(tree, name):
    found = [st for st in tree.body if isinstance(st, ast.Assign) and len(st.targets) == 1
             and isinstance(st.targets[0], ast.Name) and st.targets[0].id == name]
    if len(found) > 1:
        die(f"{name}: assigned more than once")
    return found[0].value if found else None


def _banned_reserved(rel):
    tree = src(rel)
    b = _toplevel_assign(tree, "_banned")
    if b is None:
        die(f"{rel}: _banned not found")
    banned = _str_list(b, rel + ":_banned")
    r = _toplevel_assign(tree, "_reserved")
    if r is None:
        reserved = list(banned)
    else:
        if not (isinstance(r, ast.BinOp) and isinstance(r.op, ast.Add) and isinstance(r.left, ast.Name)
                and r.left.id == "_banned"):
            die(f"{rel}: _reserved is not `_banned + [...]`")
        reserved = banned + _str_list(r.right, rel + ":_reserved")
        if len(set(reserved)) != len(reserved):
            die(f"{rel}: duplicate entries in _reserved")
    return tree, banned, reserved


def _printable(names, what):
    for n in names:
        if not all(32 <= ord(ch) < 127 for ch in n):
            die(f"{what}: non-ASCII name {n!r}")
    return names


mtree, m_banned, m_reserved = _banned_reserved("hdl21/module.py")
btree, b_banned, b_reserved = _banned_reserved("hdl21/bundle.py")
pn = None
for n in ast.walk(find_func(btree, "bundle")):
    if isinstance(n, ast.Assign) and isinstance(n.targets[0], ast.Name) and n.targets[0].id == "protected_names":
        pn = _str_list(n.value, "bundle.py:bundle:protected_names")
if pn is None:
    die("bundle.py:bundle: protected_names not found")

import sys, hdl21
_hm, _hb = sys.modules["hdl21.module"], sys.modules["hdl21.bundle"]
if list(_hm._banned) != m_banned or list(_hb._banned) != b_banned:
    die("_banned: ast reading differs from the live lists")
if list(getattr(_hm, "_reserved", _hm._banned)) != m_reserved or list(getattr(_hb, "_reserved", _hb._banned)) != b_reserved:
    die("_reserved: ast reading differs from the live lists")
m_public = sorted(n for n in dir(hdl21.Module(name="T")) if not n.startswith("_"))
b_public = sorted(n for n in dir(hdl21.Bundle(name="T")) if not n.startswith("_"))
if not m_public or not b_public:
    die("no public attributes found on Module / Bundle")


def _lst(name, xs):
    return f"Definition {name} : list string :=\n  [" + "; ".join(cstr(x) for x in _printable(xs, name)) + "].\n"


emit("Banned", _lst("module_banned", m_banned) + _lst("module_reserved", m_reserved)
     + _lst("bundle_banned", b_banned) + _lst("bundle_reserved", b_reserved)
     + _lst("bundle_protected", pn)
     + _lst("module_public_attrs", m_public) + _lst("bundle_public_attrs", b_public))
