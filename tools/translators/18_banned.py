"""Banned.v : reserved attribute names of hdl21.Module / hdl21.Bundle (property C18).

Read with `ast` from hdl21/module.py and hdl21/bundle.py:
  _banned                      (list of str constants)
  _reserved = _banned + [...]  (the names `_add` refuses; a tree without `_reserved` checks nothing in `_add`
                                beyond `_banned` in `__setattr__`, and is translated as _reserved = _banned)
  protected_names              (list literal inside bundle.py:bundle)
cross-checked against the live module objects; plus, from the live classes, the PUBLIC attribute names of a fresh
Module / Bundle (`dir()` without underscore names) over which Props/C18.v proves `every public attribute is reserved`.
"""
import ast


def _str_list(node, what):
    """A collection of string constants: a list / tuple / set literal, possibly wrapped in list() / tuple() / set() /
    frozenset().  Returns (names in source order, whether the source form is ordered)."""
    ordered = True
    if isinstance(node, ast.Call) and isinstance(node.func, ast.Name) and node.func.id in ("list", "tuple", "set", "frozenset") \
            and len(node.args) == 1 and not node.keywords:
        ordered = node.func.id in ("list", "tuple")
        node = node.args[0]
    if isinstance(node, ast.Set):
        ordered = False
    if not isinstance(node, (ast.List, ast.Tuple, ast.Set)):
        die(f"{what}: expected a literal collection of strings, got {ast.dump(node)[:80]}")
    out = []
    for e in node.elts:
        if not (isinstance(e, ast.Constant) and isinstance(e.value, str)):
            die(f"{what}: non-string entry")
        out.append(e.value)
    if len(set(out)) != len(out):
        die(f"{what}: duplicate entries")
    return out, ordered


def _toplevel_assign(tree, name):
    found = [st for st in tree.body if isinstance(st, ast.Assign) and len(st.targets) == 1
             and isinstance(st.targets[0], ast.Name) and st.targets[0].id == name]
    if len(found) > 1:
        die(f"{name}: assigned more than once")
    return found[0].value if found else None


def _banned_reserved(rel, live_mod):
    """(_banned, _reserved, whether each is ordered).  The LIVE module objects are what is emitted; the literal forms of the
    source (`_banned = [...]`, `_reserved = _banned + [...]` / `_banned | {...}`, possibly wrapped in list()/frozenset()/...)
    give the order and must agree with the live objects when they can be read."""
    tree = src(rel)
    if not hasattr(live_mod, "_banned"):
        die(f"{rel}: _banned not found")
    lb = list(live_mod._banned)
    lr = list(getattr(live_mod, "_reserved", live_mod._banned))
    for xs, what in ((lb, "_banned"), (lr, "_reserved")):
        if not all(isinstance(x, str) for x in xs) or len(set(xs)) != len(xs):
            die(f"{rel}: live {what} is not a collection of distinct strings")
    b_ord = isinstance(live_mod._banned, (list, tuple))
    r_ord = isinstance(getattr(live_mod, "_reserved", live_mod._banned), (list, tuple))

    def _source():
        b = _toplevel_assign(tree, "_banned")
        if b is None:
            die("no literal")
        banned, bo = _str_list(b, rel + ":_banned")
        r = _toplevel_assign(tree, "_reserved")
        ro = bo
        if r is None:
            reserved = list(banned)
        else:
            if not (isinstance(r, ast.BinOp) and isinstance(r.op, (ast.Add, ast.BitOr)) and isinstance(r.left, ast.Name)
                    and r.left.id == "_banned"):
                die("shape")
            more, mo = _str_list(r.right, rel + ":_reserved")
            ro = bo and mo and isinstance(r.op, ast.Add)
            reserved = banned + [x for x in more if x not in banned]
        return banned, reserved, bo, ro

    sf = soft(_source)
    if sf is not None:
        banned, reserved, bo, ro = sf
        _same(lb, banned, bo and b_ord, rel + ":_banned")
        if hasattr(live_mod, "_reserved") or _toplevel_assign(tree, "_reserved") is None:
            _same(lr, reserved, ro and r_ord, rel + ":_reserved")
        return tree, banned, reserved, bo, ro
    return tree, lb, lr, b_ord, r_ord


def _same(live, read, ordered, what):
    if (list(live) != read) if ordered else (set(live) != set(read) or len(list(live)) != len(read)):
        die(f"{what}: ast reading differs from the live object")


def _printable(names, what):
    for n in names:
        if not all(32 <= ord(ch) < 127 for ch in n):
            die(f"{what}: non-ASCII name {n!r}")
    return names


import sys, hdl21
_hm, _hb = sys.modules["hdl21.module"], sys.modules["hdl21.bundle"]
mtree, m_banned, m_reserved, m_bo, m_ro = _banned_reserved("hdl21/module.py", _hm)
btree, b_banned, b_reserved, b_bo, b_ro = _banned_reserved("hdl21/bundle.py", _hb)
# un-ordered source forms are emitted sorted (the theorems use membership only)
if not m_bo: m_banned = sorted(m_banned)
if not m_ro: m_reserved = sorted(m_reserved)
if not b_bo: b_banned = sorted(b_banned)
if not b_ro: b_reserved = sorted(b_reserved)

# the names the @bundle decorator refuses in a class body: the literal `protected_names` of bundle.py:bundle when it is
# there, cross-checked against the decorator's behaviour; otherwise read off the behaviour of the live decorator
# (import-and-dump: data only - which of the candidate names a class body may not bind)
pn = None
for n in ast.walk(find_func(btree, "bundle")):
    if isinstance(n, ast.Assign) and isinstance(n.targets[0], ast.Name) and n.targets[0].id == "protected_names":
        pn, _ = _str_list(n.value, "bundle.py:bundle:protected_names")


def _refused_by_decorator(name):
    try:
        # a NON-HDL value: the decorator's own list is what it refuses whatever the value is (an HDL value under a
        # reserved name is refused later, by Bundle.__setattr__, which the model has separately)
        hdl21.bundle(type("ProbeBundle", (), {name: 5}))
        return False
    except Exception:
        return True


_cands = list(dict.fromkeys(list(b_reserved) + sorted(n for n in dir(hdl21.Bundle(name="T")) if not n.startswith("_"))))
_probed = [n for n in _cands if _refused_by_decorator(n)]
if pn is None:
    pn = _probed
elif set(pn) != set(_probed) and not set(pn) <= set(_probed):
    die(f"bundle.py:bundle: protected_names {pn} are not all refused by the live decorator (refused: {_probed})")
m_public = sorted(n for n in dir(hdl21.Module(name="T")) if not n.startswith("_"))
b_public = sorted(n for n in dir(hdl21.Bundle(name="T")) if not n.startswith("_"))
if not m_public or not b_public:
    die("no public attributes found on Module / Bundle")


def _lst(name, xs):
    return f"Definition {name} : list string :=\n  [" + "; ".join(cstr(x) for x in _printable(xs, name)) + "].\n"


emit("Banned", _lst("module_banned", m_banned) + _lst("module_reserved", m_reserved)
     + _lst("bundle_banned", b_banned) + _lst("bundle_reserved", b_reserved)
     + _lst("bundle_protected", pn)
     + _lst("module_public_attrs", m_public) + _lst("bundle_public_attrs", b_public))
