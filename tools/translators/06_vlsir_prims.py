# C06VlsirPrims.v : the parameters every vlsirtools netlister REQUIRES of an instance of a `vlsir.primitives` element
# (import-and-dump of vlsirtools.primitives: declared parameters without a default value; Netlister.get_instance_params
# raises "Required parameter ... not specified" for each of them that the instance does not give).
# Cross-checked against the exporter's ideal-primitive names: every name the exporter can write must be a declared element.
import ast


def _run():
    from vlsirtools import primitives as vp
    if getattr(vp, "domain", None) != "vlsir.primitives":
        die("vlsirtools.primitives.domain is not vlsir.primitives")
    rows = []
    for name, x in vp.dct.items():
        if x.name.name != name or x.name.domain != "vlsir.primitives":
            die(f"vlsirtools.primitives.dct[{name!r}] is keyed inconsistently")
        req = [p.name for p in x.parameters if p.value.WhichOneof("value") is None]
        rows.append((name, req, [p.name for p in x.parameters]))
    if len(rows) < 8:
        die("vlsirtools primitive table unexpectedly small")
    # every name the exporter can write for an ideal primitive (read off the exporter's behaviour on every registered
    # primitive, see prim_export_reading in translate_tables.py) must be a declared element
    for k, v in prim_export_reading():
        if v not in vp.dct:
            die(f"the exporter writes {v!r} for {k}, which vlsirtools.primitives does not declare")
    body = "Definition vlsir_prim_required : list (string * list string) :=\n  [" + ";\n   ".join(
        f"({cstr(n)}, [" + "; ".join(cstr(p) for p in req) + "])" for n, req, _ in rows) + "].\n"
    emit("C06VlsirPrims", body)


_run()
