# C06VlsirPrims.v : the parameters every vlsirtools netlister REQUIRES of an instance of a `vlsir.primitives` element
# (import-and-dump of vlsirtools.primitives: declared parameters without a default value; Netlister.get_instance_params
# raises "Required parameter ... not specified" for each of them that the instance does not give).
# Cross-checked against the exporter's prim_map: every name the exporter can write must be a declared element.
import ast


def _run():
    from vlsirtools import primitives as vp
    if getattr(vp, "domain", None) != "vlsir.primitives":
        die("vlsirtools.primitives.domain is not vlsir.primitives")
    rows = []
    for name, x in vp.dct.items():
        if x.name.name != name or x.name.domain != "vlsir.primitives":
            die(f"vlsirtools.primitives.dct[{name!r}] is keyed inconsistently")
        req = [p.name for p in x.parameters if p.value.WhichOneof("value") is None]
        rows.append((name, req, [p.name for p in x.parameters]))
    if len(rows) < 8:
        die("vlsirtools primitive table unexpectedly small")
    d = dict_in_func(src("hdl21/proto/exporting.py"), "export_instance", "prim_map")
    for v in d.values:
        if not (isinstance(v, ast.Constant) and isinstance(v.value, str)):
            die("export_instance: prim_map is not a dict of string constants")
        if v.value not in vp.dct:
            die(f"export_instance: prim_map writes {v.value!r}, which vlsirtools.primitives does not declare")
    body = "Definition vlsir_prim_required : list (string * list string) :=\n  [" + ";\n   ".join(
        f"({cstr(n)}, [" + "; ".join(cstr(p) for p in req) + "])" for n, req, _ in rows) + "].\n"
    emit("C06VlsirPrims", body)


_run()
