# C11Maps.v : the mirror-image tables of hdl21/proto/exporting.py and hdl21/proto/importing.py that are not already in
# PrefixMaps.v / Primitives.v: pulse-source renaming (both directions), port-direction if-chains (both directions),
# spice-type if-chains of vlsirtools.SpiceType (both directions), the primitive parameter classes (field order, kind,
# optionality), enum value sets, the attribute look-ups import_*_primitive perform, and the SHAPE of the importer
# (does it read the spice type, import Scalar strings as Literals, import un-set optional parameters as None, tolerate
# un-set pulse parameters).  ast readings are cross-checked against the live objects; unexpected shapes fail closed.
import ast, inspect, typing, textwrap, enum
from dataclasses import fields as dc_fields, MISSING


def _pairs(lst, f=lambda kv: f"({cstr(kv[0])}, {cstr(kv[1])})"):
    return "[" + ";\n   ".join(f(x) for x in lst) + "]"


def _bool(b):
    return "true" if b else "false"


def _ret_dict_call(fn, what):
    """the `return dict(k=..., ...)` inside the `if` of fn"""
    for n in ast.walk(fn):
        if isinstance(n, ast.Return) and isinstance(n.value, ast.Call) and isinstance(n.value.func, ast.Name) \
                and n.value.func.id == "dict" and n.value.keywords and not n.value.args:
            return n.value
    die(f"{what}: `return dict(...)` not found")


def _if_chain(fn, what, test_side, ret_side):
    """[(name compared with, name returned)] of the `if x == A.B: return C.D` statements of fn, in order"""
    out = []
    for st in fn.body:
        if isinstance(st, ast.If):
            t = st.test
            if not (isinstance(t, ast.Compare) and len(t.ops) == 1 and isinstance(t.ops[0], ast.Eq) and len(st.body) == 1
                    and isinstance(st.body[0], ast.Return) and not st.orelse):
                die(f"{what}: unexpected if-statement shape")
            out.append((attr_tail(t.comparators[0]), attr_tail(st.body[0].value)))
            for side, node in ((test_side, t.comparators[0]), (ret_side, st.body[0].value)):
                if side not in ast.unparse(node):
                    die(f"{what}: expected {side} in {ast.unparse(node)}")
    if not out:
        die(f"{what}: no if-chain found")
    if len(set(k for k, _ in out)) != len(out):
        die(f"{what}: duplicate tests")
    return out


def _run():
    import hdl21 as h
    import hdl21.primitives as hp
    import hdl21.proto.importing as IM
    import hdl21.proto.exporting as EX
    import vlsir
    import vlsir.circuit_pb2 as vckt
    from vlsirtools import SpiceType
    ex = src("hdl21/proto/exporting.py")
    im = src("hdl21/proto/importing.py")

    # ---- pulse renaming, export: dict(v1=params.v1, td=params.delay, ...) guarded by isinstance(params, <cls>)
    f = find_func(ex, "export_primitive_params")
    call = _ret_dict_call(f, "export_primitive_params")
    pulse_exp = []
    for kw in call.keywords:
        if not (isinstance(kw.value, ast.Attribute) and isinstance(kw.value.value, ast.Name) and kw.value.value.id == "params"):
            die("export_primitive_params: dict value is not params.<field>")
        pulse_exp.append((kw.arg, kw.value.attr))
    cls = None
    for n in ast.walk(f):
        if isinstance(n, ast.Call) and getattr(n.func, "id", None) == "isinstance" and isinstance(n.args[1], ast.Name):
            cls = n.args[1].id
    if cls is None:
        die("export_primitive_params: isinstance guard not found")
    # ---- import: dict(v1=params["v1"], delay=params["td"], ...) or params.get("td", None), guarded by `target is Vpulse`
    f = find_func(im, "import_primitive_params")
    call = _ret_dict_call(f, "import_primitive_params")
    pulse_imp, total = [], []
    for kw in call.keywords:
        v = kw.value
        if isinstance(v, ast.Subscript) and isinstance(v.value, ast.Name) and v.value.id == "params" and isinstance(v.slice, ast.Constant):
            pulse_imp.append((kw.arg, v.slice.value)); total.append(False)
        elif isinstance(v, ast.Call) and isinstance(v.func, ast.Attribute) and v.func.attr == "get" and getattr(v.func.value, "id", None) == "params" \
                and len(v.args) in (1, 2) and isinstance(v.args[0], ast.Constant) and (len(v.args) == 1 or (isinstance(v.args[1], ast.Constant) and v.args[1].value is None)):
            pulse_imp.append((kw.arg, v.args[0].value)); total.append(True)
        else:
            die(f"import_primitive_params: unexpected value {ast.unparse(v)}")
    guard = None
    for n in ast.walk(f):
        if isinstance(n, ast.Compare) and isinstance(n.ops[0], ast.Is) and isinstance(n.comparators[0], ast.Name):
            guard = n.comparators[0].id
    if guard is None:
        die("import_primitive_params: `target is <prim>` guard not found")
    pulse_prim = getattr(IM, guard)
    if not isinstance(pulse_prim, hp.Primitive) or pulse_prim.Params is not getattr(EX, cls):
        die("pulse renaming: the exporter's parameter class is not the parameter class of the importer's primitive")
    # live cross-check of the export dict
    pf = [fl.name for fl in dc_fields(pulse_prim.Params)]
    probe = pulse_prim.Params(**{n: k + 1 for k, n in enumerate(pf)})
    live = [(k, pf[int(v.number) - 1]) for k, v in EX.export_primitive_params(probe).items()]
    if live != pulse_exp:
        die(f"pulse renaming: ast {pulse_exp} vs live {live}")

    # ---- port directions
    dir_exp = _if_chain(find_func(ex, "export_port_dir"), "export_port_dir", "PortDir.", "Direction.")
    dir_imp = _if_chain(find_func(im, "import_port_dir"), "import_port_dir", "Direction.", "PortDir.")
    portdirs = [m.name for m in h.PortDir]
    directions = [n for n, _ in vckt.Port.Direction.items()]
    for a, b in dir_exp:
        if a not in portdirs or b not in directions:
            die(f"export_port_dir: unknown name in {(a, b)}")
    for a, b in dir_imp:
        if a not in directions or b not in portdirs:
            die(f"import_port_dir: unknown name in {(a, b)}")

    # ---- spice types (vlsirtools.SpiceType.to_schema / from_schema, as used by export_external_module / the importer)
    st = ast.parse(textwrap.dedent(inspect.getsource(SpiceType)))
    spice_exp = _if_chain(find_func(st, "to_schema"), "SpiceType.to_schema", "SpiceType.", "SchemaSpiceType.")
    spice_imp = _if_chain(find_func(st, "from_schema"), "SpiceType.from_schema", "SchemaSpiceType.", "SpiceType.")
    for m in SpiceType:
        if vckt.SpiceType.Name(m.to_schema()) != dict(spice_exp).get(m.name):
            die(f"SpiceType.to_schema: ast vs live for {m.name}")
    spicetypes = [m.name for m in SpiceType]
    schema_spicetypes = [n for n, _ in vckt.SpiceType.items()]
    ext_default = h.ExternalModule.__dataclass_fields__["spicetype"].default
    if not isinstance(ext_default, SpiceType):
        die("ExternalModule.spicetype default is not a SpiceType")
    # does export_external_module write it / import_external_module read it?
    f = find_func(ex, "export_external_module", cls=None)
    exp_writes = "spicetype=emod.spicetype.to_schema()" in ast.unparse(f)
    f = find_func(im, "import_external_module")
    imp_reads = False
    for n in ast.walk(f):
        if isinstance(n, ast.Call) and getattr(n.func, "id", None) == "ExternalModule":
            for kw in n.keywords:
                if kw.arg == "spicetype":
                    if ast.unparse(kw.value) != "SpiceType.from_schema(pmod.spicetype)":
                        die(f"import_external_module: unexpected spicetype expression {ast.unparse(kw.value)}")
                    imp_reads = True

    # ---- shape of import_instance: which conversions are applied to primitive parameters
    f = find_func(im, "import_instance")
    calls = [n.func.id for n in ast.walk(f) if isinstance(n, ast.Call) and isinstance(n.func, ast.Name)]
    scal = calls.count("import_scalar_literals")
    unset = calls.count("import_unset_params")
    if scal not in (0, 2) or unset not in (0, 2):
        die("import_instance: a primitive-parameter conversion is applied in one primitive branch only")

    # ---- the state the importer keeps between instances: attributes of `self` assigned anywhere in ProtoImporter, and
    #      anything in importing.py that could remember an earlier call (decorators, module-level containers)
    pcls = find_class(im, "ProtoImporter")
    state = set()
    for n in ast.walk(pcls):
        tgts = []
        if isinstance(n, ast.Assign):
            tgts = n.targets
        elif isinstance(n, (ast.AugAssign, ast.AnnAssign)):
            tgts = [n.target]
        for t in tgts:
            for q in ast.walk(t):
                if isinstance(q, ast.Attribute) and isinstance(q.value, ast.Name) and q.value.id == "self" and isinstance(q.ctx, ast.Store):
                    state.add(q.attr)
        if isinstance(n, ast.Call) and getattr(n.func, "id", None) == "setattr" and n.args and getattr(n.args[0], "id", None) == "self":
            die("ProtoImporter: setattr(self, ...) - cannot enumerate the importer's state")
        if isinstance(n, (ast.Global, ast.Nonlocal)):
            die("ProtoImporter: global / nonlocal statement - cannot enumerate the importer's state")
    live_state = set(vars(IM.ProtoImporter(vckt.Package())))
    if not live_state <= state:
        die(f"ProtoImporter: live attributes {sorted(live_state)} not all found in the source {sorted(state)}")
    memo = []
    for n in ast.walk(im):
        if isinstance(n, (ast.FunctionDef, ast.ClassDef)):
            memo += ["decorator:" + ast.unparse(d) for d in n.decorator_list]
    for st_ in im.body:
        if isinstance(st_, (ast.Assign, ast.AnnAssign)) and st_.value is not None and \
                isinstance(st_.value, (ast.Dict, ast.List, ast.Set, ast.Call, ast.DictComp, ast.ListComp, ast.SetComp)):
            memo.append("global:" + ast.unparse(st_.targets[0] if isinstance(st_, ast.Assign) else st_.target))
    for n in ast.walk(im):
        if isinstance(n, ast.FunctionDef):
            for dflt in n.args.defaults + [d for d in n.args.kw_defaults if d is not None]:
                if isinstance(dflt, (ast.Dict, ast.List, ast.Set, ast.Call)):
                    memo.append(f"mutable-default:{n.name}")

    # ---- primitive parameter classes
    Scalar = h.Scalar
    prim_fields, enums = [], {}
    seen = set()
    for key, ent in hp._primitives.items():
        prim = ent.prim
        if prim.name in seen:
            continue
        seen.add(prim.name)
        fl = []
        for fd in dc_fields(prim.Params):
            t = fd.type
            opt = type(None) in typing.get_args(t)
            if t in (Scalar, typing.Optional[Scalar]):
                kind = "scalar"
            elif t in (str, typing.Optional[str]):
                kind = "str"
            elif isinstance(t, type) and issubclass(t, enum.Enum):
                kind = "enum:" + t.__name__
                vals = [m.value for m in t]
                if not all(isinstance(v, str) for v in vals):
                    die(f"enum {t.__name__} has non-string values")
                enums[t.__name__] = vals
            else:
                die(f"primitive {prim.name}: field {fd.name} of unexpected type {t}")
            has_default = fd.default is not MISSING or fd.default_factory is not MISSING
            fl.append((fd.name, kind, opt, has_default))
        prim_fields.append((prim.name, prim.primtype.name, fl))
    if len(prim_fields) < 10:
        die("primitive registry unexpectedly small")
    # attribute look-ups of import_hdl21_primitive / import_vlsir_primitive: getattr(primitives, name)
    lookups = []
    for name, _, _ in prim_fields:
        got = getattr(hp, name, None)
        lookups.append((name, got.name if isinstance(got, hp.Primitive) else ""))

    siprefixes = [n for n, _ in vlsir.SIPrefix.items()]

    body = ""
    body += "Definition pulse_export : list (string * string) :=  (* VLSIR name, field read *)\n  " + _pairs(pulse_exp) + ".\n"
    body += "Definition pulse_import : list (string * string) :=  (* field set, VLSIR name read *)\n  " + _pairs(pulse_imp) + ".\n"
    body += f"Definition pulse_import_total : bool := {_bool(all(total))}.  (* un-set names are read as None *)\n"
    body += f"Definition pulse_prim : string := {cstr(pulse_prim.name)}.\n"
    body += "Definition dir_export : list (string * string) :=  (* PortDir, vlsir Direction *)\n  " + _pairs(dir_exp) + ".\n"
    body += "Definition dir_import : list (string * string) :=  (* vlsir Direction, PortDir *)\n  " + _pairs(dir_imp) + ".\n"
    body += "Definition portdir_names : list string := [" + "; ".join(map(cstr, portdirs)) + "].\n"
    body += "Definition direction_names : list string := [" + "; ".join(map(cstr, directions)) + "].\n"
    body += "Definition spice_export : list (string * string) :=  (* SpiceType, schema SpiceType *)\n  " + _pairs(spice_exp) + ".\n"
    body += "Definition spice_import : list (string * string) :=  (* schema SpiceType, SpiceType *)\n  " + _pairs(spice_imp) + ".\n"
    body += "Definition spicetype_names : list string := [" + "; ".join(map(cstr, spicetypes)) + "].\n"
    body += "Definition schema_spicetype_names : list string := [" + "; ".join(map(cstr, schema_spicetypes)) + "].\n"
    body += f"Definition ext_default_spicetype : string := {cstr(ext_default.name)}.\n"
    body += f"Definition ext_export_spicetype : bool := {_bool(exp_writes)}.\n"
    body += f"Definition ext_import_spicetype : bool := {_bool(imp_reads)}.\n"
    body += f"Definition import_scalar_literals : bool := {_bool(scal == 2)}.\n"
    body += f"Definition import_unset_none : bool := {_bool(unset == 2)}.\n"
    body += "Definition importer_state : list string := [" + "; ".join(map(cstr, sorted(state))) + "].  (* self.<attr> assigned in ProtoImporter *)\n"
    body += "Definition importer_memo : list string := [" + "; ".join(map(cstr, sorted(memo))) + "].  (* decorators, module-level containers, mutable defaults in importing.py *)\n"
    body += "Definition siprefix_names : list string := [" + "; ".join(map(cstr, siprefixes)) + "].\n"
    body += ("Definition prim_fields : list (string * string * list (string * string * bool * bool)) :=  "
             "(* primitive, type, fields: name, kind, admits None, has default *)\n  [" + ";\n   ".join(
                 f"({cstr(n)}, {cstr(t)}, [" + "; ".join(f"({cstr(a)}, {cstr(k)}, {_bool(o)}, {_bool(d)})" for a, k, o, d in fl) + "])"
                 for n, t, fl in prim_fields) + "].\n")
    body += "Definition enum_values : list (string * list string) :=\n  [" + ";\n   ".join(
        f"({cstr(n)}, [" + "; ".join(map(cstr, vs)) + "])" for n, vs in sorted(enums.items())) + "].\n"
    body += "Definition prim_lookups : list (string * string) :=  (* attribute of hdl21.primitives, name of the Primitive found *)\n  " + _pairs(lookups) + ".\n"
    emit("C11Maps", body)


_run()
