# C11Maps.v : the mirror-image tables of hdl21/proto/exporting.py and hdl21/proto/importing.py that are not already in
# PrefixMaps.v / Primitives.v: pulse-source renaming (both directions), port-direction if-chains (both directions),
# spice-type if-chains of vlsirtools.SpiceType (both directions), the primitive parameter classes (field order, kind,
# optionality), enum value sets, the attribute look-ups import_*_primitive perform, and the SHAPE of the importer
# (does it read the spice type, import Scalar strings as Literals, import un-set optional parameters as None, tolerate
# un-set pulse parameters).  ast readings are cross-checked against the live objects; unexpected shapes fail closed.
import ast, inspect, typing, textwrap, enum
from dataclasses import fields as dc_fields, MISSING


def _pairs(lst, f=lambda kv: f"({cstr(kv[0])}, {cstr(kv[1])})"):
    return "[" + ";\n   ".join(f(x) for x in lst) + "]"


def _bool(b):
    return "true" if b else "false"


def _ret_dict_call(fn, what):
    """the `return dict(k=..., ...)` inside the `if` of fn"""
    for n in ast.walk(fn):
        if isinstance(n, ast.Return) and isinstance(n.value, ast.Call) and isinstance(n.value.func, ast.Name) \
                and n.value.func.id == "dict" and n.value.keywords and not n.value.args:
            return n.value
    die(f"{what}: `return dict(...)` not found")


def _tail_under(owner):
    """node -> last name of a dotted path that passes through `owner` (PortDir.X, vckt.Port.Direction.X), else None"""
    return lambda n: dotted(n)[-1] if owner in dotted(n)[:-1] else None


def _enum_map(what, behav, tree, kowner, vowner):
    """a table between two enumerations: the behaviour over the whole key enumeration, reconciled with the if-chains and the
    literal tables of the source that mention the two enumerations (order; must agree)"""
    kf, vf = _tail_under(kowner), _tail_under(vowner)
    return reconcile(what, behav, if_chain_tables(tree, kf, vf) + literal_tables(tree, kf, vf))


_READERS = {"get", "items", "keys", "values", "index", "count", "copy"}
_PURE = {"len", "sorted", "list", "tuple", "dict", "set", "frozenset", "iter", "enumerate", "reversed", "min", "max", "any", "all"}


def _read_only(tree, name, defn):
    """every occurrence of the module-level `name` outside its defining statement only LOOKS UP in it: name[k] (loaded),
    name.get(...) / .items() / ..., `k in name`, `for .. in name`, len(name) and the like.  Anything else (a store, a
    mutating method, an alias, passing it on) -> False."""
    parent = {}
    for n in ast.walk(tree):
        for c in ast.iter_child_nodes(n):
            parent[c] = n
    inside = set(id(n) for n in ast.walk(defn))
    for n in ast.walk(tree):
        if isinstance(n, (ast.Global, ast.Nonlocal)) and name in n.names:
            return False
        if not (isinstance(n, ast.Name) and n.id == name) or id(n) in inside:
            continue
        if not isinstance(n.ctx, ast.Load):
            return False
        p = parent.get(n)
        if isinstance(p, ast.Subscript) and p.value is n and isinstance(p.ctx, ast.Load):
            continue
        if isinstance(p, ast.Attribute) and p.attr in _READERS and isinstance(parent.get(p), ast.Call) and parent[p].func is p:
            continue
        if isinstance(p, ast.Compare) and n in p.comparators and all(isinstance(o, (ast.In, ast.NotIn)) for o in p.ops):
            continue
        if isinstance(p, (ast.For, ast.comprehension)) and p.iter is n:
            continue
        if isinstance(p, ast.Call) and isinstance(p.func, ast.Name) and p.func.id in _PURE and n in p.args:
            continue
        return False
    return True


def _run():
    import hdl21 as h
    import hdl21.primitives as hp
    import hdl21.proto.importing as IM
    import hdl21.proto.exporting as EX
    import vlsir
    import vlsir.circuit_pb2 as vckt
    from vlsirtools import SpiceType
    ex = src("hdl21/proto/exporting.py")
    im = src("hdl21/proto/importing.py")

    # ---- pulse renaming, export: behaviour of export_primitive_params on a probe of every IDEAL parameter class
    #      (translate_tables.py: export_renaming_reading); the source form dict(v1=params.v1, td=params.delay, ...) must agree
    #      when it is there
    pulse_params, pulse_exp = export_renaming_reading()

    def _exp_source():
        call = _ret_dict_call(find_func(ex, "export_primitive_params"), "export_primitive_params")
        out = []
        for kw in call.keywords:
            if not (isinstance(kw.value, ast.Attribute) and isinstance(kw.value.value, ast.Name)):
                die("shape")
            out.append((kw.arg, kw.value.attr))
        return out
    sf = soft(_exp_source)
    if sf is not None and sf != pulse_exp:
        die(f"pulse renaming: ast {sf} vs live {pulse_exp}")

    # ---- import: behaviour of import_primitive_params on every IDEAL primitive: a probe holding a distinct marker under every
    #      VLSIR name the exporter writes and under every field name; the answer either is the probe (general case) or is
    #      decoded through the markers: (field set, VLSIR name read).  Exactly one primitive is special-cased, and its parameter
    #      class is the one the exporter renames.  `total`: un-set names are read as None (an empty probe is accepted).
    fn = getattr(IM, "import_primitive_params", None)
    if not callable(fn):
        die("importing.py has no import_primitive_params to probe")
    special = {}
    for prim in registered_primitives():
        if prim.primtype.name != "IDEAL":
            continue
        keys = list(dict.fromkeys([k for k, _ in pulse_exp] + [fl.name for fl in dc_fields(prim.Params)]))
        marks = {k: ("trx-marker", i) for i, k in enumerate(keys)}
        got = fn(prim, dict(marks))
        if not isinstance(got, dict):
            die(f"import_primitive_params({prim.name}) does not return a dict")
        if got == marks:
            continue
        back = {id(v): k for k, v in marks.items()}
        row = []
        for fld, v in got.items():
            if id(v) not in back:
                die(f"import_primitive_params({prim.name}): cannot tell which name {fld!r} = {v!r} was read from")
            row.append((fld, back[id(v)]))
        special[prim.name] = (prim, row)
    if len(special) != 1:
        die(f"import_primitive_params: expected exactly one special-cased primitive, found {sorted(special)}")
    pulse_prim, pulse_imp = list(special.values())[0]
    if not isinstance(pulse_prim, hp.Primitive) or pulse_prim.Params is not pulse_params:
        die("pulse renaming: the exporter's parameter class is not the parameter class of the importer's primitive")
    try:
        empty = fn(pulse_prim, {})
        if not (isinstance(empty, dict) and [k for k in empty] == [a for a, _ in pulse_imp] and all(v is None for v in empty.values())):
            die(f"import_primitive_params({pulse_prim.name}, {{}}) = {empty!r}: neither refused nor all None")
        total = [True] * len(pulse_imp)
    except KeyError:
        total = [False] * len(pulse_imp)

    def _imp_source():
        call = _ret_dict_call(find_func(im, "import_primitive_params"), "import_primitive_params")
        out, tot = [], []
        for kw in call.keywords:
            v = kw.value
            if isinstance(v, ast.Subscript) and isinstance(v.value, ast.Name) and isinstance(v.slice, ast.Constant):
                out.append((kw.arg, v.slice.value)); tot.append(False)
            elif isinstance(v, ast.Call) and isinstance(v.func, ast.Attribute) and v.func.attr == "get" and isinstance(v.func.value, ast.Name) \
                    and len(v.args) in (1, 2) and isinstance(v.args[0], ast.Constant) and (len(v.args) == 1 or (isinstance(v.args[1], ast.Constant) and v.args[1].value is None)):
                out.append((kw.arg, v.args[0].value)); tot.append(True)
            else:
                die("shape")
        return out, tot
    sf = soft(_imp_source)
    if sf is not None and (sf[0] != pulse_imp or all(sf[1]) != all(total)):
        die(f"pulse renaming (import): ast {sf} vs live {pulse_imp}, total={all(total)}")

    # ---- port directions: export_port_dir on a port of every PortDir, import_port_dir on every vlsir Direction
    portdirs = [m.name for m in h.PortDir]
    directions = [n for n, _ in vckt.Port.Direction.items()]
    dir_b = []
    for m in h.PortDir:
        try:
            dir_b.append((m.name, vckt.Port.Direction.Name(EX.export_port_dir(h.Signal(name="p", direction=m)))))
        except Exception:
            pass
    dir_exp = _enum_map("export_port_dir", dir_b, ex, "PortDir", "Direction")
    dir_b = []
    for n, v in vckt.Port.Direction.items():
        try:
            got = IM.import_port_dir(vckt.Port(direction=v, signal="p"))
        except Exception:
            continue
        if not isinstance(got, h.PortDir):
            die(f"import_port_dir({n}) returns {got!r}")
        dir_b.append((n, got.name))
    dir_imp = _enum_map("import_port_dir", dir_b, im, "Direction", "PortDir")

    # ---- spice types (vlsirtools.SpiceType.to_schema / from_schema, as used by export_external_module / the importer)
    st = ast.parse(textwrap.dedent(inspect.getsource(SpiceType)))
    sp_b = []
    for m in SpiceType:
        try:
            sp_b.append((m.name, vckt.SpiceType.Name(m.to_schema())))
        except Exception:
            pass
    spice_exp = _enum_map("SpiceType.to_schema", sp_b, st, "SpiceType", "SchemaSpiceType")
    sp_b = []
    for n, v in vckt.SpiceType.items():
        try:
            sp_b.append((n, SpiceType.from_schema(v).name))
        except Exception:
            pass
    spice_imp = _enum_map("SpiceType.from_schema", sp_b, st, "SchemaSpiceType", "SpiceType")
    spicetypes = [m.name for m in SpiceType]
    schema_spicetypes = [n for n, _ in vckt.SpiceType.items()]
    ext_default = h.ExternalModule.__dataclass_fields__["spicetype"].default
    if not isinstance(ext_default, SpiceType):
        die("ExternalModule.spicetype default is not a SpiceType")
    # does the exporter write it / the importer read it?  BEHAVIOUR: an ExternalModule of every spice type through to_proto,
    # a declared external module of every schema spice type through from_proto
    wrote = set()
    for m in SpiceType:
        if m.to_schema() == vckt.ExternalModule().spicetype:
            continue                      # the value an un-set field has anyway says nothing
        top = h.Module(name="TrxSpice")
        top.add(h.ExternalModule(name="E", port_list=[], spicetype=m)()(), name="i")
        pes = list(h.to_proto(top).ext_modules)
        if len(pes) != 1:
            die("to_proto: one ExternalModule is not exported as one declaration")
        wrote.add(pes[0].spicetype == m.to_schema())
    if len(wrote) != 1:
        # written for some types only: neither of the two shapes the model has
        die("export_external_module writes the spice type of some ExternalModules only")
    exp_writes = wrote == {True}
    # a tree whose importer ignores the field gives every module the default: `got is ext_default` for all -> read == {False}
    # for every non-default type; the default type itself says nothing either way
    read = set()
    for n, v in vckt.SpiceType.items():
        if SpiceType.from_schema(v) is ext_default:
            continue
        qn = vlsir.utils.QualifiedName(domain="trx.ext", name="E")
        pkg = vckt.Package(domain="trx", ext_modules=[vckt.ExternalModule(name=qn, spicetype=v)],
                           modules=[vckt.Module(name="M", instances=[vckt.Instance(name="i", module=vlsir.utils.Reference(external=qn))])])
        read.add(h.from_proto(pkg).M.instances["i"].of.module.spicetype is SpiceType.from_schema(v))
    if len(read) != 1:
        die("import_external_module reads the spice type of some external modules only (or there is one spice type)")
    imp_reads = read == {True}

    # ---- which conversions import_instance applies to primitive parameters.  BEHAVIOUR, through from_proto: a number-like
    #      literal under a Scalar field of a vlsir.primitives element and of an hdl21.primitives element stays a Literal
    #      (import_scalar_literals); an un-set optional parameter whose default is not None comes back as None
    #      (import_unset_params; observable only where such a field exists - the source is consulted for the other branch).
    from hdl21.literal import Literal as _Lit

    def _imported_params(domain, name, params):
        qn = vlsir.utils.QualifiedName(domain=domain, name=name)
        pinst = vckt.Instance(name="i", module=vlsir.utils.Reference(external=qn),
                              parameters=[vlsir.Param(name=k, value=vlsir.ParamValue(literal=v)) for k, v in params.items()])
        return h.from_proto(vckt.Package(domain="trx", modules=[vckt.Module(name="M", instances=[pinst])])).M.instances["i"].of.params

    Scalar = h.Scalar
    imp_names = dict((v, k) for k, v in prim_import_reading())          # Hdl21 primitive -> vlsir element
    lit_seen, unset_seen = {}, {}
    for prim in registered_primitives():
        dom, nm = ("vlsir.primitives", imp_names.get(prim.name)) if prim.primtype.name == "IDEAL" else ("hdl21.primitives", prim.name)
        if nm is None or prim is pulse_prim:
            continue
        flds = dc_fields(prim.Params)
        req = {fl.name: "1e3" for fl in flds if fl.default is MISSING and fl.default_factory is MISSING}
        if any(fl.type not in (Scalar, typing.Optional[Scalar]) for fl in flds if fl.name in req):
            continue
        sc = [fl.name for fl in flds if fl.type in (Scalar, typing.Optional[Scalar])]
        if sc and dom not in lit_seen:
            got = _imported_params(dom, nm, {**req, sc[0]: "1e3"})
            lit_seen[dom] = isinstance(getattr(got, sc[0]), _Lit)
        opt = [fl.name for fl in flds if type(None) in typing.get_args(fl.type) and fl.default is not None and fl.default is not MISSING]
        if opt and dom not in unset_seen:
            got = _imported_params(dom, nm, req)
            unset_seen[dom] = getattr(got, opt[0]) is None
    if set(lit_seen) != {"vlsir.primitives", "hdl21.primitives"}:
        die("import_instance: no Scalar parameter to probe in one of the two primitive domains")
    if len(set(lit_seen.values())) != 1 or len(set(unset_seen.values())) > 1:
        die("import_instance: a primitive-parameter conversion is applied in one primitive branch only")
    scal = 2 if lit_seen["vlsir.primitives"] else 0
    if unset_seen:
        unset = 2 if list(unset_seen.values())[0] else 0
    else:
        f = find_func(im, "import_instance")
        unset = [n.func.id for n in ast.walk(f) if isinstance(n, ast.Call) and isinstance(n.func, ast.Name)].count("import_unset_params")
        if unset not in (0, 2):
            die("import_instance: import_unset_params is applied in one primitive branch only")

    # ---- the state the importer keeps between instances: attributes of `self` assigned anywhere in ProtoImporter, and
    #      anything in importing.py that could remember an earlier call (decorators, module-level containers)
    pcls = find_class(im, "ProtoImporter")
    state = set()
    for n in ast.walk(pcls):
        tgts = []
        if isinstance(n, ast.Assign):
            tgts = n.targets
        elif isinstance(n, (ast.AugAssign, ast.AnnAssign)):
            tgts = [n.target]
        for t in tgts:
            for q in ast.walk(t):
                if isinstance(q, ast.Attribute) and isinstance(q.value, ast.Name) and q.value.id == "self" and isinstance(q.ctx, ast.Store):
                    state.add(q.attr)
        if isinstance(n, ast.Call) and getattr(n.func, "id", None) == "setattr" and n.args and getattr(n.args[0], "id", None) == "self":
            die("ProtoImporter: setattr(self, ...) - cannot enumerate the importer's state")
        if isinstance(n, (ast.Global, ast.Nonlocal)):
            die("ProtoImporter: global / nonlocal statement - cannot enumerate the importer's state")
    live_state = set(vars(IM.ProtoImporter(vckt.Package())))
    if not live_state <= state:
        die(f"ProtoImporter: live attributes {sorted(live_state)} not all found in the source {sorted(state)}")
    def _memo_of(tree, harmless_class_decorators=()):
        """anything in a source file that could remember an earlier call: decorators (of functions; of classes unless named as a
        plain record decorator), module-level containers that are not read-only constant tables, mutable defaults"""
        memo = []
        for n in ast.walk(tree):
            if isinstance(n, ast.FunctionDef):
                memo += ["decorator:" + ast.unparse(d) for d in n.decorator_list]
            if isinstance(n, ast.ClassDef):
                for d in n.decorator_list:
                    f = d.func if isinstance(d, ast.Call) else d
                    if not (isinstance(f, ast.Name) and f.id in harmless_class_decorators):
                        memo.append("decorator:" + ast.unparse(d))
                for st_ in n.body:       # a class-level container is shared by every instance of the class
                    if isinstance(st_, (ast.Assign, ast.AnnAssign)) and st_.value is not None and \
                            isinstance(st_.value, (ast.Dict, ast.List, ast.Set, ast.Call, ast.DictComp, ast.ListComp, ast.SetComp)):
                        tg = st_.targets[0] if isinstance(st_, ast.Assign) else st_.target
                        memo.append(f"class-level:{n.name}.{ast.unparse(tg)}")
        for st_ in tree.body:
            if isinstance(st_, (ast.Assign, ast.AnnAssign)) and st_.value is not None and \
                    isinstance(st_.value, (ast.Dict, ast.List, ast.Set, ast.Call, ast.DictComp, ast.ListComp, ast.SetComp)):
                tg = st_.targets[0] if isinstance(st_, ast.Assign) else st_.target
                if isinstance(tg, ast.Name) and isinstance(st_.value, (ast.Dict, ast.List, ast.Set)) and _read_only(tree, tg.id, st_):
                    continue      # a constant table (a literal that is only ever looked up) remembers nothing
                if isinstance(st_.value, ast.Call) and isinstance(st_.value.func, ast.Name) and st_.value.func.id in ("frozenset", "tuple") \
                        and not st_.value.keywords and not any(isinstance(q, (ast.Call, ast.Lambda)) for a in st_.value.args for q in ast.walk(a)):
                    continue      # an immutable collection cannot remember a call either
                memo.append("global:" + ast.unparse(tg))
        for n in ast.walk(tree):
            if isinstance(n, ast.FunctionDef):
                for dflt in n.args.defaults + [d for d in n.args.kw_defaults if d is not None]:
                    if isinstance(dflt, (ast.Dict, ast.List, ast.Set, ast.Call)):
                        memo.append(f"mutable-default:{n.name}")
            if isinstance(n, (ast.Global, ast.Nonlocal)):
                memo.append("global-statement:" + ",".join(n.names))
        return memo

    def _self_state(pcls, what):
        state = set()
        for n in ast.walk(pcls):
            tgts = []
            if isinstance(n, ast.Assign):
                tgts = n.targets
            elif isinstance(n, (ast.AugAssign, ast.AnnAssign)):
                tgts = [n.target]
            for t in tgts:
                for q in ast.walk(t):
                    if isinstance(q, ast.Attribute) and isinstance(q.value, ast.Name) and q.value.id == "self" and isinstance(q.ctx, ast.Store):
                        state.add(q.attr)
            if isinstance(n, ast.Call) and getattr(n.func, "id", None) == "setattr" and n.args and getattr(n.args[0], "id", None) == "self":
                die(f"{what}: setattr(self, ...) - cannot enumerate its state")
        return state

    memo = [m for m in _memo_of(im) if not m.startswith("global-statement:")]

    # ---- the state the EXPORTER keeps: between the instances of one export (attributes of ProtoExporter), and - what must be
    #      nothing - between two exports: decorators / module-level or class-level containers / mutable defaults in exporting.py,
    #      attributes the exporter stores ON the objects it exports (a cache kept on the ExternalModule / Module / Signal itself),
    #      and whether to_proto makes a new ProtoExporter per call.  ExternalModule is mutable: whatever is remembered goes stale.
    xcls = find_class(ex, "ProtoExporter")
    xstate = _self_state(xcls, "ProtoExporter")
    live_x = set(vars(EX.ProtoExporter(tops=[])))
    if not live_x <= xstate:
        die(f"ProtoExporter: live attributes {sorted(live_x)} not all found in the source {sorted(xstate)}")
    xmemo = _memo_of(ex, harmless_class_decorators=("datatype", "dataclass"))
    for n in ast.walk(ex):
        # stores on other objects than self: x.attr = ..., setattr(x, ...), x.__dict__[...] = ...
        tgts = []
        if isinstance(n, ast.Assign):
            tgts = n.targets
        elif isinstance(n, (ast.AugAssign, ast.AnnAssign)):
            tgts = [n.target]
        for t in tgts:
            for q in ast.walk(t):
                if isinstance(q, ast.Attribute) and isinstance(q.ctx, ast.Store) and isinstance(q.value, ast.Name) and q.value.id != "self":
                    # protobuf messages under construction are local: names bound in the same function by a vckt./vlsir. constructor call
                    fn_ = next((f for f in ast.walk(ex) if isinstance(f, ast.FunctionDef) and any(x is q for x in ast.walk(f))), None)
                    local_msgs = set()
                    if fn_ is not None:
                        for a in ast.walk(fn_):
                            if isinstance(a, ast.Assign) and isinstance(a.value, ast.Call) and len(a.targets) == 1 and isinstance(a.targets[0], ast.Name):
                                d = dotted(a.value.func) if isinstance(a.value.func, (ast.Attribute, ast.Name)) else []
                                if d and d[0] in ("vckt", "vlsir"):
                                    local_msgs.add(a.targets[0].id)
                    if q.value.id not in local_msgs:
                        xmemo.append(f"store-on-object:{q.value.id}.{q.attr}")
        if isinstance(n, ast.Call) and getattr(n.func, "id", None) == "setattr" and n.args and getattr(n.args[0], "id", None) != "self":
            xmemo.append("store-on-object:setattr")
    tp = find_func(ex, "to_proto")
    made = [n for n in ast.walk(tp) if isinstance(n, ast.Call) and getattr(n.func, "id", None) == "ProtoExporter"]
    fresh_exporter = len(made) == 1
    # behaviour: two to_proto calls over one ExternalModule object return two distinct, equal packages, and a third after a port
    # was appended declares the port (the free function likewise)
    def _probe_fresh():
        cell = h.ExternalModule(name="TrxCell", domain="trx", port_list=[h.Port(name="a")], paramtype=dict)
        def pk(nm):
            m = h.Module(name=nm)
            conns = {p: m.add(h.Signal(name=f"n{k}", width=s.width)) for k, (p, s) in enumerate(cell.ports.items())}
            m.add(cell({})(**conns), name="i")
            return h.to_proto(m)
        a, b = pk("TrxA"), pk("TrxA")
        ok = a is not b and a == b
        d1 = EX.export_external_module(cell)
        cell.port_list.append(h.Port(name="b"))
        c = pk("TrxB")
        d2 = EX.export_external_module(cell)
        ok = ok and [p.signal for p in c.ext_modules[0].ports] == ["a", "b"] and [p.signal for p in d2.ports] == ["a", "b"] \
            and [p.signal for p in d1.ports] == ["a"]
        return ok
    live_fresh = _probe_fresh()

    # ---- primitive parameter classes
    Scalar = h.Scalar
    prim_fields, enums = [], {}
    seen = set()
    for key, ent in hp._primitives.items():
        prim = ent.prim
        if prim.name in seen:
            continue
        seen.add(prim.name)
        fl = []
        for fd in dc_fields(prim.Params):
            t = fd.type
            opt = type(None) in typing.get_args(t)
            if t in (Scalar, typing.Optional[Scalar]):
                kind = "scalar"
            elif t in (str, typing.Optional[str]):
                kind = "str"
            elif isinstance(t, type) and issubclass(t, enum.Enum):
                kind = "enum:" + t.__name__
                vals = [m.value for m in t]
                if not all(isinstance(v, str) for v in vals):
                    die(f"enum {t.__name__} has non-string values")
                enums[t.__name__] = vals
            else:
                die(f"primitive {prim.name}: field {fd.name} of unexpected type {t}")
            has_default = fd.default is not MISSING or fd.default_factory is not MISSING
            fl.append((fd.name, kind, opt, has_default))
        prim_fields.append((prim.name, prim.primtype.name, fl))
    if len(prim_fields) < 10:
        die("primitive registry unexpectedly small")
    # attribute look-ups of import_hdl21_primitive / import_vlsir_primitive: getattr(primitives, name)
    lookups = []
    for name, _, _ in prim_fields:
        got = getattr(hp, name, None)
        lookups.append((name, got.name if isinstance(got, hp.Primitive) else ""))

    siprefixes = [n for n, _ in vlsir.SIPrefix.items()]

    body = ""
    body += "Definition pulse_export : list (string * string) :=  (* VLSIR name, field read *)\n  " + _pairs(pulse_exp) + ".\n"
    body += "Definition pulse_import : list (string * string) :=  (* field set, VLSIR name read *)\n  " + _pairs(pulse_imp) + ".\n"
    body += f"Definition pulse_import_total : bool := {_bool(all(total))}.  (* un-set names are read as None *)\n"
    body += f"Definition pulse_prim : string := {cstr(pulse_prim.name)}.\n"
    body += "Definition dir_export : list (string * string) :=  (* PortDir, vlsir Direction *)\n  " + _pairs(dir_exp) + ".\n"
    body += "Definition dir_import : list (string * string) :=  (* vlsir Direction, PortDir *)\n  " + _pairs(dir_imp) + ".\n"
    body += "Definition portdir_names : list string := [" + "; ".join(map(cstr, portdirs)) + "].\n"
    body += "Definition direction_names : list string := [" + "; ".join(map(cstr, directions)) + "].\n"
    body += "Definition spice_export : list (string * string) :=  (* SpiceType, schema SpiceType *)\n  " + _pairs(spice_exp) + ".\n"
    body += "Definition spice_import : list (string * string) :=  (* schema SpiceType, SpiceType *)\n  " + _pairs(spice_imp) + ".\n"
    body += "Definition spicetype_names : list string := [" + "; ".join(map(cstr, spicetypes)) + "].\n"
    body += "Definition schema_spicetype_names : list string := [" + "; ".join(map(cstr, schema_spicetypes)) + "].\n"
    body += f"Definition ext_default_spicetype : string := {cstr(ext_default.name)}.\n"
    body += f"Definition ext_export_spicetype : bool := {_bool(exp_writes)}.\n"
    body += f"Definition ext_import_spicetype : bool := {_bool(imp_reads)}.\n"
    body += f"Definition import_scalar_literals : bool := {_bool(scal == 2)}.\n"
    body += f"Definition import_unset_none : bool := {_bool(unset == 2)}.\n"
    body += "Definition importer_state : list string := [" + "; ".join(map(cstr, sorted(state))) + "].  (* self.<attr> assigned in ProtoImporter *)\n"
    body += "Definition importer_memo : list string := [" + "; ".join(map(cstr, sorted(memo))) + "].  (* decorators, module-level containers, mutable defaults in importing.py *)\n"
    body += "Definition exporter_state : list string := [" + "; ".join(map(cstr, sorted(xstate))) + "].  (* self.<attr> assigned in ProtoExporter *)\n"
    body += "Definition exporter_memo : list string := [" + "; ".join(map(cstr, sorted(xmemo))) + "].  (* decorators, module/class-level containers, mutable defaults, stores on exported objects in exporting.py *)\n"
    body += f"Definition to_proto_fresh_exporter : bool := {_bool(fresh_exporter)}.  (* to_proto constructs one ProtoExporter per call *)\n"
    body += f"Definition exporter_probe_current : bool := {_bool(live_fresh)}.  (* live probe: export, append a port, export again *)\n"
    body += "Definition siprefix_names : list string := [" + "; ".join(map(cstr, siprefixes)) + "].\n"
    body += ("Definition prim_fields : list (string * string * list (string * string * bool * bool)) :=  "
             "(* primitive, type, fields: name, kind, admits None, has default *)\n  [" + ";\n   ".join(
                 f"({cstr(n)}, {cstr(t)}, [" + "; ".join(f"({cstr(a)}, {cstr(k)}, {_bool(o)}, {_bool(d)})" for a, k, o, d in fl) + "])"
                 for n, t, fl in prim_fields) + "].\n")
    body += "Definition enum_values : list (string * list string) :=\n  [" + ";\n   ".join(
        f"({cstr(n)}, [" + "; ".join(map(cstr, vs)) + "])" for n, vs in sorted(enums.items())) + "].\n"
    body += "Definition prim_lookups : list (string * string) :=  (* attribute of hdl21.primitives, name of the Primitive found *)\n  " + _pairs(lookups) + ".\n"
    emit("C11Maps", body)


_run()
