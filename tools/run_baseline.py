#!/venv/bin/python
"""Run the pinned baseline suite on a repo tree (default /repo) and compare with /root/.vp/BASELINE.json."""
import json, subprocess, sys, os, tempfile, xml.etree.ElementTree as ET
repo = sys.argv[1] if len(sys.argv) > 1 else "/repo"
base = set(json.load(open("/root/.vp/BASELINE.json"))["stable_pass"])
fd, path = tempfile.mkstemp(suffix=".xml", dir="/var/tmp"); os.close(fd)
env = dict(os.environ); env.pop("HDL21_VERIF", None)
subprocess.run(["/venv/bin/python", "-m", "pytest", "-q", "-p", "no:cacheprovider", "--timeout=900",
                "--continue-on-collection-errors", f"--junitxml={path}"], cwd=repo, env=env,
               stdout=subprocess.DEVNULL, stderr=subprocess.DEVNULL)
passed = set()
for tc in ET.parse(path).iter("testcase"):
    if not [c for c in tc if c.tag in ("failure", "error", "skipped")]:
        passed.add(tc.get("classname") + "::" + tc.get("name"))
os.unlink(path)
missing = sorted(base - passed)
print(f"baseline {len(base)} passed-now {len(passed)} missing {len(missing)}")
for m in missing: print("  MISSING", m)
sys.exit(1 if missing else 0)
