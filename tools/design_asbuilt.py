#!/usr/bin/env python3
"""Regenerate DESIGN.md section 14 (as-built summary per property) from tools/manifest/*.json, tools/findings/*.json, notes/*.md."""
import json, os, glob, re
V = os.path.dirname(os.path.dirname(os.path.abspath(__file__)))
props = [json.loads(l) for l in open(os.path.join(V, "properties.jsonl"))]
out = []
for p in props:
    pid = p["id"]
    mp = os.path.join(V, "tools", "manifest", pid + ".json")
    out.append(f"### {pid} — {p['title']}\n")
    if not os.path.exists(mp):
        out.append("*not claimed yet (see MANIFEST.not_applicable)*\n")
        continue
    m = json.load(open(mp))
    src = os.path.join(V, "coq", "theories", "Props", pid + ".v")
    extra = os.path.join(V, "coq", "theories", "Props", pid + "B.v")
    names = []
    for f in (src, extra):
        if os.path.exists(f):
            names += re.findall(r"^\s*(?:Theorem|Example)\s+(\w+)", open(f).read(), re.M)
    fx = os.path.join(V, "tools", "findings", pid + ".json")
    fl = json.load(open(fx)) if os.path.exists(fx) else []
    nfix = sorted({e["commit"] for e in fl if e["status"] == "fixed"})
    nfind = [e for e in fl if e["status"] == "finding"]
    out.append(f"**Claim.** {m['text']}\n")
    out.append(f"**Trusted / limits.** {m['note']}\n")
    out.append(f"**Technique.** {m['technique']}. **Statements in Props/{pid}.v:** {len(names)} ({', '.join(names[:40])}{', …' if len(names) > 40 else ''}).\n")
    out.append(f"**Repairs committed to /repo:** {', '.join(nfix) if nfix else 'none'}. **Recorded findings:** {len(nfind)}"
               + (": " + "; ".join(e['key'][:70] for e in nfind[:12]) + (" …" if len(nfind) > 12 else "") if nfind else "") + f". Builder notes: `notes/{pid}.md`.\n")
body = "\n".join(out)
p = os.path.join(V, "DESIGN.md")
s = open(p).read()
a, b = "<!-- ASBUILT-BEGIN -->", "<!-- ASBUILT-END -->"
s = s[:s.index(a) + len(a)] + "\n" + body + "\n" + s[s.index(b):]
open(p, "w").write(s)
print("as-built section:", len(body), "chars")
