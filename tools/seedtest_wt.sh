#!/bin/sh
# tools/seedtest_wt.sh <seeded-dir> [tier]  (like tools/seedtest.sh, but VERIF_ROOT selects the verification tree: for worktrees)
# tools/seedtest.sh <seeded-dir> [tier]  — confirm a seeded change and run the property's check against it.
# Uses a scratch worktree of /repo (never /repo itself), evidence redirected to work/seed-evidence.
# Prints one summary line; writes <seeded-dir>/result.json.
set -u
VR=${VERIF_ROOT:-/verif}
D=$(cd "$1" && pwd); TIER=${2:-quick}
PID=$(/venv/bin/python -c "import json,sys; print(json.load(open('$D/meta.json'))['property'])")
OWNPID=$PID
# SEED_PID=Cyy runs the check of ANOTHER property against this seeded change (recorded as "<tier>@Cyy")
if [ -n "${SEED_PID:-}" ]; then PID=$SEED_PID; fi
WT=/var/tmp/seedwt-$$
git -C /repo worktree add -q --detach $WT HEAD || exit 2
trap 'git -C /repo worktree remove --force $WT >/dev/null 2>&1' EXIT
PP="$WT:$WT/pdks/Sky130:$WT/pdks/Gf180:$WT/pdks/Asap7"
DEMO=$(ls $D/demo* | head -1)
( cd $WT && PYTHONPATH=$PP PYTHONDONTWRITEBYTECODE=1 timeout 300 /venv/bin/python $DEMO >/dev/null 2>&1 ); DC=$?
git -C $WT apply $D/patch.diff 2>/dev/null || { echo "$(basename $D): patch no longer applies to /repo HEAD"; /venv/bin/python -c "
import json,os
p='$D/result.json'; r=json.load(open(p)) if os.path.exists(p) else {}
r['$TIER']=dict(applies=False, repo_head=os.popen('git -C /repo rev-parse --short HEAD').read().strip())
json.dump(r,open(p,'w'),indent=1)"; exit 2; }
( cd $WT && PYTHONPATH=$PP PYTHONDONTWRITEBYTECODE=1 timeout 300 /venv/bin/python $DEMO >/dev/null 2>&1 ); DX=$?
BL=$($VR/tools/run_baseline.py $WT | head -1)
LOG=$VR/work/seed-$(basename $D)-$TIER-$PID.log
PRIV=/var/tmp/seedpriv-$$; mkdir -p $PRIV/work; cp -a $VR/coq $PRIV/coq
( cd $VR && VERIF_COQDIR=$PRIV/coq VERIF_WORK=$PRIV/work VERIF_EVIDENCE_DIR=$VR/work/seed-evidence VERIF_REPO=$WT ./check $PID --tier $TIER > $LOG 2>&1 ); RC=$?
mkdir -p $VR/work/seed-replays/$(basename $D); cp $PRIV/work/$PID/replay-*.json $VR/work/seed-replays/$(basename $D)/ 2>/dev/null; rm -rf $PRIV
V=$(grep -c '^VIOLATION' $LOG); NF=$(grep -c 'no-failing-input-found' $LOG)
echo "$(basename $D) prop=$PID tier=$TIER demo_clean_rc=$DC demo_changed_rc=$DX [$BL] check_rc=$RC violations=$V no_input=$NF"
KEY=$TIER; if [ "$PID" != "$OWNPID" ]; then KEY="$TIER@$PID"; fi
/venv/bin/python - "$D" "$KEY" "$DC" "$DX" "$BL" "$RC" "$V" "$NF" "$LOG" <<'PY'
import json,sys,os
d,tier,dc,dx,bl,rc,v,nf,log=sys.argv[1:]
p=os.path.join(d,"result.json")
r=json.load(open(p)) if os.path.exists(p) else {}
first=[l.strip() for l in open(log) if l.startswith("VIOLATION")][:2]
r[tier]=dict(demo_clean_rc=int(dc),demo_changed_rc=int(dx),baseline=bl,check_rc=int(rc),violation_lines=int(v),no_failing_input_found=int(nf),first=first,
             repo_head=os.popen("git -C /repo rev-parse --short HEAD").read().strip(),verif_head=os.popen("git -C "+os.environ.get("VERIF_ROOT","/verif")+" rev-parse --short HEAD").read().strip())
json.dump(r,open(p,"w"),indent=1)
PY
