"""Helpers shared by the implementation-side drivers (run under /venv/bin/python with PYTHONPATH=<repo>)."""
import sys, json, io, contextlib, warnings
warnings.filterwarnings("ignore")


def main(handler):
    payload = json.loads(sys.stdin.read())
    buf = io.StringIO()
    with contextlib.redirect_stdout(buf):
        out = handler(payload)
    sys.stdout.write(json.dumps(out) + "\n")


def exc_info(e):
    msg = str(e).strip().splitlines()
    return dict(cls=type(e).__name__, msg=(msg[-1] if msg else "")[:300])


def target_flats(pmod, tgt):
    """Read a vlsir ConnectionTarget as a list of [name, sigwidth, bot, top_exclusive] entries, LEAST significant first
    (VLSIR concatenations list the most significant part first, as every vlsirtools netlister writes them)."""
    widths = {s.name: s.width for s in pmod.signals}
    kind = tgt.WhichOneof("stype")
    if kind == "sig":
        return [["sig", tgt.sig, widths.get(tgt.sig, -1)]]
    if kind == "slice":
        s = tgt.slice
        return [["sl", s.signal, widths.get(s.signal, -1), s.bot, s.top + 1]]
    if kind == "concat":
        out = []
        for part in reversed(tgt.concat.parts):
            out.extend(target_flats(pmod, part))
        return out
    raise ValueError(f"unknown target kind {kind}")
