"""C04E implementation driver: the C04 driver (harness/impl/c04.py, re-used as it is) in a world whose leaf module has two more
ports, `c` and `d` (one bit each, a resistor between them).  One-bit ports can be referred to by the MEMBERS of an anonymous
bundle / dict connection of the bundle-valued port `bp` (B{x, y}: one bit each) - histories the C04 world cannot express.
Job format, operations and observations are those of harness/impl/c04.py; job["ports"] lists the port alphabet."""
import os
import hdl21 as h

_src = open(os.path.join(os.path.dirname(os.path.abspath(__file__)), "c04.py")).read()
assert _src.rstrip().endswith("main(handler)")
exec(compile(_src.rstrip()[: -len("main(handler)")], "c04.py", "exec"), globals())      # everything but starting the server


class World2(World):      # noqa: F821  (World comes from c04.py)
    def __init__(self, job):
        super().__init__(job)
        self.leaf.c = h.Port(width=1)
        self.leaf.d = h.Port(width=1)
        self.leaf.r2 = h.R(r=2)(p=self.leaf.c, n=self.leaf.d)


def do2(job):
    out = dict(steps=[], pkg=None, err=None)
    w = World2(job)
    for op in job["ops"]:
        acc, err = True, None
        try:
            w.do(op)
        except Exception as e:
            acc, err = False, exc_info(e)      # noqa: F821
        out["steps"].append(dict(acc=acc, err=err, obs=w.observe()))
    if job.get("export"):
        try:
            out["pkg"] = pkg_json(h.to_proto(w.top))      # noqa: F821
        except Exception as e:
            out["err"] = ["export", exc_info(e)]      # noqa: F821
    return out


def handler2(p):
    return dict(results=[do2(j) for j in p["jobs"]])


main(handler2)      # noqa: F821
