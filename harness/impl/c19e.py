"""C19E implementation driver: the C19 driver (harness/impl/c19.py: builds the unit with the public API, calls
Series / MosStack / Wrapper, exports) with a HISTORY in front of a call.

job = a C19 job, optionally with  "after": [C19 jobs]  - calls made earlier IN THE SAME PROCESS (their results are thrown
away): generator results are cached per process, so what an earlier call on another unit built must not leak into this one.
Every job (with its history) runs in a process of its own shard; nothing here decides what the right answer is.
"""
import common

_main = common.main
common.main = lambda handler: None          # importing the C19 driver must not start its main loop
import c19                                   # noqa: E402
common.main = _main


def handler(p):
    if p.get("kind") == "list":
        return c19.handler(p)
    res = []
    for j in p["jobs"]:
        for before in j.get("after") or []:
            c19.do(before)
        res.append(c19.do({k: v for k, v in j.items() if k != "after"}))
    return dict(results=res)


_main(handler)
