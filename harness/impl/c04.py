"""C04 implementation driver: histories of connection operations on the instances of one module, observed
after every operation, then (optionally) elaborated and exported.

job = dict(kinds=[0|n|-1|-2, ...] per instance: 0 = Instance, n >= 1 = InstanceArray of n, -1 = template Instance that is
                                 never added to the module, -2 = the array `2 * template` made by ["toarray", t, k],
                                 -3 = InstanceBundle (h.Pair)
           ports=[name, ...]     the port-name alphabet (index = port id in the model)
           pool={id: [kind, recipe]}   connectables with an identity (built once, lazily, re-used)
           dicts={id: {member: recipe}} raw Python dicts (connect() wraps them into a new AnonymousBundle)
           ops=[...], export=bool)
ops:  ["call", i, [[p, arg], ...]] | ["set", i, p, arg] | ["connect", i, p, arg] | ["replace", i, p, arg]
      | ["disconnect", i, p] | ["getref", i, p]
arg:  ["obj", id] | ["ref", i, p] | ["dict", newid, dictid] | ["bad", k]
recipe: ["sig", name] | ["sl", recipe, ix] | ["cat", [recipe]] | ["bref", bundle_inst_name, member]
        | ["nc", name|None] | ["bundle", name] | ["anon", {member: recipe}] | ["pref", i, p]  (inst_i.port_p)

observation after each op:
  acc    : the operation returned normally
  conns  : [[i, p, label], ...] instance by instance, in the order of `Instance.conns`
  back   : [[label, [[i, p], ...]], ...]  `_connected_ports` of every connectable the driver knows about
  handed : [[i, p], ...]  keys of `_refs.portrefs`
  unique : every PortRef fetched twice is the same object, and the PortRefs found in back-reference sets
           are the objects `inst.port` returns (when that port's reference has been handed out)
label:  ["obj", kind, id] | ["ref", i, p] | ["unknown", text]
Only public API calls are used to perform the operations; `_connected_ports` and `_refs.portrefs` (named by the
property as the state it is about) are read, never written.
"""
from common import main, exc_info
import hdl21 as h
from designlib import pkg_json, mk_index


@h.bundle
class B:
    x, y = h.Signals(2)


E = h.ExternalModule(name="E", port_list=[h.Port(name="x0", width=2), h.Port(name="x1", width=2)], paramtype=dict)
BAD = [5, None, "s0", 1.5]


class World:
    def __init__(self, job):
        self.job = job
        leaf = h.Module(name="Leaf")
        leaf.a = h.Port(width=2)
        leaf.b = h.Port(width=2)
        leaf.bp = B(port=True)
        leaf.e = E(tag=1)(x0=leaf.a, x1=leaf.b)
        leaf.r = h.R(r=1)(p=leaf.bp.x, n=leaf.bp.y)
        top = h.Module(name="Top")
        top.s0 = h.Signal(width=2)
        top.s1 = h.Signal(width=2)
        top.wide = h.Signal(width=4)
        top.bi0 = B()
        top.bi1 = B()
        self.leaf, self.top = leaf, top
        self.insts = []
        for k, n in enumerate(job["kinds"]):
            if n == -2:                 # the array `2 * template` makes later ("toarray")
                self.insts.append(None)
                continue
            if n == -3:                 # an InstanceBundle (books only: such histories are not exported)
                inst = h.Pair(of=leaf, name=f"i{k}")
                top.add(inst)
                self.insts.append(inst)
                continue
            if n == -1:                 # a template Instance: connected like any other, never added to the module
                self.insts.append(h.Instance(of=leaf))
                continue
            inst = h.InstanceArray(of=leaf, n=n, name=f"i{k}") if n > 0 else h.Instance(of=leaf, name=f"i{k}")
            top.add(inst)
            self.insts.append(inst)
        self.ports = job["ports"]
        self.objs = {}          # pool id -> object
        self.labels = {}        # id(obj) -> label
        self.keep = []          # keep every labelled object alive (ids must stay unique)
        self.refs = {}          # (i, p) -> PortRef the driver fetched
        self.unique = True

    # ------------------------------------------------------------------ building connectables
    def recipe(self, r):
        t = r[0]
        if t == "sig":
            return self.top.get(r[1])
        if t == "sl":
            return self.recipe(r[1])[mk_index(r[2])]
        if t == "cat":
            return h.Concat(*[self.recipe(p) for p in r[1]])
        if t == "bref":
            return getattr(self.top.get(r[1]), r[2])
        if t == "pref":
            return self.ref(r[1], r[2])
        if t == "nc":
            return h.NoConn(name=r[1]) if r[1] is not None else h.NoConn()
        if t == "bundle":
            return self.top.get(r[1])
        if t == "anon":
            return h.AnonymousBundle(**{k: self.recipe(v) for k, v in r[1].items()})
        raise ValueError(t)

    def label(self, obj, lab):
        self.labels[id(obj)] = lab
        self.keep.append(obj)

    def obj(self, oid):
        if oid not in self.objs:
            kind, r = self.job["pool"][str(oid)]
            o = self.recipe(r)
            self.objs[oid] = o
            self.label(o, ["obj", kind, oid])
        return self.objs[oid]

    def ref(self, i, p):
        r = getattr(self.insts[i], self.ports[p])
        if (i, p) in self.refs and self.refs[(i, p)] is not r:
            self.unique = False
        self.refs[(i, p)] = r
        return r

    def arg(self, a):
        if a[0] == "obj":
            return self.obj(a[1])
        if a[0] == "ref":
            return self.ref(a[1], a[2])
        if a[0] == "dict":
            return {k: self.recipe(v) for k, v in self.job["dicts"][str(a[2])].items()}
        if a[0] == "bad":
            return BAD[a[1]]
        if a[0] == "made":
            return [o for o in self.keep if self.labels[id(o)] == ["obj", "anon", a[1]]][0]
        raise ValueError(a)

    # ------------------------------------------------------------------ operations
    def do(self, op):
        t = op[0]
        if t == "getref":
            self.ref(op[1], op[2])
            return None
        if t == "toarray":
            arr = 2 * self.insts[op[1]]
            self.top.add(arr, name=f"i{op[2]}")
            self.insts[op[2]] = arr
            return None
        inst = self.insts[op[1]]
        if t == "call":
            kv = {self.ports[p]: self.arg(a) for p, a in op[2]}
            pending = [(p, a) for p, a in op[2] if a[0] == "dict"]
            try:
                inst(**kv)
            finally:
                self.adopt(inst, pending)
            return None
        name = self.ports[op[2]]
        if t == "disconnect":
            inst.disconnect(name)
            return None
        val = self.arg(op[3])
        pending = [(op[2], op[3])] if op[3][0] == "dict" else []
        try:
            if t == "set":
                setattr(inst, name, val)
            elif t == "connect":
                inst.connect(name, val)
            elif t == "replace":
                inst.replace(name, val)
            else:
                raise ValueError(t)
        finally:
            self.adopt(inst, pending)
        return None

    def adopt(self, inst, pending):
        """Label the AnonymousBundle objects connect() made out of the dicts of this operation."""
        for p, a in pending:
            o = inst.conns.get(self.ports[p], None)
            if o is not None and id(o) not in self.labels and type(o).__name__ == "AnonymousBundle":
                self.label(o, ["obj", "anon", a[1]])

    # ------------------------------------------------------------------ observation
    def lab(self, o):
        if type(o).__name__ == "PortRef":
            try:
                return ["ref", self.inst_index(o.inst), self.ports.index(o.portname)]
            except ValueError:
                return ["unknown", "portref"]
        return self.labels.get(id(o), ["unknown", type(o).__name__])

    def inst_index(self, inst):
        for k, x in enumerate(self.insts):
            if x is inst:
                return k
        raise ValueError("foreign instance")

    def observe(self):
        conns = []
        for i, inst in enumerate(self.insts):
            if inst is None:
                continue
            for pname, o in inst.conns.items():
                conns.append([i, self.ports.index(pname) if pname in self.ports else -1, self.lab(o)])
        known = [self.objs[k] for k in sorted(self.objs)] + \
                [o for o in self.keep if self.labels[id(o)][0] == "obj" and self.labels[id(o)][2] not in self.objs] + \
                [self.refs[k] for k in sorted(self.refs)]
        back = []
        for o in known:
            cp = getattr(o, "_connected_ports", None)
            if cp is None:
                continue
            members = []
            for r in cp:
                try:
                    key = (self.inst_index(r.inst), self.ports.index(r.portname))
                except ValueError:
                    key = (-1, -1)
                if key in self.refs and self.refs[key] is not r:
                    self.unique = False
                members.append(list(key))
            back.append([self.lab(o), sorted(members)])
        handed = []
        for i, inst in enumerate(self.insts):
            if inst is None:
                continue
            for pname in inst._refs.portrefs.keys():
                handed.append([i, self.ports.index(pname) if pname in self.ports else -1])
        return dict(conns=conns, back=back, handed=handed, unique=self.unique)


def do(job):
    out = dict(steps=[], pkg=None, err=None)
    w = World(job)
    for op in job["ops"]:
        acc, err = True, None
        try:
            w.do(op)
        except Exception as e:
            acc, err = False, exc_info(e)
        out["steps"].append(dict(acc=acc, err=err, obs=w.observe()))
    if job.get("export"):
        try:
            out["pkg"] = pkg_json(h.to_proto(w.top))
        except Exception as e:
            out["err"] = ["export", exc_info(e)]
    return out


def handler(p):
    return dict(results=[do(j) for j in p["jobs"]])


main(handler)
