"""C07E implementation driver: ONE call history over a CORE-FRAGMENT design (harness/vp/design.py JSON, built with
designlib.Builder through the public API) per child process forked right after `import hdl21` (no hdl21 object exists
yet: the child has the state of a fresh interpreter), or per interpreter (mode "direct").

job: {"design": <design JSON>, "ops": [[kind, tops], ...]}
  ops: ["E", tops] h.elaborate(list) | ["P", [t]] h.to_proto(module t) | ["N", tops] h.elaborate(list); h.netlist(list, spice)
result per call: {"ok": bool, "err": {...}|None, "pkg": package JSON (P calls that returned)}
With "log": true in the job the default passes are replaced by logging subclasses (public set_elaborator API) and every call
also reports the (pass class, module index) bodies it ran - used by the failure-point stream of C08E.
"""
import os, json, io as _io
from common import main, exc_info
import hdl21 as h
from designlib import Builder, pkg_json


class Log:
    entries = []
    ids = {}


def install_logging():
    default = h.elab.Elaborator.default()
    subs = {}

    def mk(cls):
        def elaborate_module(self, module):
            Log.entries.append([cls.__name__, Log.ids.get(id(module), -1), "start"])
            r = super(sub, self).elaborate_module(module)
            Log.entries[-1][2] = "done"
            return r
        sub = type("Log" + cls.__name__, (cls,), dict(elaborate_module=elaborate_module))
        return sub
    passes = []
    for cls in default.passes:
        if cls not in subs:
            subs[cls] = mk(cls)
        passes.append(subs[cls])
    h.elab.set_elaborator(h.elab.Elaborator(passes=passes))
    return [c.__name__ for c in default.passes]


def run_job(job):
    out = dict(calls=[], build=None, passes=None)
    if job.get("log"):
        out["passes"] = install_logging()
    try:
        b = Builder(job["design"])
        b.build()
    except Exception as e:
        out["build"] = exc_info(e)
        return out
    Log.ids = {id(m): k for k, m in enumerate(b.mods)}
    for kind, tops in job["ops"]:
        rec = dict(ok=True, err=None, pkg=None)
        n0 = len(Log.entries)
        try:
            mods = [b.mods[t] for t in tops]
            if kind == "E":
                r = h.elaborate(mods)
                rec["same"] = len(r) == len(mods) and all(x is y for x, y in zip(r, mods))
            elif kind == "P":
                rec["pkg"] = pkg_json(h.to_proto(mods[0]))
            elif kind == "N":
                # the verdict compared with the model is the one of the elaboration h.netlist starts with; what the netlister
                # itself refuses afterwards (e.g. a physical primitive no PDK compiled) is recorded, not compared
                h.elaborate(mods)
                try:
                    dest = _io.StringIO()
                    h.netlist(mods, dest=dest, fmt="spice")
                except Exception as e:
                    rec["netlister"] = exc_info(e)
            else:
                raise ValueError(kind)
        except Exception as e:
            rec = dict(ok=False, err=exc_info(e), pkg=None)
        if job.get("log"):
            rec["log"] = Log.entries[n0:]
        out["calls"].append(rec)
    return out


def handler(payload):
    jobs = payload["jobs"]
    if payload.get("mode", "fork") == "direct":
        return dict(results=[run_job(j) for j in jobs])
    results = []
    for j in jobs:
        r, w = os.pipe()
        pid = os.fork()
        if pid == 0:
            try:
                os.close(r)
                data = json.dumps(run_job(j))
                with os.fdopen(w, "w") as f:
                    f.write(data)
            except BaseException as e:     # report, never fall back into the parent's loop
                try:
                    with os.fdopen(w, "w") as f:
                        f.write(json.dumps(dict(crash=repr(e)[:500])))
                except Exception:
                    pass
            finally:
                os._exit(0)
        os.close(w)
        with os.fdopen(r) as f:
            data = f.read()
        os.waitpid(pid, 0)
        results.append(json.loads(data) if data else dict(crash="no output"))
    return dict(results=results)


if __name__ == "__main__":
    main(handler)
