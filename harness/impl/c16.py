"""C16 implementation driver: build the abstract design with the public API, elaborate, export the hierarchy,
call hdl21.flatten.flatten, export what it returns.  Only packages (and the accepted/rejected class) leave this process."""
from common import main, exc_info
import hdl21 as h
from hdl21.flatten import flatten
from designlib import Builder, pkg_json

EMPTY = dict(domain="", exts=[], mods=[])


def do(job):
    out = dict(hpkg=None, htop=None, fpkg=None, ftop=None, err=None, ferr=None, same=None)
    try:
        top = Builder(job["design"]).build()
        h.elaborate(top)
        pk = h.to_proto(top)
        out["hpkg"] = pkg_json(pk)
        out["htop"] = pk.modules[-1].name
    except Exception as e:
        out["err"] = exc_info(e)
        return out
    try:
        f = flatten(top)
    except Exception as e:
        out["ferr"] = exc_info(e)
        return out
    out["same"] = f is top
    try:
        fpk = h.to_proto(f)
        out["fpkg"] = pkg_json(fpk)
        out["ftop"] = fpk.modules[-1].name
    except Exception as e:
        # flatten returned a module that cannot even be exported: "flattened wrongly"
        out["fpkg"], out["ftop"], out["ferr"] = EMPTY, "?", dict(stage="export-of-flattened", **exc_info(e))
    return out


def handler(p):
    return dict(results=[do(j) for j in p["jobs"]])


main(handler)
