"""C09 implementation driver: runs generator-call histories against the real hdl21, one process per history.

The parent imports hdl21 once and forks a child per history, so every history starts from the state of a
freshly imported package (empty generator cache) and cannot influence another one.  Shards are separate
interpreters started with different PYTHONHASHSEEDs.

payload: {"jobs": [ {"univ": [...], "table": [...], "calls": [...], "builtin": bool} ]}
result per job: {"obs": [["acc", mid, name] | ["rej", cls]], "final": [[mid, name, export_name]],
                 "runs": [[gen, [V...]]], "exported": bool, "export_err": str|None}
"""
import os, sys, json, enum, traceback
from typing import Optional, Union
from common import main, exc_info
import hdl21 as h


# ------------------------------------------------------------------------------------------------
# building the universe (inside the child)
# ------------------------------------------------------------------------------------------------
class Universe:
    def __init__(self, spec):
        self.spec = spec
        self.enums = {}
        self.recs = {}
        self.refs = None
        self.runs = []
        self.classes = []
        self.gens = []
        self.table = []
        for gi, g in enumerate(spec["univ"]):
            self.classes.append(self.paramclass(f"P{gi}", g["fields"]))
        for gi, g in enumerate(spec["univ"]):
            self.gens.append(self.generator(gi, g))
        for e in spec["table"]:
            self.table.append(dict(gen=e["gen"], params=None, spec=e))

    # reference-valued parameters: a fixed pool of distinctly named objects
    def ref(self, i):
        if self.refs is None:
            m0 = h.Module(name="RefA"); m0.p = h.Port()
            m1 = h.Module(name="RefB"); m1.p = h.Port()

            @h.generator
            def RefGen(p: h.HasNoParams) -> h.Module:
                return h.Module()

            x = h.ExternalModule(name="RefExt", port_list=[h.Port(name="p")])
            self.refs = [m0, m1, RefGen, x]
        return self.refs[i % len(self.refs)]

    def pytype(self, d):
        t = d[0]
        if t == "int":
            return int
        if t == "float":
            return float
        if t == "str":
            return str
        if t == "bool":
            return bool
        if t == "opt":
            return Optional[self.pytype(d[1])]
        if t == "enum":
            n = d[1]
            if n not in self.enums:
                self.enums[n] = enum.Enum(f"E{n}", {f"M{i}": f"m{i}" for i in range(n)})
            return self.enums[n]
        if t == "ref":
            return Union[h.Module, h.Generator, h.ExternalModule]
        if t == "rec":
            key = json.dumps(d)
            if key not in self.recs:
                fields = [dict(name=f"r{i}", dtype=dd, default=None) for i, dd in enumerate(d[1])]
                self.recs[key] = self.paramclass(f"R{len(self.recs)}", fields)
            return self.recs[key]
        raise ValueError(d)

    def paramclass(self, name, fields):
        ns = {}
        for f in fields:
            kw = dict(dtype=self.pytype(f["dtype"]), desc=f["name"])
            if f.get("default") is not None:
                kw["default"] = self.value(f["dtype"], f["default"])
            ns[f["name"]] = h.Param(**kw)
        return h.paramclass(type(name, (), ns))

    # a value as the caller writes it
    def value(self, d, v):
        t = v[0]
        if t == "n":
            return None
        if t == "i":
            return int(v[1])
        if t == "f":
            return float(v[1])
        if t == "s":
            return v[1]
        if t == "b":
            return bool(v[1])
        if t == "e":
            while d[0] == "opt":
                d = d[1]
            if d[0] != "enum":
                return enum.Enum("Other", {"Z": "z"}).Z      # an enum member where none is expected
            cls = self.pytype(d)
            member = list(cls)[v[1]] if v[1] < len(cls) else enum.Enum("Other", {"Z": "z"}).Z
            return member.value if (len(v) > 2 and v[2] == "value") else member
        if t == "r":
            return self.ref(v[1])
        if t == "R":
            while d[0] == "opt":
                d = d[1]
            if d[0] != "rec":
                return {"bogus": 1}
            sub = {f"r{i}": self.value(dd, vv) for i, (dd, vv) in enumerate(zip(d[1], v[1]))}
            if len(v[1]) != len(d[1]):
                sub["extra_field"] = 1
            if len(v) > 2 and v[2] == "dict":
                return sub
            return self.pytype(d)(**sub)
        raise ValueError(v)

    def kwargs(self, gi, args):
        fields = self.spec["univ"][gi]["fields"]
        kw = {}
        for k, (f, a) in enumerate(zip(fields, args)):
            if a is not None:
                kw[f["name"]] = self.value(f["dtype"], a)
        for k in range(len(fields), len(args)):
            if args[k] is not None:
                kw[f"extra{k}"] = 1
        return kw

    # the validated value, read back field by field
    def encode(self, d, x):
        t = d[0]
        if t == "opt":
            return ["n"] if x is None else self.encode(d[1], x)
        if t == "int" and type(x) is int:
            return ["i", x]
        if t == "float" and type(x) is float:
            return ["f", repr(x)]
        if t == "str" and type(x) is str:
            return ["s", x]
        if t == "bool" and type(x) is bool:
            return ["b", x]
        if t == "enum" and isinstance(x, enum.Enum):
            return ["e", list(type(x)).index(x)]
        if t == "ref":
            for i in range(4):
                if self.ref(i) is x:
                    return ["r", i]
        if t == "rec":
            return ["R", [self.encode(dd, getattr(x, f"r{i}")) for i, dd in enumerate(d[1])]]
        return ["?", repr(x)[:80]]

    def encode_params(self, gi, p):
        return [self.encode(f["dtype"], getattr(p, f["name"])) for f in self.spec["univ"][gi]["fields"]]

    def call(self, c):
        gi, args = c[0], c[1]
        form = c[2] if len(c) > 2 else "kw"
        g = self.gens[gi]
        kw = self.kwargs(gi, args)
        if form == "inst":
            return g(self.classes[gi](**kw))
        return g(**kw)

    def entry_for(self, gi, params):
        for e in self.table:
            if e["gen"] != gi:
                continue
            if e["params"] is None:
                try:
                    e["params"] = self.classes[gi](**self.kwargs(gi, e["spec"]["args"]))
                except Exception:
                    e["params"] = False
            if e["params"] is not False and e["params"] == params:
                return e["spec"]
        return None

    def generator(self, gi, g):
        cls = self.classes[gi]
        uni = self

        def body(params: cls) -> h.Module:
            uni.runs.append([gi, uni.encode_params(gi, params)])
            e = uni.entry_for(gi, params)
            if e is None:
                m = h.Module()
                m.x = h.Signal()
                return m
            results = [uni.call(c) for c in e["calls"]]
            if e["ret"][0] == "fresh":
                m = h.Module(name=e["ret"][1]) if e["ret"][1] is not None else h.Module()
                m.x = h.Signal()
                return m
            return results[e["ret"][1]]

        body.__name__ = g["name"]
        body.__qualname__ = g["name"]
        return h.generator(body)


# the built-in MosStack -> Series -> Wrapper path, expressed over the same observations:
# generator 0 = Series(unit=Mos(), conns=("d","s"), nser), generator 1 = MosStack(nser)
class Builtin:
    def __init__(self, spec):
        from hdl21.generators import Series, MosStack
        self.runs = []
        # observation only: count the executions of the two bodies
        for gi, g in enumerate([Series, MosStack]):
            def counted(params, f=g.func, gi=gi):
                self.runs.append([gi, [["i", params.nser]]])
                return f(params)
            counted.__name__ = g.func.__name__
            g.func = counted

    def call(self, c):
        from hdl21.generators import Series, MosStack
        gi, args = c[0], c[1]
        nser = int(args[0][1])
        form = c[2] if len(c) > 2 else "kw"
        if gi == 0:
            kw = dict(unit=h.primitives.Mos(), conns=("d", "s"), nser=nser)
            return Series(Series.Params(**kw)) if form == "inst" else Series(**kw)
        return MosStack(MosStack.Params(nser=nser)) if form == "inst" else MosStack(nser=nser)


def run_history(job):
    uni = Builtin(job) if job.get("builtin") else Universe(job)
    obs, mods, ids = [], [], {}
    for c in job["calls"]:
        try:
            m = uni.call(c)
        except BaseException as e:
            obs.append(["rej", type(e).__name__, str(e)[:200]])
            break
        if id(m) not in ids:
            ids[id(m)] = len(mods)
            mods.append(m)
        obs.append(["acc", ids[id(m)], m.name])
    final = [[i, m.name, ""] for i, m in enumerate(mods)]
    exported, err = False, None
    if mods and obs[-1][0] == "acc":
        try:
            pkg = h.to_proto(list(mods))
            names = [pm.name for pm in pkg.modules]
            if job.get("builtin"):
                # built-in modules have sub-modules / primitives: find each by its qualified name suffix
                for i, m in enumerate(mods):
                    hit = [n for n in names if n.endswith("." + m.name) or n == m.name]
                    final[i][2] = hit[0] if len(hit) == 1 else f"<{len(hit)} package modules named {m.name}>"
            else:
                if len(names) != len(mods):
                    raise RuntimeError(f"package has {len(names)} modules for {len(mods)} exported ones")
                for i in range(len(mods)):
                    final[i][2] = names[i]
            exported = True
        except BaseException as e:
            err = f"{type(e).__name__}: {str(e)[:200]}"
    return dict(obs=obs, final=final, runs=uni.runs, exported=exported, export_err=err)


def in_child(job):
    r, w = os.pipe()
    pid = os.fork()
    if pid == 0:
        code = 0
        try:
            os.close(r)
            try:
                out = run_history(job)
            except BaseException as e:
                out = dict(driver_error=traceback.format_exc()[-1500:])
            with os.fdopen(w, "w") as f:
                f.write(json.dumps(out))
        except BaseException:
            code = 1
        os._exit(code)
    os.close(w)
    with os.fdopen(r) as f:
        data = f.read()
    os.waitpid(pid, 0)
    if not data:
        return dict(driver_error="child produced no output")
    return json.loads(data)


def handler(p):
    from hdl21.generator import Generator
    import hdl21.generators  # noqa: F401  (so that the built-in stream does not import inside the child)
    assert len(Generator.Cache.done) == 0 and len(Generator.Cache.pending) == 0
    return dict(results=[in_child(j) for j in p["jobs"]])


main(handler)
