"""C09 implementation driver: runs generator-call histories against the real hdl21, one process per history.

The parent imports hdl21 once and forks a child per history, so every history starts from the state of a
freshly imported package (empty generator cache) and cannot influence another one.  Shards are separate
interpreters started with different PYTHONHASHSEEDs.

payload: {"jobs": [ {"univ": [...], "table": [...], "calls": [...], "builtin": bool} ]}
result per job: {"obs": [["acc", mid, name] | ["rej", cls]], "final": [[mid, name, export_name]],
                 "runs": [[gen, [V...]]], "exported": bool, "export_err": str|None}
"""
import os, sys, json, enum, traceback
from decimal import Decimal
from typing import Optional, Union
from common import main, exc_info
import hdl21 as h
from hdl21.prefix import Prefix, Prefixed
from hdl21.external_module import ExternalModuleCall
from hdl21.primitives import PrimitiveCall

# number of referenced objects of the `ref` pool (see Universe.ref)
NREF = 16
# number of UNHASHABLE values (lists, dicts, sets) of the `mut` pool (see Universe.mut)
NMUT = 8
# number of objects WITHOUT a JSON form of the `obj` pool (see Universe.obj)
NOBJ = 15


class UObj:
    """base of the user types whose instances are handed over as parameter values"""


class Plain(UObj):
    """compared by identity, default repr (which holds the address)"""


class Corner(UObj):
    """a value type: equal and hashed by value, default repr"""

    def __init__(self, name, temp):
        self.name, self.temp = name, temp

    def __eq__(self, other):
        return type(other) is type(self) and (self.name, self.temp) == (other.name, other.temp)

    def __hash__(self):
        return hash((self.name, self.temp))


class Lossy(Corner):
    """a value type whose repr does not tell its values apart"""

    def __repr__(self):
        return "<corner>"


class WithMethod(UObj):
    def meth(self):
        return 1


def dec_tuple(d):
    """(sign, coefficient as text, exponent) of a finite Decimal"""
    sign, digits, exp = d.as_tuple()
    return [sign, "".join(str(x) for x in digits) or "0", exp]


# ------------------------------------------------------------------------------------------------
# building the universe (inside the child)
# ------------------------------------------------------------------------------------------------
class Universe:
    def __init__(self, spec):
        self.spec = spec
        self.enums = {}
        self.recs = {}
        self.refs = None
        self.objs = {}
        self.runs = []
        self.classes = []
        self.gens = []
        self.table = []
        for gi, g in enumerate(spec["univ"]):
            self.classes.append(self.paramclass(f"P{gi}", g["fields"]))
        for gi, g in enumerate(spec["univ"]):
            self.gens.append(self.generator(gi, g))
        for e in spec["table"]:
            self.table.append(dict(gen=e["gen"], params=None, spec=e))

    # reference-valued parameters: a fixed pool of distinctly named objects.  0-3 and 8 are compared by identity;
    # 4-7 and 9 are CALLS (PrimitiveCall / ExternalModuleCall), which compare by value: every variant of one index is a
    # separately built object holding the same parameter value written differently
    def ref(self, i, variant=0):
        from hdl21.prefix import K, UNIT, m as MILLI
        if self.refs is None:
            m0 = h.Module(name="RefA"); m0.p = h.Port()
            m1 = h.Module(name="RefB"); m1.p = h.Port()

            @h.generator
            def RefGen(p: h.HasNoParams) -> h.Module:
                return h.Module()

            x = h.ExternalModule(name="RefExt", port_list=[h.Port(name="p")])

            @h.paramclass
            class XP:
                r = h.Param(dtype=h.Scalar, desc="r", default=1 * K)

            self.xp = h.ExternalModule(name="RefExtP", port_list=[h.Port(name="p")], paramtype=XP)

            @h.paramclass
            class GP:
                a = h.Param(dtype=int, desc="a", default=1)

            @h.generator
            def RefGenP(p: GP) -> h.Module:
                mm = h.Module()
                mm.p = h.Port()
                return mm

            # building this module must not be observed as a body run of the universe
            self.refs = {0: m0, 1: m1, 2: RefGen, 3: x, 8: RefGenP(a=1)}
        i = i % NREF
        if i in self.refs:
            return self.refs[i]
        Mos, R = h.primitives.Mos, h.primitives.IdealResistor
        FS = frozenset
        spell = {
            # sets of sets, sets whose members have equal str(): equal values built in other orders
            12: lambda: [FS([FS(["a", "b"]), FS(["c", "d", "e"]), FS(["f"])]), FS([FS(["f"]), FS(["e", "d", "c"]), FS(["b", "a"])]),
                         FS([FS(["d", "c", "e"]), FS(["f"]), FS(["a", "b"])])],
            13: lambda: [FS([1, "1", 2, "2"]), FS(["2", 2, "1", 1]), FS(["1", "2", 1, 2])],
            14: lambda: [FS([FS([FS(["p", "q"]), FS(["r"])]), FS([FS(["s", "t", "u"])])]), FS([FS([FS(["u", "t", "s"])]), FS([FS(["r"]), FS(["q", "p"])])])],
            15: lambda: [FS([FS([1, "1"]), FS(["x", "y"])]), FS([FS(["y", "x"]), FS(["1", 1])])],
            # sets: equal values built in other orders (their iteration order also depends on the interpreter's hash seed)
            10: lambda: [frozenset(["alpha", "beta", "gamma", "delta"]), frozenset(["delta", "gamma", "beta", "alpha"]),
                         frozenset(["gamma", "alpha", "delta", "beta", "alpha"])],
            11: lambda: [frozenset(["alpha", "beta"]), frozenset(["beta", "alpha"])],
            4: lambda: [Mos(w=2 * K), Mos(w=2000 * UNIT), Mos(w="2.000e3"), Mos(w=Prefixed.new(2000000, MILLI))],
            5: lambda: [Mos(w=1 * K), Mos(w=1000), Mos(w=Decimal("1.0e3"))],
            6: lambda: [self.xp(r=2 * K), self.xp(r=2000 * UNIT), self.xp(r=2000.0)],
            7: lambda: [self.xp(r=3), self.xp(r="3.0"), self.xp(r=Prefixed.new(3000, MILLI))],
            9: lambda: [R(r=2 * K), R(r=2000), R(r="2e3")],
        }[i]()
        return spell[variant % len(spell)]

    # parameter values that have no JSON form.  Built on demand inside the child, so that their addresses depend on what
    # the history did before.  0, 1, 2, 5, 6, 7, 11 are compared by identity (one object per interpreter); 3, 4, 8, 9, 10
    # by VALUE: every variant of one index is a separately built, equal object (8 and 9 are unequal, with one repr text)
    OBJ_KIND = {0: "function", 1: "lambda", 2: "user_object", 3: "user_value_object", 4: "user_value_object", 5: "instance",
                6: "builtin", 7: "partial", 8: "lossy_repr_object", 9: "lossy_repr_object", 10: "bound_method", 11: "class",
                12: "lambda", 13: "closure", 14: "closure"}
    # 1 and 12 are two different lambdas, 13 and 14 two different functions made by one `def` (one qualified name each pair)

    def obj(self, i, variant=0):
        import functools
        i = i % NOBJ
        key = (i, variant) if i in (3, 4, 8, 9, 10) else (i, 0)
        if key in self.objs:
            return self.objs[key]
        if i == 0:
            def f0():
                return 0
            x = f0
        elif i == 1:
            x = lambda: 1
        elif i == 2:
            x = Plain()
        elif i == 3:
            x = Corner("tt", 25)
        elif i == 4:
            x = Corner("ff", -40)
        elif i == 5:
            x = self.ref(0)()           # an Instance of module RefA
        elif i == 6:
            x = len
        elif i == 7:
            x = functools.partial(max, 1)
        elif i == 8:
            x = Lossy("a", 1)
        elif i == 9:
            x = Lossy("b", 2)
        elif i == 10:
            if "wm" not in self.objs:
                self.objs["wm"] = WithMethod()
            x = self.objs["wm"].meth    # a new bound-method object at every access; they compare equal
        elif i == 11:
            x = Plain
        elif i == 12:
            x = lambda: 2
        else:
            def make(k):
                def scaled(v):
                    return k * v
                return scaled
            x = make(i)
        self.objs[key] = x
        return x

    # UNHASHABLE parameter values: lists, dicts, sets (compared by value; every variant is a separately built, equal container)
    MUT_KIND = {0: "list", 1: "list", 2: "dict", 3: "set", 4: "list_of_lists", 5: "list", 6: "dict", 7: "set"}

    def mut(self, i, variant=0):
        i = i % NMUT
        spell = {
            0: lambda: [[1, 2, 4], list((1, 2, 4)), [1] + [2, 4]],
            1: lambda: [[1, 2], list(range(1, 3))],
            2: lambda: [{"a": 1, "b": 2}, {"b": 2, "a": 1}, dict([("a", 1), ("b", 2)])],
            3: lambda: [{"alpha", "beta", "gamma"}, set(["gamma", "beta", "alpha"]), {"beta"} | {"alpha", "gamma"}],
            4: lambda: [[[1], [2, 3]], [[1]] + [[2, 3]]],
            5: lambda: [[], list()],
            6: lambda: [{"a": 1}, dict(a=1)],
            7: lambda: [{"alpha"}, set(["alpha"])],
        }[i]()
        return spell[variant % len(spell)]

    def mut_index(self, x):
        for i in range(NMUT):
            y = self.mut(i)
            if type(y) is type(x) and y == x:
                return i
        return None

    def obj_index(self, x):
        for k, y in self.objs.items():
            if k != "wm" and y is x:
                return k[0]
        for i in (3, 4, 8, 9, 10):
            y = self.obj(i)
            if type(y) is type(x) and y == x:
                return i
        return None

    def ref_index(self, x):
        for i in (0, 1, 2, 3, 8):
            if self.ref(i) is x:
                return i
        for i in (4, 5, 6, 7, 9, 10, 11, 12, 13, 14, 15):
            y = self.ref(i)
            if type(y) is type(x) and y == x:
                return i
        return None

    def pytype(self, d):
        t = d[0]
        if t == "int":
            return int
        if t == "float":
            return float
        if t == "str":
            return str
        if t == "bool":
            return bool
        if t == "opt":
            return Optional[self.pytype(d[1])]
        if t == "enum":
            n = d[1]
            if n not in self.enums:
                self.enums[n] = enum.Enum(f"E{n}", {f"M{i}": f"m{i}" for i in range(n)})
            return self.enums[n]
        if t == "ref":
            from typing import FrozenSet
            from typing import Any
            return Union[h.Module, h.Generator, h.ExternalModule, ExternalModuleCall, PrimitiveCall, FrozenSet[str],
                         FrozenSet[FrozenSet[str]], FrozenSet[Any]]
        if t == "mut":
            from typing import List, Dict, Set
            return Union[List[int], Dict[str, int], Set[str], List[List[int]]]
        if t == "scalar":
            return h.Scalar
        if t == "pref":
            return h.Prefixed
        if t == "dec":
            return Decimal
        if t == "obj":
            # arbitrary types (isinstance checks; Callable alone would also let Modules and Generators in)
            import types, functools
            from typing import Type
            return Union[types.FunctionType, types.BuiltinFunctionType, types.MethodType, functools.partial, UObj, Type[UObj], h.Instance]
        if t == "rec":
            key = json.dumps(d)
            if key not in self.recs:
                fields = [dict(name=f"r{i}", dtype=dd, default=None) for i, dd in enumerate(d[1])]
                self.recs[key] = self.paramclass(f"R{len(self.recs)}", fields)
            return self.recs[key]
        raise ValueError(d)

    def paramclass(self, name, fields):
        ns = {}
        for f in fields:
            kw = dict(dtype=self.pytype(f["dtype"]), desc=f["name"])
            if f.get("default") is not None:
                kw["default"] = self.value(f["dtype"], f["default"])
            ns[f["name"]] = h.Param(**kw)
        return h.paramclass(type(name, (), ns))

    # a value as the caller writes it
    def value(self, d, v):
        t = v[0]
        if t == "n":
            return None
        if t == "i":
            return int(v[1])
        if t == "f":
            return float(v[1])
        if t == "s":
            return v[1]
        if t == "b":
            return bool(v[1])
        if t == "e":
            while d[0] == "opt":
                d = d[1]
            if d[0] != "enum":
                return enum.Enum("Other", {"Z": "z"}).Z      # an enum member where none is expected
            cls = self.pytype(d)
            member = list(cls)[v[1]] if v[1] < len(cls) else enum.Enum("Other", {"Z": "z"}).Z
            return member.value if (len(v) > 2 and v[2] == "value") else member
        if t == "r":
            return self.ref(v[1], v[2] if len(v) > 2 else 0)
        if t == "o":
            return self.obj(v[1], v[2] if len(v) > 2 else 0)
        if t == "m":
            return self.mut(v[1], v[2] if len(v) > 2 else 0)
        if t == "P":        # Prefixed(number=Decimal(text), prefix): three equivalent constructions
            num, pre = Decimal(v[1]), Prefix(v[2])
            form = v[3] if len(v) > 3 else "new"
            if form == "mul":
                return num * pre
            if form == "ctor":
                return Prefixed(number=num, prefix=pre)
            return Prefixed.new(num, pre)
        if t == "D":
            return Decimal(v[1])
        if t == "L":
            return h.Literal(v[1])
        if t == "R":
            while d[0] == "opt":
                d = d[1]
            if d[0] != "rec":
                return {"bogus": 1}
            sub = {f"r{i}": self.value(dd, vv) for i, (dd, vv) in enumerate(zip(d[1], v[1]))}
            if len(v[1]) != len(d[1]):
                sub["extra_field"] = 1
            if len(v) > 2 and v[2] == "dict":
                return sub
            return self.pytype(d)(**sub)
        raise ValueError(v)

    def kwargs(self, gi, args):
        fields = self.spec["univ"][gi]["fields"]
        kw = {}
        for k, (f, a) in enumerate(zip(fields, args)):
            if a is not None:
                kw[f["name"]] = self.value(f["dtype"], a)
        for k in range(len(fields), len(args)):
            if args[k] is not None:
                kw[f"extra{k}"] = 1
        return kw

    # the validated value, read back field by field
    def encode(self, d, x):
        t = d[0]
        if t == "opt":
            return ["n"] if x is None else self.encode(d[1], x)
        if t == "int" and type(x) is int:
            return ["i", x]
        if t == "float" and type(x) is float:
            return ["f", repr(x)]
        if t == "str" and type(x) is str:
            return ["s", x]
        if t == "bool" and type(x) is bool:
            return ["b", x]
        if t == "enum" and isinstance(x, enum.Enum):
            return ["e", list(type(x)).index(x)]
        if t == "ref":
            i = self.ref_index(x)
            if i is not None:
                return ["r", i]
        if t in ("scalar", "pref") and type(x) is Prefixed and x.number.is_finite():
            return ["Pw"] + dec_tuple(x.number) + [x.prefix.value]
        if t == "scalar" and type(x) is h.Literal:
            return ["L", x.text]
        if t == "dec" and type(x) is Decimal and x.is_finite():
            return ["Dw"] + dec_tuple(x)
        if t == "obj":
            i = self.obj_index(x)
            if i is not None:
                return ["o", i]
        if t == "mut":
            i = self.mut_index(x)
            if i is not None:
                return ["m", i]
        if t == "rec":
            return ["R", [self.encode(dd, getattr(x, f"r{i}")) for i, dd in enumerate(d[1])]]
        return ["?", repr(x)[:80]]

    def encode_params(self, gi, p):
        return [self.encode(f["dtype"], getattr(p, f["name"])) for f in self.spec["univ"][gi]["fields"]]

    def call(self, c):
        gi, args = c[0], c[1]
        form = c[2] if len(c) > 2 else "kw"
        g = self.gens[gi]
        kw = self.kwargs(gi, args)
        if form == "inst":
            return g(self.classes[gi](**kw))
        return g(**kw)

    def entry_for(self, gi, params):
        for e in self.table:
            if e["gen"] != gi:
                continue
            if e["params"] is None:
                try:
                    e["params"] = self.classes[gi](**self.kwargs(gi, e["spec"]["args"]))
                except Exception:
                    e["params"] = False
            if e["params"] is not False and self.same(e["params"], params):
                return e["spec"]
        return None

    @staticmethod
    def same(p, q):
        # the driver's own table lookup: Prefixed.__eq__ raises on a Literal (a Scalar field may hold either) and
        # PrimitiveCall / ExternalModuleCall.__eq__ raise on objects of another kind - such parameter sets are not equal
        try:
            return bool(p == q)
        except (RuntimeError, AttributeError):
            return False

    def generator(self, gi, g):
        cls = self.classes[gi]
        uni = self

        def body(params: cls) -> h.Module:
            uni.runs.append([gi, uni.encode_params(gi, params)])
            e = uni.entry_for(gi, params)
            if e is None:
                m = h.Module()
                m.x = h.Signal()
                return m
            results = [uni.call(c) for c in e["calls"]]
            if e["ret"][0] == "fresh":
                m = h.Module(name=e["ret"][1]) if e["ret"][1] is not None else h.Module()
                m.x = h.Signal()
                return m
            return results[e["ret"][1]]

        body.__name__ = g["name"]
        body.__qualname__ = g["name"]
        return h.generator(body)


# the built-in MosStack -> Series -> Wrapper path, expressed over the same observations:
# generator 0 = Series(unit=Mos(), conns=("d","s"), nser), generator 1 = MosStack(nser)
class Builtin:
    def __init__(self, spec):
        from hdl21.generators import Series, MosStack
        self.runs = []
        # observation only: count the executions of the two bodies
        for gi, g in enumerate([Series, MosStack]):
            def counted(params, f=g.func, gi=gi):
                self.runs.append([gi, [["i", params.nser]]])
                return f(params)
            counted.__name__ = g.func.__name__
            g.func = counted

    def call(self, c):
        from hdl21.generators import Series, MosStack
        gi, args = c[0], c[1]
        nser = int(args[0][1])
        form = c[2] if len(c) > 2 else "kw"
        if gi == 0:
            kw = dict(unit=h.primitives.Mos(), conns=("d", "s"), nser=nser)
            return Series(Series.Params(**kw)) if form == "inst" else Series(**kw)
        return MosStack(MosStack.Params(nser=nser)) if form == "inst" else MosStack(nser=nser)


def run_history(job):
    # shift the heap by an amount of the harness' choosing: addresses differ between the interpreters of one group
    ballast = [object() for _ in range(int(job.get("ballast", 0)))]
    uni = Builtin(job) if job.get("builtin") else Universe(job)
    obs, mods, ids = [], [], {}
    for c in job["calls"]:
        try:
            m = uni.call(c)
        except BaseException as e:
            # the caller catches the exception and goes on (a notebook cell run again, a try / except fallback)
            obs.append(["rej", type(e).__name__, str(e)[:200]])
            continue
        if id(m) not in ids:
            ids[id(m)] = len(mods)
            mods.append(m)
        obs.append(["acc", ids[id(m)], m.name])
    final = [[i, m.name, ""] for i, m in enumerate(mods)]
    exported, err = False, None
    from hdl21.generator import Generator
    cache = dict(pending=len(Generator.Cache.pending), stack=len(Generator.Cache.stack))
    if mods:
        try:
            pkg = h.to_proto(list(mods))
            names = [pm.name for pm in pkg.modules]
            if job.get("builtin"):
                # built-in modules have sub-modules / primitives: find each by its qualified name suffix
                for i, m in enumerate(mods):
                    hit = [n for n in names if n.endswith("." + m.name) or n == m.name]
                    final[i][2] = hit[0] if len(hit) == 1 else f"<{len(hit)} package modules named {m.name}>"
            else:
                if len(names) != len(mods):
                    raise RuntimeError(f"package has {len(names)} modules for {len(mods)} exported ones")
                for i in range(len(mods)):
                    final[i][2] = names[i]
            exported = True
        except BaseException as e:
            err = f"{type(e).__name__}: {str(e)[:200]}"
    del ballast
    return dict(obs=obs, final=final, runs=uni.runs, exported=exported, export_err=err, cache=cache)


def in_child(job):
    r, w = os.pipe()
    pid = os.fork()
    if pid == 0:
        code = 0
        try:
            os.close(r)
            try:
                out = run_history(job)
            except BaseException as e:
                out = dict(driver_error=traceback.format_exc()[-1500:])
            with os.fdopen(w, "w") as f:
                f.write(json.dumps(out))
        except BaseException:
            code = 1
        os._exit(code)
    os.close(w)
    with os.fdopen(r) as f:
        data = f.read()
    os.waitpid(pid, 0)
    if not data:
        return dict(driver_error="child produced no output")
    return json.loads(data)


def run_values(cases):
    """Model-validation stream: for (dtype, a, b) build P(x=a), P(x=b) and read back the held value of each (or the
    rejection), P(x=a) == P(x=b) and hash equality."""
    out = []
    for c in cases:
        uni = Universe(dict(univ=[dict(name="V", fields=[dict(name="x", dtype=c["dtype"], default=None)])], table=[]))
        cls = uni.classes[0]
        insts, held = [], []
        for w in (c["a"], c["b"]):
            try:
                inst = cls(x=uni.value(c["dtype"], w))
                insts.append(inst)
                held.append(uni.encode(c["dtype"], inst.x))
            except BaseException as e:
                insts.append(None)
                held.append(["rej", type(e).__name__])
        eq = heq = None
        if insts[0] is not None and insts[1] is not None:
            try:
                eq = bool(insts[0] == insts[1])
            except BaseException as e:
                eq = "raise:" + type(e).__name__
            try:
                heq = hash(insts[0]) == hash(insts[1])
            except BaseException as e:
                heq = "raise:" + type(e).__name__
        out.append(dict(held=held, eq=eq, heq=heq))
    return out


def run_setenc(cases):
    """Model-validation stream for the set branch of hdl21_naming_encoder: build the (nested) frozenset of a spec in the
    order the spec lists its members and report (a) the order in which THIS interpreter iterates over every set of it and
    (b) the JSON text json.dumps writes for it through the encoder."""
    import json as _json
    from hdl21.params import hdl21_naming_encoder

    def build(sp):
        if sp[0] == "S":
            return frozenset(build(x) for x in sp[1])
        return sp[1]

    def iterated(v):
        if isinstance(v, frozenset):
            return ["S", [iterated(x) for x in v]]
        return ["i", v] if isinstance(v, int) else ["s", v]

    out = []
    for c in cases:
        try:
            v = build(c["spec"])
            out.append(dict(iter=iterated(v), text=_json.dumps(v, default=hdl21_naming_encoder, sort_keys=True)))
        except BaseException as e:
            out.append(dict(error=type(e).__name__ + ": " + str(e)[:200]))
    return out


def handler(p):
    if "setenc" in p:
        return dict(results=run_setenc(p["setenc"]))
    if "values" in p:
        return dict(results=run_values(p["values"]))
    from hdl21.generator import Generator
    import hdl21.generators  # noqa: F401  (so that the built-in stream does not import inside the child)
    assert len(Generator.Cache.done) == 0 and len(Generator.Cache.pending) == 0
    return dict(results=[in_child(j) for j in p["jobs"]])


main(handler)
