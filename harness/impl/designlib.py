"""Implementation-side library: abstract designs (JSON) -> real hdl21 objects, vlsir packages -> JSON.

The builder uses only the public hdl21 API and never looks at hdl21 internals to decide what to build.
Abstract design (see harness/vp/design.py):
  {"mods":[{"name","ports":[[n,w,dir]],"sigs":[[n,w]],"insts":[{"name","n","of":[...],"conns":[[port,cexpr]]}]}],
   "exts":[{"name","ports":[[n,w]]}], "top":k, "style":"proc"|"class"|"gen"}
  of    = ["mod",k] | ["prim",kind,tag] | ["ext",k,tag]
  cexpr = ["sig",n] | ["sl",cexpr,ix] | ["cat",[cexpr]] | ["ref",inst,port] | ["nc",site,name|None]
"""
import hdl21 as h

DIRS = {"in": h.PortDir.INPUT, "out": h.PortDir.OUTPUT, "inout": h.PortDir.INOUT, "none": h.PortDir.NONE}


def mk_index(ix):
    return ix[1] if ix[0] == "i" else slice(ix[1], ix[2], ix[3])


def prim_call(kind, tag):
    if kind == "Mos":
        return h.Mos(nf=tag)
    if kind == "R":
        return h.R(r=tag)
    if kind == "C":
        return h.C(c=tag)
    if kind == "Bjt":
        return h.Bipolar(mult=tag)
    if kind == "D":
        return h.Diode(model=f"d{tag}")
    if kind == "Res3":
        return h.ThreeTerminalResistor(model=f"m{tag}")
    raise ValueError(kind)


class Builder:
    def __init__(self, design, uniq=""):
        self.d = design
        self.uniq = uniq
        self.exts = [h.ExternalModule(name=x["name"], port_list=[h.Port(name=n, width=w) for n, w in x["ports"]],
                                      paramtype=dict) for x in design.get("exts", [])]
        self.mods = []
        self.ncs = {}

    def target(self, of):
        if of[0] == "mod":
            return self.mods[of[1]]
        if of[0] == "prim":
            return prim_call(of[1], of[2])
        if of[0] == "ext":
            return self.exts[of[1]](tag=of[2])
        raise ValueError(of)

    def expr(self, m, mi, e):
        t = e[0]
        if t == "sig":
            return m.get(e[1])
        if t == "sl":
            return self.expr(m, mi, e[1])[mk_index(e[2])]
        if t == "cat":
            return h.Concat(*[self.expr(m, mi, p) for p in e[1]])
        if t == "ref":
            return getattr(m.get(e[1]), e[2])
        if t == "orphan":           # a Signal that belongs to no Module
            return h.Signal(name=f"orph{e[1]}", width=e[1])
        if t == "foreign":          # a Signal owned by another Module of the design
            return self.mods[e[1]].get(e[2])
        if t == "foreignref":       # a port of an Instance that lives in another Module
            return getattr(self.mods[e[1]].get(e[2]), e[3])
        if t == "nc":
            key = (mi, e[1])
            if key not in self.ncs:
                self.ncs[key] = h.NoConn(name=e[2]) if e[2] is not None else h.NoConn()
            return self.ncs[key]
        raise ValueError(t)

    def build_module(self, mi, md):
        m = self.mods[mi]
        for n, w, d in md["ports"]:
            m.add(h.Signal(name=n, width=w, vis=h.signal.Visibility.PORT, direction=DIRS[d]))
        for n, w in md["sigs"]:
            m.add(h.Signal(name=n, width=w))
        # instances first (so that references to later instances can be made), then connections in order
        for x in md["insts"]:
            tgt = self.target(x["of"])
            inst = h.InstanceArray(of=tgt, n=x["n"], name=x["name"]) if x["n"] > 0 else h.Instance(of=tgt, name=x["name"])
            m.add(inst)
        # earlier connections that are replaced afterwards (connection histories): the final mapping is what was written
        for x in md["insts"]:
            inst = m.get(x["name"])
            for port, e in x.get("pre", []):
                inst.connect(port, self.expr(m, mi, e))
        for x in md["insts"]:
            inst = m.get(x["name"])
            for port, e in x["conns"]:
                inst.connect(port, self.expr(m, mi, e))
        return m

    def build(self):
        # all Module objects first, so that (faulty) designs can instantiate later modules or themselves
        for md in self.d["mods"]:
            self.mods.append(h.Module(name=md["name"] + self.uniq) if md["name"] is not None else h.Module())
        for mi, md in enumerate(self.d["mods"]):
            self.build_module(mi, md)
        return self.mods[self.d["top"]]


# ---------------------------------------------------------------------------------------------
# vlsir package -> JSON
# ---------------------------------------------------------------------------------------------
def pval_str(v):
    k = v.WhichOneof("value")
    if k == "int64_value":
        return f"int:{v.int64_value}"
    if k == "double_value":
        return f"dbl:{float(v.double_value).hex()}"
    if k == "string_value":
        return f"str:{v.string_value}"
    if k == "literal":
        return f"lit:{v.literal}"
    if k == "prefixed":
        import vlsir
        p = v.prefixed
        pk = p.WhichOneof("number")
        pre = vlsir.SIPrefix.Name(p.prefix)
        if pk == "int64_value":
            return f"pre:{pre}:i{p.int64_value}"
        if pk == "double_value":
            return f"pre:{pre}:d{float(p.double_value).hex()}"
        return f"pre:{pre}:s{p.string_value}"
    return f"?{k}"


def target_json(t):
    k = t.WhichOneof("stype")
    if k == "sig":
        return ["sig", t.sig]
    if k == "slice":
        return ["slice", t.slice.signal, t.slice.top, t.slice.bot]
    if k == "concat":
        return ["concat", [target_json(p) for p in t.concat.parts]]
    return ["?", str(k)]


def pkg_json(pkg):
    import vlsir.circuit_pb2 as vckt
    mods = []
    for pm in pkg.modules:
        insts = []
        for i in pm.instances:
            which = i.module.WhichOneof("to")
            ref = ["local", i.module.local] if which == "local" else ["ext", i.module.external.domain, i.module.external.name]
            insts.append(dict(name=i.name, ref=ref, params=[[p.name, pval_str(p.value)] for p in i.parameters],
                              conns=[[c.portname, target_json(c.target)] for c in i.connections]))
        mods.append(dict(name=pm.name, sigs=[[s.name, s.width] for s in pm.signals],
                         ports=[[p.signal, int(p.direction)] for p in pm.ports], insts=insts,
                         literals=list(pm.literals)))
    exts = []
    for x in pkg.ext_modules:
        widths = {s.name: s.width for s in x.signals}
        exts.append(dict(domain=x.name.domain, name=x.name.name,
                         ports=[[p.signal, widths.get(p.signal, -1), int(p.direction)] for p in x.ports],
                         spicetype=vckt.SpiceType.Name(x.spicetype)))
    return dict(domain=pkg.domain, exts=exts, mods=mods)
