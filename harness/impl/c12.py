"""C12 implementation driver: one SESSION = this fresh interpreter (its PYTHONHASHSEED is set by the parent),
a randomised amount of unrelated allocation / elaboration first, then a list of design jobs in the order given.

payload = dict(prework=dict(alloc=int, strs=int, elab=int, salt=int), jobs=[job, ...])
job     = dict(kind="abs",  design=<abstract design of harness/vp/design.py>, uniq=str)
        | dict(kind="bd",   bd=<bundle design, see build_bd>)
        | dict(kind="cyc",  cyc=<reference-group design, see build_cyc>)
        | dict(kind="gen",  gen=<generator design, see build_gen>)
        | dict(kind="example", name=str)
        | dict(kind="pdk", pdk=<python package of a PDK>, family="CORE"|"NONE")
        + optional between=int : more unrelated allocation directly before this job

result per job (property-level observables only):
  pkg      sha256 of Package.SerializeToString(deterministic=True)      | "!<ExceptionClass>"
  spice / spectre / verilog   sha256 of the netlist text                 | "!<ExceptionClass>"
  order    [[module, instance, [portname, ...]], ...] connection order of every instance of the package (for the model tie
           and for explaining a difference), sigs [[module, [signal names]]], mods [module names]
"""
from common import main, exc_info
import io, hashlib, random
import hdl21 as h
from designlib import Builder

_KEEP = []          # keeps the unrelated objects alive, so that later allocations land elsewhere


def prework(pw):
    """Unrelated earlier work: allocation of objects and strings (moves addresses, fills the str-hash keyed tables),
    and elaboration of unrelated modules (fills hdl21's module-level caches)."""
    r = random.Random(pw.get("salt", 0))
    for k in range(pw.get("alloc", 0)):
        _KEEP.append([object() for _ in range(r.randint(1, 40))])
        if r.random() < 0.3:
            _KEEP.append(bytearray(r.randint(1, 5000)))
        if r.random() < 0.2 and _KEEP:
            _KEEP.pop(r.randrange(len(_KEEP)))
    for k in range(pw.get("strs", 0)):
        _KEEP.append({f"w{r.randint(0, 10**6)}": k})
        _KEEP.append(h.Signal(name=f"pre{k}", width=r.randint(1, 4)))
    for k in range(pw.get("elab", 0)):
        m = h.Module(name=f"Unrelated{pw.get('salt', 0)}_{k}")
        m.a, m.b = h.Signal(), h.Signal(width=r.randint(1, 3))
        for j in range(r.randint(1, 3)):
            m.add(h.R(r=1 + j)(p=m.a, n=m.a), name=f"r{j}")
        p = h.Module(name=f"UnrelatedTop{pw.get('salt', 0)}_{k}")
        p.s = h.Signal()
        p.i = h.Instance(of=m, name="i")
        h.elaborate(p)
        _KEEP.append(p)


# ---------------------------------------------------------------------------------------------
# bundle designs
#   bd = {"bsigs":[..], "sub":[..]|None, "ports":[[name, kind]], "tb":[bundle instance names], "tsigs":[scalar names],
#         "insts":[{"name", "n", "conns":[[port, src]]}], "tag": str}
#   kind: "B" bundle-valued port of bundle B | "S" port of the sub-bundle type | "s" scalar
#   src : ["sig", n] | ["bun", b] | ["bref", b] (= b.u, the sub-bundle) | ["sref", b, x] (= b.x) | ["subsref", b, p] (= b.u.p)
#         | ["anon", kind, {member: tsig}] | ["anonref", b] (= AnonymousBundle(x=b.x, ...) of references)
#         | ["pref", inst, port]
#   A port that is not listed is left unconnected (it must then be referenced by a "pref").
# ---------------------------------------------------------------------------------------------
def build_bd(d):
    tag = d.get("tag", "")
    S = None
    if d.get("sub"):
        S = h.Bundle(name="S" + tag)
        for n in d["sub"]:
            S.add(h.Signal(name=n))
    B = h.Bundle(name="B" + tag)
    for n in d["bsigs"]:
        B.add(h.Signal(name=n))
    if S is not None:
        B.add(S(), name="u")
    inner = h.Module(name="Inner" + tag)
    for n, k in d["ports"]:
        if k == "B":
            inner.add(B(port=True), name=n)
        elif k == "S":
            inner.add(S(port=True), name=n)
        else:
            inner.add(h.Port(name=n))
    # something inside, so that the flattened ports are used
    first = None
    for n, k in d["ports"]:
        if k == "s":
            first = inner.get(n)
            break
    if first is not None:
        inner.add(h.R(r=1)(p=first, n=first), name="r0")
    top = h.Module(name="Top" + tag)
    for n in d["tsigs"]:
        top.add(h.Signal(name=n))
    for n in d["tb"]:
        top.add(B(), name=n)
    for x in d["insts"]:
        inst = h.InstanceArray(of=inner, n=x["n"], name=x["name"]) if x["n"] > 0 else h.Instance(of=inner, name=x["name"])
        top.add(inst)

    def src(e):
        t = e[0]
        if t == "sig":
            return top.get(e[1])
        if t == "bun":
            return top.get(e[1])
        if t == "bref":
            return top.get(e[1]).u
        if t == "sref":
            return getattr(top.get(e[1]), e[2])
        if t == "subsref":
            return getattr(top.get(e[1]).u, e[2])
        if t == "anon":
            return h.AnonymousBundle(**{m: top.get(s) for m, s in e[2].items()})
        if t == "anonref":
            b = top.get(e[1])
            kw = {n: getattr(b, n) for n in d["bsigs"]}
            if S is not None:
                kw["u"] = b.u
            return h.AnonymousBundle(**kw)
        if t == "pref":
            return getattr(top.get(e[1]), e[2])
        raise ValueError(t)

    for x in d["insts"]:
        inst = top.get(x["name"])
        for port, e in x["conns"]:
            inst.connect(port, src(e))
    return top


# ---------------------------------------------------------------------------------------------
# reference groups of scalar ports without an explicit signal
#   cyc = {"insts":[[name, [ports]]], "edges":[[inst, port, inst2, port2]], "tag"}   edge: inst.port = inst2.port2
# ---------------------------------------------------------------------------------------------
def build_cyc(d):
    tag = d.get("tag", "")
    top = h.Module(name="G" + tag)
    kinds = {}
    for name, ports in d["insts"]:
        key = tuple(ports)
        if key not in kinds:
            m = h.Module(name=f"L{len(kinds)}{tag}")
            for p in ports:
                m.add(h.Port(name=p))
            m.add(h.R(r=1)(p=m.get(ports[0]), n=m.get(ports[-1])), name="r0")
            kinds[key] = m
        top.add(h.Instance(of=kinds[key], name=name))
    for a, p, b, q in d["edges"]:
        top.get(a).connect(p, getattr(top.get(b), q))
    return top


# ---------------------------------------------------------------------------------------------
# generated modules: names from parameter values (readable string or md5 of JSON)
#   gen = {"calls":[{"w": int, "s": str, "l": [ints]}], "tag"}
# ---------------------------------------------------------------------------------------------
_GENS = {}


def build_gen(d):
    tag = d.get("tag", "")
    if "G" not in _GENS:
        @h.paramclass
        class P:
            w = h.Param(dtype=int, desc="width")
            s = h.Param(dtype=str, desc="a string")
            l = h.Param(dtype=tuple, desc="a tuple")

        @h.generator
        def Cell(p: P) -> h.Module:
            m = h.Module()
            m.a = h.Port(width=p.w)
            m.b = h.Port()
            m.r = h.R(r=1 + len(p.l))(p=m.a[0], n=m.b)
            return m
        @h.paramclass
        class P2:
            w = h.Param(dtype=int, desc="width")
            s = h.Param(dtype=str, desc="a string")

        @h.generator
        def Cell2(p: P2) -> h.Module:        # scalar parameters only: readable name when short
            m = h.Module()
            m.a = h.Port(width=p.w)
            m.b = h.Port()
            m.r = h.R(r=1)(p=m.a[0], n=m.b)
            return m
        _GENS["G"] = (P, Cell, P2, Cell2)
    P, Cell, P2, Cell2 = _GENS["G"]
    top = h.Module(name="GenTop" + tag)
    top.z = h.Signal()
    for k, c in enumerate(d["calls"]):
        s = top.add(h.Signal(name=f"s{k}", width=c["w"]))
        if c["l"]:
            top.add(Cell(P(w=c["w"], s=c["s"], l=tuple(c["l"])))(a=s, b=top.z), name=f"c{k}")
        else:
            top.add(Cell2(P2(w=c["w"], s=c["s"]))(a=s, b=top.z), name=f"c{k}")
    return top


def build_example(name):
    import importlib
    if name == "ro":
        m = importlib.import_module("examples.ro")
        return m.RoTb(h.Default)
    if name == "diff_ota":
        return importlib.import_module("examples.diff_ota").DiffOta()
    if name == "encoder10":
        return importlib.import_module("examples.encoder").OneHotEncoder(width=10)
    if name == "encoder8":
        return importlib.import_module("examples.encoder").OneHotEncoder(width=8)
    if name == "bundles":
        return importlib.import_module("examples.bundles").TestSystem
    if name == "idac":
        m = importlib.import_module("examples.idac")
        params = m.Params(mnsw=m.n(nfin=4, nf=2, m=1, stack=1), mnbi=m.n(nfin=4, nf=1, m=2, stack=12), width=3,
                          pdk=m.PdkEnum.FAKEFET)
        return m.NmosIdac(params)
    if name in ("rladder", "mux_tree"):
        m = importlib.import_module("examples.rdac")
        if name == "rladder":
            return m.rladder(m.RLadderParams(nseg=15, res=m.PdkResistor(w=4 * h.prefix.µ, l=10 * h.prefix.µ)))
        return m.mux_tree(m.MuxTreeParams(nbit=4, mux_params=m.PassGateParams(
            nmos=m.Nch(m.PdkMosParams(l=1 * h.prefix.n)), pmos=m.Pch(m.PdkMosParams(l=1 * h.prefix.n)))))
    if name == "mos_sim_tb":
        m = importlib.import_module("examples.mos_sim")
        return m.MosDcopSim.tb
    raise ValueError(name)


def build_pdk(pdkname, fam):
    """a small hierarchical design of generic transistors, compiled to the named PDK package"""
    import importlib
    from hdl21.prefix import µ
    pk = importlib.import_module(pdkname)
    family = getattr(h.MosFamily, fam)
    tag = pdkname.replace(".", "_") + "_" + fam
    m = h.Module(name="Cell_" + tag)
    m.vdd, m.vss, m.a, m.y = h.Port(), h.Port(), h.Port(), h.Port()
    m.mn = h.Nmos(w=1 * µ, l=1 * µ, family=family)(d=m.y, g=m.a, s=m.vss, b=m.vss)
    m.mp = h.Pmos(w=2 * µ, l=1 * µ, family=family)(d=m.y, g=m.a, s=m.vdd, b=m.vdd)
    m.mn2 = h.Nmos(w=1 * µ, l=1 * µ, npar=2, family=family)(d=m.y, g=m.a, s=m.vss, b=m.vss)
    top = h.Module(name="Top_" + tag)
    top.vdd, top.vss, top.x = h.Signal(), h.Signal(), h.Signal(width=3)
    top.i0 = m(vdd=top.vdd, vss=top.vss, a=top.x[0], y=top.x[1])
    top.i1 = m(vdd=top.vdd, vss=top.vss, a=top.x[1], y=top.x[2])
    pk.compile(top)
    return top


def sha(b):
    return hashlib.sha256(b).hexdigest()


def observe(top):
    out = dict(pkg=None, spice=None, spectre=None, verilog=None, order=[], sigs=[], mods=[])
    try:
        pkg = h.to_proto(top)
        out["pkg"] = sha(pkg.SerializeToString(deterministic=True))
        for pm in pkg.modules:
            out["mods"].append(pm.name)
            out["sigs"].append([pm.name, [s.name for s in pm.signals]])
            for i in pm.instances:
                out["order"].append([pm.name, i.name, [c.portname for c in i.connections]])
    except Exception as e:
        out["pkg"] = "!" + type(e).__name__
        out["err"] = exc_info(e)
        for f in ("spice", "spectre", "verilog"):
            out[f] = "!" + type(e).__name__
        return out
    for fmt in ("spice", "spectre", "verilog"):
        try:
            s = io.StringIO()
            h.netlist(top, dest=s, fmt=fmt)
            out[fmt] = sha(s.getvalue().encode())
        except Exception as e:
            out[fmt] = "!" + type(e).__name__
    return out


def do(job):
    if job.get("between"):
        prework(dict(alloc=job["between"], salt=job["between"]))
    try:
        k = job["kind"]
        if k == "abs":
            top = Builder(job["design"], uniq=job.get("uniq", "")).build()
        elif k == "bd":
            top = build_bd(job["bd"])
        elif k == "cyc":
            top = build_cyc(job["cyc"])
        elif k == "gen":
            top = build_gen(job["gen"])
        elif k == "example":
            top = build_example(job["name"])
        elif k == "pdk":
            top = build_pdk(job["pdk"], job["family"])
        elif k == "flat":          # hierarchy flattening (hdl21.flatten) of an abstract hierarchical design
            from hdl21.flatten import flatten
            top = flatten(Builder(job["design"], uniq=job.get("uniq", "")).build())
        elif k == "builtin":       # the built-in generators, whose bodies walk the unit's ports
            import hdl21.generators as G
            g, n = job["gen"], job["n"]
            if g == "MosStack":
                top = G.MosStack(nser=n)
            elif g == "SeriesMos":
                top = G.Series(unit=h.Mos(nf=2), nser=n, conns=job["pair"])
            elif g == "SeriesExt":
                x = h.ExternalModule(name="Cell5", port_list=[h.Port(name=q) for q in ("a", "b", "c", "d", "e")], paramtype=dict)
                top = G.Series(unit=x(tag=n), nser=n, conns=job["pair"])
            elif g == "Wrapper":
                top = G.Wrapper(m=h.Mos(nf=n))
            else:
                raise ValueError(g)
        else:
            raise ValueError(k)
    except Exception as e:
        c = "!build:" + type(e).__name__
        return dict(pkg=c, spice=c, spectre=c, verilog=c, order=[], sigs=[], mods=[], err=exc_info(e))
    return observe(top)


def handler(p):
    prework(p.get("prework", {}))
    return dict(results=[do(j) for j in p["jobs"]])


main(handler)
