"""C12 implementation driver: one SESSION = this fresh interpreter (its PYTHONHASHSEED is set by the parent),
a randomised amount of unrelated allocation / elaboration first, then a list of design jobs in the order given.

payload = dict(prework=dict(alloc=int, strs=int, elab=int, salt=int), jobs=[job, ...])
job     = dict(kind="abs",  design=<abstract design of harness/vp/design.py>, uniq=str)
        | dict(kind="bd",   bd=<bundle design, see build_bd>)
        | dict(kind="cyc",  cyc=<reference-group design, see build_cyc>)
        | dict(kind="gen",  gen=<generator design, see build_gen>)
        | dict(kind="example", name=str)
        | dict(kind="pdk", pdk=<python package of a PDK>, family="CORE"|"NONE")
        | dict(kind="gparam", calls=[{"v": <value tree>, "w": int, "typed": bool}], tag=str)   (strengthening round)
        | dict(kind="pdkreg", ops=[["import", pkg] | ["default", pkg] | ["compile", None | ["name", pkg] | ["module", pkg]]], family=str)
        + optional between=int : more unrelated allocation directly before this job

result per job (property-level observables only):
  pkg      sha256 of Package.SerializeToString(deterministic=True)      | "!<ExceptionClass>"
  spice / spectre / verilog   sha256 of the netlist text                 | "!<ExceptionClass>"
  order    [[module, instance, [portname, ...]], ...] connection order of every instance of the package (for the model tie
           and for explaining a difference), sigs [[module, [signal names]]], mods [module names]
"""
from common import main, exc_info
import io, hashlib, random
import hdl21 as h
from designlib import Builder

_KEEP = []          # keeps the unrelated objects alive, so that later allocations land elsewhere


def prework(pw):
    """Unrelated earlier work: allocation of objects and strings (moves addresses, fills the str-hash keyed tables),
    and elaboration of unrelated modules (fills hdl21's module-level caches)."""
    r = random.Random(pw.get("salt", 0))
    for k in range(pw.get("alloc", 0)):
        _KEEP.append([object() for _ in range(r.randint(1, 40))])
        if r.random() < 0.3:
            _KEEP.append(bytearray(r.randint(1, 5000)))
        if r.random() < 0.2 and _KEEP:
            _KEEP.pop(r.randrange(len(_KEEP)))
    import types
    for k in range(pw.get("mods", 0)):          # module objects and their dicts: the PDK registry is a set of module objects
        m = types.ModuleType(f"junk{k}")
        if r.random() < 0.7:
            _KEEP.append(m)
        if r.random() < 0.5:
            _KEEP.append(dict(a=k))
    for k in range(pw.get("strs", 0)):
        _KEEP.append({f"w{r.randint(0, 10**6)}": k})
        _KEEP.append(h.Signal(name=f"pre{k}", width=r.randint(1, 4)))
    for k in range(pw.get("elab", 0)):
        m = h.Module(name=f"Unrelated{pw.get('salt', 0)}_{k}")
        m.a, m.b = h.Signal(), h.Signal(width=r.randint(1, 3))
        for j in range(r.randint(1, 3)):
            m.add(h.R(r=1 + j)(p=m.a, n=m.a), name=f"r{j}")
        p = h.Module(name=f"UnrelatedTop{pw.get('salt', 0)}_{k}")
        p.s = h.Signal()
        p.i = h.Instance(of=m, name="i")
        h.elaborate(p)
        _KEEP.append(p)


# ---------------------------------------------------------------------------------------------
# bundle designs
#   bd = {"bsigs":[..], "sub":[..]|None, "ports":[[name, kind]], "tb":[bundle instance names], "tsigs":[scalar names],
#         "insts":[{"name", "n", "conns":[[port, src]]}], "tag": str}
#   kind: "B" bundle-valued port of bundle B | "S" port of the sub-bundle type | "s" scalar
#   src : ["sig", n] | ["bun", b] | ["bref", b] (= b.u, the sub-bundle) | ["sref", b, x] (= b.x) | ["subsref", b, p] (= b.u.p)
#         | ["anon", kind, {member: tsig}] | ["anonref", b] (= AnonymousBundle(x=b.x, ...) of references)
#         | ["pref", inst, port]
#   A port that is not listed is left unconnected (it must then be referenced by a "pref").
# ---------------------------------------------------------------------------------------------
def build_bd(d):
    tag = d.get("tag", "")
    S = None
    if d.get("sub"):
        S = h.Bundle(name="S" + tag)
        for n in d["sub"]:
            S.add(h.Signal(name=n))
    B = h.Bundle(name="B" + tag)
    for n in d["bsigs"]:
        B.add(h.Signal(name=n))
    if S is not None:
        B.add(S(), name="u")
    inner = h.Module(name="Inner" + tag)
    for n, k in d["ports"]:
        if k == "B":
            inner.add(B(port=True), name=n)
        elif k == "S":
            inner.add(S(port=True), name=n)
        else:
            inner.add(h.Port(name=n))
    # something inside, so that the flattened ports are used
    first = None
    for n, k in d["ports"]:
        if k == "s":
            first = inner.get(n)
            break
    if first is not None:
        inner.add(h.R(r=1)(p=first, n=first), name="r0")
    top = h.Module(name="Top" + tag)
    for n in d["tsigs"]:
        top.add(h.Signal(name=n))
    for n in d["tb"]:
        top.add(B(), name=n)
    for x in d["insts"]:
        inst = h.InstanceArray(of=inner, n=x["n"], name=x["name"]) if x["n"] > 0 else h.Instance(of=inner, name=x["name"])
        top.add(inst)

    def src(e):
        t = e[0]
        if t == "sig":
            return top.get(e[1])
        if t == "bun":
            return top.get(e[1])
        if t == "bref":
            return top.get(e[1]).u
        if t == "sref":
            return getattr(top.get(e[1]), e[2])
        if t == "subsref":
            return getattr(top.get(e[1]).u, e[2])
        if t == "anon":
            return h.AnonymousBundle(**{m: top.get(s) for m, s in e[2].items()})
        if t == "anonref":
            b = top.get(e[1])
            kw = {n: getattr(b, n) for n in d["bsigs"]}
            if S is not None:
                kw["u"] = b.u
            return h.AnonymousBundle(**kw)
        if t == "pref":
            return getattr(top.get(e[1]), e[2])
        raise ValueError(t)

    for x in d["insts"]:
        inst = top.get(x["name"])
        for port, e in x["conns"]:
            inst.connect(port, src(e))
    return top


# ---------------------------------------------------------------------------------------------
# reference groups of scalar ports without an explicit signal
#   cyc = {"insts":[[name, [ports]]], "edges":[[inst, port, inst2, port2]], "tag"}   edge: inst.port = inst2.port2
#         optional "sigs": [explicit signal names], "ncs": [[inst, port]] ports connected to an unnamed NoConn
# ---------------------------------------------------------------------------------------------
def build_cyc(d):
    tag = d.get("tag", "")
    top = h.Module(name="G" + tag)
    kinds = {}
    for name, ports in d["insts"]:
        key = tuple(ports)
        if key not in kinds:
            m = h.Module(name=f"L{len(kinds)}{tag}")
            for p in ports:
                m.add(h.Port(name=p))
            m.add(h.R(r=1)(p=m.get(ports[0]), n=m.get(ports[-1])), name="r0")
            kinds[key] = m
        top.add(h.Instance(of=kinds[key], name=name))
    for n in d.get("sigs", []):             # explicit signals (names an implicit signal may collide with)
        top.add(h.Signal(name=n))
    for a, p, b, q in d["edges"]:
        top.get(a).connect(p, getattr(top.get(b), q))
    for i, p in d.get("ncs", []):           # unnamed no-connects: the elaborator names their signals <inst>_<port>
        top.get(i).connect(p, h.NoConn())
    return top


# ---------------------------------------------------------------------------------------------
# generated modules: names from parameter values (readable string or md5 of JSON)
#   gen = {"calls":[{"w": int, "s": str, "l": [ints]}], "tag"}
# ---------------------------------------------------------------------------------------------
_GENS = {}


def build_gen(d):
    tag = d.get("tag", "")
    if "G" not in _GENS:
        @h.paramclass
        class P:
            w = h.Param(dtype=int, desc="width")
            s = h.Param(dtype=str, desc="a string")
            l = h.Param(dtype=tuple, desc="a tuple")

        @h.generator
        def Cell(p: P) -> h.Module:
            m = h.Module()
            m.a = h.Port(width=p.w)
            m.b = h.Port()
            m.r = h.R(r=1 + len(p.l))(p=m.a[0], n=m.b)
            return m
        @h.paramclass
        class P2:
            w = h.Param(dtype=int, desc="width")
            s = h.Param(dtype=str, desc="a string")

        @h.generator
        def Cell2(p: P2) -> h.Module:        # scalar parameters only: readable name when short
            m = h.Module()
            m.a = h.Port(width=p.w)
            m.b = h.Port()
            m.r = h.R(r=1)(p=m.a[0], n=m.b)
            return m
        _GENS["G"] = (P, Cell, P2, Cell2)
    P, Cell, P2, Cell2 = _GENS["G"]
    top = h.Module(name="GenTop" + tag)
    top.z = h.Signal()
    for k, c in enumerate(d["calls"]):
        s = top.add(h.Signal(name=f"s{k}", width=c["w"]))
        if c["l"]:
            top.add(Cell(P(w=c["w"], s=c["s"], l=tuple(c["l"])))(a=s, b=top.z), name=f"c{k}")
        else:
            top.add(Cell2(P2(w=c["w"], s=c["s"]))(a=s, b=top.z), name=f"c{k}")
    return top


# ---------------------------------------------------------------------------------------------
# generator parameters of every value kind (strengthening round)
#   value tree: ["i", int] | ["s", str] | ["f", float.hex()] | ["b", bool] | ["n"] | ["e", "A"|"B"|"C"] | ["px", decimal text, prefix name]
#             | ["t", [trees]] (tuple) | ["fs", [trees]] (frozenset, built from the members in THIS order) | ["pc", tree, tree] (nested paramclass)
#   call: {"v": tree, "w": int, "typed": bool}   typed: the parameter's dtype is the typing expression of the tree (pydantic rebuilds the
#   containers), else typing.Any
# ---------------------------------------------------------------------------------------------
_GP = {}


def _gp_base():
    if "base" not in _GP:
        import enum

        class Color(enum.Enum):
            A = "a"
            B = "b"
            C = "c"

        @h.paramclass
        class InnerP:
            a = h.Param(dtype=object, desc="first")
            b = h.Param(dtype=object, desc="second")
        _GP["base"] = (Color, InnerP)
    return _GP["base"]


def gp_dec(v):
    from decimal import Decimal
    t = v[0]
    if t == "i":
        return int(v[1])
    if t == "s":
        return str(v[1])
    if t == "f":
        return float.fromhex(v[1])
    if t == "b":
        return bool(v[1])
    if t == "n":
        return None
    if t == "e":
        return getattr(_gp_base()[0], v[1])
    if t == "px":
        return h.Prefixed(number=Decimal(v[1]), prefix=getattr(h.Prefix, v[2]))
    if t == "t":
        return tuple(gp_dec(x) for x in v[1])
    if t == "fs":
        return frozenset(gp_dec(x) for x in v[1])
    if t == "pc":
        return _gp_base()[1](a=gp_dec(v[1]), b=gp_dec(v[2]))
    raise ValueError(t)


def gp_type(v):
    """(typing expression, key) of a homogeneous tree, or None"""
    from typing import FrozenSet, Tuple
    t = v[0]
    if t == "i":
        return int, "i"
    if t == "s":
        return str, "s"
    if t in ("t", "fs"):
        subs = [gp_type(x) for x in v[1]]
        if not subs or any(x is None for x in subs) or len({k for _, k in subs}) != 1:
            return None
        ty, k = subs[0]
        return (Tuple[ty, ...], "T" + k) if t == "t" else (FrozenSet[ty], "F" + k)
    return None


def gp_gen(dt, key):
    if key not in _GP:
        P = h.paramclass(type("GP" + key, (), {"v": h.Param(dtype=dt, desc="the value"), "w": h.Param(dtype=int, desc="width", default=1)}))

        def Cell(p: P) -> h.Module:
            m = h.Module()
            m.a = h.Inout(width=p.w)
            m.b = h.Inout()
            return m                      # no primitive inside: the verilog netlister accepts it as well
        Cell.__name__ = "Cell" + key
        Cell.__qualname__ = "Cell" + key
        _GP[key] = (P, h.generator(Cell))
    return _GP[key]


def gp_iter(x, out):
    """the iteration order of every set inside the value, as texts (a coverage measurement, not an observable)"""
    import dataclasses
    if isinstance(x, (set, frozenset)):
        out.append("{" + "|".join(repr(sorted(map(repr, y))) if isinstance(y, frozenset) else repr(y) for y in x) + "}")
        for y in sorted(x, key=repr):
            gp_iter(y, out)
    elif isinstance(x, tuple):
        for y in x:
            gp_iter(y, out)
    elif dataclasses.is_dataclass(x) and not isinstance(x, type):
        for f in dataclasses.fields(x):
            gp_iter(getattr(x, f.name), out)


def build_gparam(d):
    import json
    from typing import Any
    from hdl21.params import hdl21_naming_encoder
    tag = d.get("tag", "")
    top = h.Module(name="GpTop" + tag)
    top.z = h.Signal()
    texts, iters = [], []
    for k, c in enumerate(d["calls"]):
        ty = gp_type(c["v"]) if c.get("typed") else None
        # the generators are the JOB's own (the tag is part of their name): the other designs of the session are UNRELATED earlier work.
        # (With one generator shared by all jobs, `Any`-typed 1 / 1.0 / True of different jobs are one cached call named by its first
        #  spelling — the recorded C09 limit — and the name would depend on the order of the jobs in the session.)
        P, G = gp_gen(ty[0], ty[1] + tag) if ty else gp_gen(Any, "Any" + tag)
        val = gp_dec(c["v"])
        params = P(v=val, w=c["w"])
        s = top.add(h.Signal(name=f"s{k}", width=c["w"]))
        top.add(G(params)(a=s, b=top.z), name=f"c{k}")
        try:
            texts.append(json.dumps(params.v, default=hdl21_naming_encoder, sort_keys=True))
        except Exception as e:
            texts.append("!" + type(e).__name__)
        it = []
        gp_iter(params.v, it)
        iters.append(it)
    return top, dict(texts=texts, iters=iters)


# ---------------------------------------------------------------------------------------------
# the PDK registry (strengthening round): a whole design PROGRAM — imports of PDK packages, set_default, compiles — in this process.
#   ops: ["import", pkg] | ["default", pkg] | ["compile", None | ["name", pkg] | ["module", pkg]]
#   every compile builds the same small transistor-level design afresh and hands it to hdl21.pdk.compile
# ---------------------------------------------------------------------------------------------
def pdk_design(fam, tag):
    from hdl21.prefix import µ
    family = getattr(h.MosFamily, fam)
    m = h.Module(name="RCell_" + tag)
    m.vdd, m.vss, m.a, m.y = h.Port(), h.Port(), h.Port(), h.Port()
    m.mn = h.Nmos(w=1 * µ, l=1 * µ, family=family)(d=m.y, g=m.a, s=m.vss, b=m.vss)
    m.mp = h.Pmos(w=2 * µ, l=1 * µ, family=family)(d=m.y, g=m.a, s=m.vdd, b=m.vdd)
    top = h.Module(name="RTop_" + tag)
    top.vdd, top.vss, top.x = h.Signal(), h.Signal(), h.Signal(width=2)
    top.i0 = m(vdd=top.vdd, vss=top.vss, a=top.x[0], y=top.x[1])
    return top


def pdk_module_of(pkgname):
    """the python module a PDK package registers (its `compile` is the PDK's compiler)"""
    import importlib, types
    pk = importlib.import_module(pkgname)
    for attr in ("pdk_logic", "pdk"):
        m = getattr(pk, attr, None)
        if isinstance(m, types.ModuleType) and hasattr(m, "compile"):
            return m
    raise RuntimeError(f"cannot find the registered module of {pkgname}")


def run_pdkreg(job):
    import hdl21.pdk
    fam = job.get("family", "CORE")
    mods = {}                # package name -> registered module, in order of import
    steps, digests = [], []
    for k, op in enumerate(job["ops"]):
        try:
            if op[0] == "import":
                mods[op[1]] = pdk_module_of(op[1])
                steps.append("none")
            elif op[0] == "default":
                m = pdk_module_of(op[1]) if op[1] in mods else None          # a package that was never imported is not registered
                hdl21.pdk.set_default(m.__name__ if m is not None else op[1] + ".pdk_logic")
                steps.append("none")
            elif op[0] == "compile":
                top = pdk_design(fam, str(k))
                arg = op[1]
                if arg is None:
                    hdl21.pdk.compile(top)
                elif arg[0] == "name":
                    hdl21.pdk.compile(top, pdk=(mods[arg[1]].__name__ if arg[1] in mods else arg[1] + ".pdk_logic"))
                else:
                    m = pdk_module_of(arg[1])        # imports (= registers) the package when it was not imported yet
                    mods.setdefault(arg[1], m)
                    hdl21.pdk.compile(top, pdk=m)
                o = observe(top)
                digests.append(o)
                # which PDK was it? compile the same design directly with every imported PDK's compiler and compare
                target = "unknown"
                for name, m in mods.items():
                    ref = pdk_design(fam, str(k))
                    try:
                        m.compile(ref)
                        if observe(ref)["pkg"] == o["pkg"]:
                            target = name
                            break
                    except Exception:
                        pass
                steps.append("target:" + target)
            else:
                raise ValueError(op[0])
        except RuntimeError as e:
            steps.append("refused")
            digests.append(dict(pkg="!RuntimeError", spice="!RuntimeError", spectre="!RuntimeError", verilog="!RuntimeError"))
    out = dict(order=[], sigs=[], mods=[], steps=steps)
    for f in ("pkg", "spice", "spectre", "verilog"):
        out[f] = sha("|".join(d[f] for d in digests).encode()) if digests else "!nothing"
    # the iteration order of a set holding the registered modules, built the way the registry builds its own (coverage measurement)
    out["regorder"] = [m.__name__ for m in _same_history_set(mods.values())]
    return out


def _same_history_set(ms):
    s = set()
    for m in ms:
        s.add(m)
    return s



def build_example(name):
    import importlib
    if name == "ro":
        m = importlib.import_module("examples.ro")
        return m.RoTb(h.Default)
    if name == "diff_ota":
        return importlib.import_module("examples.diff_ota").DiffOta()
    if name == "encoder10":
        return importlib.import_module("examples.encoder").OneHotEncoder(width=10)
    if name == "encoder8":
        return importlib.import_module("examples.encoder").OneHotEncoder(width=8)
    if name == "bundles":
        return importlib.import_module("examples.bundles").TestSystem
    if name == "idac":
        m = importlib.import_module("examples.idac")
        params = m.Params(mnsw=m.n(nfin=4, nf=2, m=1, stack=1), mnbi=m.n(nfin=4, nf=1, m=2, stack=12), width=3,
                          pdk=m.PdkEnum.FAKEFET)
        return m.NmosIdac(params)
    if name in ("rladder", "mux_tree"):
        m = importlib.import_module("examples.rdac")
        if name == "rladder":
            return m.rladder(m.RLadderParams(nseg=15, res=m.PdkResistor(w=4 * h.prefix.µ, l=10 * h.prefix.µ)))
        return m.mux_tree(m.MuxTreeParams(nbit=4, mux_params=m.PassGateParams(
            nmos=m.Nch(m.PdkMosParams(l=1 * h.prefix.n)), pmos=m.Pch(m.PdkMosParams(l=1 * h.prefix.n)))))
    if name == "mos_sim_tb":
        m = importlib.import_module("examples.mos_sim")
        return m.MosDcopSim.tb
    raise ValueError(name)


def build_pdk(pdkname, fam):
    """a small hierarchical design of generic transistors, compiled to the named PDK package"""
    import importlib
    from hdl21.prefix import µ
    pk = importlib.import_module(pdkname)
    family = getattr(h.MosFamily, fam)
    tag = pdkname.replace(".", "_") + "_" + fam
    m = h.Module(name="Cell_" + tag)
    m.vdd, m.vss, m.a, m.y = h.Port(), h.Port(), h.Port(), h.Port()
    m.mn = h.Nmos(w=1 * µ, l=1 * µ, family=family)(d=m.y, g=m.a, s=m.vss, b=m.vss)
    m.mp = h.Pmos(w=2 * µ, l=1 * µ, family=family)(d=m.y, g=m.a, s=m.vdd, b=m.vdd)
    m.mn2 = h.Nmos(w=1 * µ, l=1 * µ, npar=2, family=family)(d=m.y, g=m.a, s=m.vss, b=m.vss)
    top = h.Module(name="Top_" + tag)
    top.vdd, top.vss, top.x = h.Signal(), h.Signal(), h.Signal(width=3)
    top.i0 = m(vdd=top.vdd, vss=top.vss, a=top.x[0], y=top.x[1])
    top.i1 = m(vdd=top.vdd, vss=top.vss, a=top.x[1], y=top.x[2])
    pk.compile(top)
    return top


def sha(b):
    return hashlib.sha256(b).hexdigest()


def observe(top):
    out = dict(pkg=None, spice=None, spectre=None, verilog=None, order=[], sigs=[], mods=[])
    try:
        pkg = h.to_proto(top)
        out["pkg"] = sha(pkg.SerializeToString(deterministic=True))
        for pm in pkg.modules:
            out["mods"].append(pm.name)
            out["sigs"].append([pm.name, [s.name for s in pm.signals]])
            for i in pm.instances:
                out["order"].append([pm.name, i.name, [c.portname for c in i.connections]])
    except Exception as e:
        out["pkg"] = "!" + type(e).__name__
        out["err"] = exc_info(e)
        for f in ("spice", "spectre", "verilog"):
            out[f] = "!" + type(e).__name__
        return out
    for fmt in ("spice", "spectre", "verilog"):
        try:
            s = io.StringIO()
            h.netlist(top, dest=s, fmt=fmt)
            out[fmt] = sha(s.getvalue().encode())
        except Exception as e:
            out[fmt] = "!" + type(e).__name__
    return out


def do(job):
    if job.get("between"):
        prework(dict(alloc=job["between"], salt=job["between"]))
    try:
        k = job["kind"]
        if k == "abs":
            top = Builder(job["design"], uniq=job.get("uniq", "")).build()
        elif k == "bd":
            top = build_bd(job["bd"])
        elif k == "cyc":
            top = build_cyc(job["cyc"])
        elif k == "gen":
            top = build_gen(job["gen"])
        elif k == "example":
            top = build_example(job["name"])
        elif k == "pdk":
            top = build_pdk(job["pdk"], job["family"])
        elif k == "gparam":
            top, extra = build_gparam(job)
            out = observe(top)
            out.update(extra)
            return out
        elif k == "pdkreg":
            return run_pdkreg(job)
        elif k == "flat":          # hierarchy flattening (hdl21.flatten) of an abstract hierarchical design
            from hdl21.flatten import flatten
            top = flatten(Builder(job["design"], uniq=job.get("uniq", "")).build())
        elif k == "builtin":       # the built-in generators, whose bodies walk the unit's ports
            import hdl21.generators as G
            g, n = job["gen"], job["n"]
            if g == "MosStack":
                top = G.MosStack(nser=n)
            elif g == "SeriesMos":
                top = G.Series(unit=h.Mos(nf=2), nser=n, conns=job["pair"])
            elif g == "SeriesExt":
                x = h.ExternalModule(name="Cell5", port_list=[h.Port(name=q) for q in ("a", "b", "c", "d", "e")], paramtype=dict)
                top = G.Series(unit=x(tag=n), nser=n, conns=job["pair"])
            elif g == "Wrapper":
                top = G.Wrapper(m=h.Mos(nf=n))
            else:
                raise ValueError(g)
        else:
            raise ValueError(k)
    except Exception as e:
        c = "!build:" + type(e).__name__
        return dict(pkg=c, spice=c, spectre=c, verilog=c, order=[], sigs=[], mods=[], err=exc_info(e))
    return observe(top)


def handler(p):
    prework(p.get("prework", {}))
    return dict(results=[do(j) for j in p["jobs"]])


main(handler)
