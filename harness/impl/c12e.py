"""C12E implementation driver: build an abstract design with the public API and report, BEFORE elaboration, the order in
which this interpreter iterates over every `_connected_ports` set of the top module's port references (the sets whose visiting
order Model/C12EOrdered.v takes from an oracle), then the exported package.  The harness compares the orders between
processes with different PYTHONHASHSEED: they DO differ (the oracle quantifies over something real) while the packages must not.
job = dict(design=<abstract design>) -> dict(orders={"inst.port": ["inst.port", ...]}, pkg=<package JSON>|None, err=...)"""
from common import main, exc_info
import hdl21 as h
from designlib import Builder, pkg_json


def do(job):
    out = dict(orders={}, pkg=None, err=None)
    try:
        top = Builder(job["design"]).build()
    except Exception as e:
        out["err"] = ["build", exc_info(e)]
        return out
    try:
        for inst in list(top.instances.values()) + list(top.instarrays.values()):
            for name, pref in inst._refs.portrefs.items():
                cps = [f"{cp.inst.name}.{cp.portname}" for cp in pref._connected_ports]
                if len(cps) >= 2:
                    out["orders"][f"{inst.name}.{name}"] = cps
    except Exception as e:
        out["err"] = ["inspect", exc_info(e)]
    try:
        out["pkg"] = pkg_json(h.to_proto(top))
    except Exception as e:
        out["err"] = ["export", exc_info(e)]
    return out


def handler(p):
    return dict(results=[do(j) for j in p["jobs"]])


main(handler)
