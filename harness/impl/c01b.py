"""C01 (bundle fragment) implementation driver: build an abstract bundle design through the public hdl21 API only, export it
with h.to_proto and return the package as JSON (harness/impl/designlib.pkg_json).

Abstract design (see harness/vp/c01b.py):
  {"defs":[{"name","roles":bool,"builtin":None|"Diff","style":"class"|"proc"|"add","sigs":[[n,w,kind,src,dest]],"subs":[[n,d,cf,fc,role]]}],
   "mods":[{"name","ports":[[n,w,dir]],"sigs":[[n,w]],"bundles":[{"n","d","port","cf","fc","role"}],
            "insts":[{"name","n","pair","of","conns":[[port,cx]]}]}],
   "exts":[{"name","ports":[[n,w]]}], "top":k, "style":"proc"|"class"|"gen"}
  cx = ["sig",n] | ["sl",cx,ix] | ["cat",[cx]] | ["ref",inst,port] | ["nc",site,name|None] | ["bm",bundle,[path]]
     | ["bun",bundle,[path]] | ["anon",[[member,cx]],"kw"|"dict"|"bundlize"|"add"]
"""
from common import main, exc_info
import hdl21 as h
from designlib import DIRS, mk_index, prim_call, pkg_json

ROLES = ["HOST", "DEVICE"]


def make_leaf(l, roles):
    n, w, kind, src, dest = l
    kw = dict(width=w)
    if src is not None:
        kw["src"] = roles[src]
    if dest is not None:
        kw["dest"] = roles[dest]
    if kind == "in":
        return h.Input(**kw)
    if kind == "out":
        return h.Output(**kw)
    if kind == "inout":
        return h.Inout(**kw)
    if kind == "none":
        return h.Port(**kw)
    if kind == "sig":
        return h.Signal(**kw)
    raise ValueError(kind)


def make_binst(bdef, cf, fc, role, port=False):
    kw = {}
    if cf:
        kw["flipped"] = True
    if port:
        kw["port"] = True
    if role is not None:
        kw["role"] = bdef.roles[role]
    bi = bdef(**kw)
    for _ in range(fc):
        bi = h.flipped(bi)
    return bi


def build_defs(defs, uniq):
    built = []
    for d in defs:
        if d.get("builtin") == "Diff":
            built.append(h.Diff)
            continue
        rs = h.RoleSet.from_names(list(ROLES)) if d.get("roles") else None
        roles = {n: rs[n] for n in ROLES} if rs is not None else {}
        style = d.get("style", "class")
        if style == "class":
            ns = {}
            if rs is not None:
                ns["roles"] = rs
            for l in d["sigs"]:
                ns[l[0]] = make_leaf(l, roles)
            for n, k, cf, fc, role in d["subs"]:
                ns[n] = make_binst(built[k], cf, fc, role)
            b = h.bundle(type(d["name"] + uniq, (), ns))
        else:
            b = h.Bundle(name=d["name"] + uniq)
            if rs is not None:
                b.roles = rs
            for l in d["sigs"]:
                if style == "add":
                    b.add(make_leaf(l, roles), name=l[0])
                else:
                    setattr(b, l[0], make_leaf(l, roles))
            for n, k, cf, fc, role in d["subs"]:
                if style == "add":
                    b.add(make_binst(built[k], cf, fc, role), name=n)
                else:
                    setattr(b, n, make_binst(built[k], cf, fc, role))
        built.append(b)
    return built


class BBuilder:
    def __init__(self, design, uniq=""):
        self.d = design
        self.uniq = uniq
        self.exts = [h.ExternalModule(name=x["name"], port_list=[h.Port(name=n, width=w) for n, w in x["ports"]],
                                      paramtype=dict) for x in design.get("exts", [])]
        self.defs = build_defs(design.get("defs", []), uniq)
        self.mods = []          # instantiables, by module index (Module, or GeneratorCall in style "gen")

    def target(self, of):
        if of[0] == "mod":
            return self.mods[of[1]]
        if of[0] == "prim":
            return prim_call(of[1], of[2])
        if of[0] == "ext":
            return self.exts[of[1]](tag=of[2])
        raise ValueError(of)

    def expr(self, objs, ncs, e):
        t = e[0]
        if t == "sig":
            return objs[e[1]]
        if t == "sl":
            return self.expr(objs, ncs, e[1])[mk_index(e[2])]
        if t == "cat":
            return h.Concat(*[self.expr(objs, ncs, p) for p in e[1]])
        if t == "ref":
            return getattr(objs[e[1]], e[2])
        if t == "nc":
            if e[1] not in ncs:
                ncs[e[1]] = h.NoConn(name=e[2]) if e[2] is not None else h.NoConn()
            return ncs[e[1]]
        if t in ("bm", "bun"):
            o = objs[e[1]]
            for seg in e[2]:
                o = getattr(o, seg)
            return o
        if t == "anon":
            members = {n: self.expr(objs, ncs, sub) for n, sub in e[1]}
            how = e[2] if len(e) > 2 else "kw"
            if how == "dict":
                return dict(members)           # the dict shorthand: Instance.connect turns it into an AnonymousBundle
            if how == "bundlize":
                return h.bundlize(**members)
            if how == "add":
                a = h.AnonymousBundle()
                for n, v in members.items():
                    a.add(n, v)
                return a
            return h.AnonymousBundle(**members)
        raise ValueError(t)

    def module_items(self, md):
        """All named objects of one module, in the order they are added, connected."""
        objs = {}
        order = []
        for n, w, d in md["ports"]:
            objs[n] = h.Signal(width=w, vis=h.signal.Visibility.PORT, direction=DIRS[d])
            order.append(n)
        for n, w in md["sigs"]:
            objs[n] = h.Signal(width=w)
            order.append(n)
        for b in md["bundles"]:
            objs[b["n"]] = make_binst(self.defs[b["d"]], b.get("cf"), b.get("fc", 0), b.get("role"), port=b["port"])
            order.append(b["n"])
        for x in md["insts"]:
            tgt = self.target(x["of"])
            if x.get("pair"):
                inst = h.Pair(tgt)
            elif x["n"] > 0:
                inst = h.InstanceArray(of=tgt, n=x["n"])
            else:
                inst = h.Instance(of=tgt)
            objs[x["name"]] = inst
            order.append(x["name"])
        ncs = {}
        for x in md["insts"]:
            inst = objs[x["name"]]
            for port, e in x["conns"]:
                inst.connect(port, self.expr(objs, ncs, e))
        return objs, order

    def build_module(self, md):
        style = self.d.get("style", "proc")
        name = md["name"] + self.uniq
        if style == "proc":
            objs, order = self.module_items(md)
            m = h.Module(name=name)
            for n in order:
                m.add(objs[n], name=n)
            return m
        if style == "class":
            objs, order = self.module_items(md)
            return h.module(type(name, (), {n: objs[n] for n in order}))
        if style == "gen":
            def body(params: h.HasNoParams) -> h.Module:
                objs, order = self.module_items(md)
                m = h.Module()
                for n in order:
                    setattr(m, n, objs[n])
                return m
            body.__name__ = name
            body.__qualname__ = name
            return h.generator(body)()
        raise ValueError(style)

    def build(self):
        for md in self.d["mods"]:
            self.mods.append(self.build_module(md))
        return self.mods[self.d["top"]]


_keep = []      # every design built in this process stays alive: the flattening cache of hdl21 is keyed by id(object)


def do(job):
    out = dict(pkg=None, err=None)
    try:
        bb = BBuilder(job["design"], uniq=job.get("uniq", ""))
        _keep.append(bb)
        top = bb.build()
    except Exception as e:
        out["err"] = ["build", exc_info(e)]
        return out
    try:
        pkg = h.to_proto(top)
        out["pkg"] = pkg_json(pkg)
    except Exception as e:
        out["err"] = ["export", exc_info(e)]
        return out
    return out


def handler(p):
    return dict(results=[do(j) for j in p["jobs"]])


if __name__ == "__main__":
    main(handler)
