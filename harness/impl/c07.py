"""C07 implementation driver: run ONE call history over a design DAG in this (fresh) interpreter and report
* per call: accepted / error class, sha256 of the deterministic serialisation of the returned package (or of the netlist text)
* the (pass entry, module) visit log, recorded by logging SUBCLASSES of the default passes installed through the
  public `h.elab.set_elaborator(h.elab.Elaborator(passes=[...]))` API, with the public io of the module before / after
  the pass body (frame conditions of the model)
* final single-module exports, add()-after-elaboration outcomes.

payload: {"jobs": [job...], "mode": "direct" | "fork"}
  direct : the jobs are run one after the other IN THIS interpreter (the harness sends one job per interpreter)
  fork   : every job runs in its own child process forked from this interpreter right after `import hdl21`
           (no hdl21 object has been created yet, so the child has the state of a fresh interpreter)
job: {"design": [[kids, flav], ...], "ops": [[kind, arg], ...], "log": bool, "final": [mid...], "dump": bool}
  ops: ["E", tops] h.elaborate(list) | ["E1", m] h.elaborate(single) | ["P", tops] h.to_proto | ["N", tops] h.netlist
       ["NP", [kids, flav]] create a new parent module (next id) | ["ADD", m] try to add a signal to module m
       ["ADDX", [m, variant]] try add()/setattr on module m with a (new or RE-USED) name, see ADD_VARIANTS
* per bundle-flattening visit (strengthening round): the module right before the body (namespace, ports, bundles with
  their member paths, connection names of the instances of design modules) and right after it (namespace, ports,
  connection names): the input and the output of the flattening-names model Model/C07FlatNames.v
* per add(): whether the public containers / namespace of the module are what they were before the attempt
"""
import sys, os, json, hashlib, io as _io
from common import main, exc_info
import hdl21 as h
from hdl21.instantiable import io as hdl_io


# ------------------------------------------------------------------------------------------------- design builder
class Ctx:
    def __init__(self):
        self.mods = []          # id -> Module
        self.flavs = []         # id -> flavour
        self.ids = {}           # id(Module) -> mid
        inn = h.Bundle(name="Inn")
        inn.z = h.Signal()
        b = h.Bundle(name="Bnd")
        b.x = h.Signal()
        b.y = h.Signal(width=2)
        b.sub = inn()
        self.Bnd = b


def build_module(ctx, kids, flav):
    """Module number len(ctx.mods): ports vss, d[2], q, bundle ports bp, bq; one instance (or array) per entry of `kids`.
    `flav` bits: 1 = first child is an InstanceArray of 2; 2 = rotate the bundle-connection styles; 4 = wide array data;
    8 = an only child leaves its bq / q ports unconnected (NoConn); 16 = no primitive instances (a leaf is then a true leaf);
    32 = a scalar PORT named `bp_x`: the member x of the bundle port bp flattens to the dodged name `bp_x_` (every parent
         connects the scalar port as well); 64 = an INTERNAL signal named `bq_sub_z`: bq.sub.z flattens to `bq_sub_z_`,
         a name that cannot be derived from the bundle-level io of the module; 128 = an internal signal `bp_y` AND an
         internal signal `bp_y_`: bp.y flattens to `bp_y__`."""
    B = ctx.Bnd
    mid = len(ctx.mods)
    # flav >> 8 = t + 1: the module is a NAMESAKE of module t (a different object with the same name)
    m = h.Module(name=f"M{(flav >> 8) - 1}" if flav >> 8 else f"M{mid}")
    m.vss = h.Port()
    m.d = h.Input(width=2)
    m.q = h.Port()
    m.bp = B(port=True)
    m.bq = B(port=True)
    m.bi = B()
    m.sx = h.Signal()
    if flav & 32:
        m.bp_x = h.Input()
    if flav & 64:
        m.bq_sub_z = h.Signal()
    if flav & 128:
        m.bp_y = h.Signal()
        m.add(h.Signal(name="bp_y_"))
    if not flav & 16:
        m.r0 = h.R(r=1000)(p=m.bp.x, n=m.q)
        m.r1 = h.R(r=1000)(p=m.bq.sub.z, n=m.vss)
        m.r2 = h.R(r=1000)(p=m.d[0], n=m.bi.x)
        m.r3 = h.R(r=1000)(p=m.sx, n=m.bi.sub.z)
    rot = 1 if flav & 2 else 0
    n = len(kids)
    for j, c in enumerate(kids):
        child = ctx.mods[c]
        style = (j + rot) % 3
        if style == 0:
            bp = m.bp
        elif style == 1:
            bp = m.bi
        else:
            bp = h.AnonymousBundle(x=m.sx, y=m.d, sub=m.bi.sub)
        conns = dict(vss=m.vss, d=m.d, bp=bp)
        if ctx.flavs[c] & 32:
            conns["bp_x"] = m.sx if j % 2 else m.vss
        if n == 1 and flav & 8:
            conns.update(bq=h.NoConn(), q=h.NoConn())        # replace_noconn reads the child's bundle-level io
        elif n == 1:
            conns.update(bq=m.bq, q=m.q)
        elif j > 0:
            prev = getattr(m, f"u{j-1}")
            conns.update(bq=prev.bq, q=prev.q)       # port references between siblings (scalar and bundle-valued)
        if j == 0 and flav & 1:
            if flav & 4:
                m.dd = h.Signal(width=4)
                conns["d"] = m.dd
            inst = h.InstanceArray(of=child, n=2)(**conns)
        else:
            inst = child(**conns)
        m.add(inst, name=f"u{j}")
    if n > 1:
        m.rt = h.R(r=1000)(p=m.u0.q, n=m.vss)
    ctx.ids[id(m)] = mid
    ctx.mods.append(m)
    ctx.flavs.append(flav)
    return m


# ------------------------------------------------------------------------------------------------- logging passes
class Log:
    entries = []      # [entry index, mid, io before, io after]
    entry = -1
    npasses = 0
    ctx = None


def io_sig(m):
    """Public io of a module: scalar ports (name, width, direction) and bundle-valued ports (name, bundle name)."""
    out = []
    for n, p in hdl_io(m).items():
        if isinstance(p, h.Signal):
            out.append(["s", n, p.width, p.direction.name])
        else:
            out.append(["b", n, p.of.name])
    return sorted(out)


def bundle_paths(bdef):
    """Member paths of a bundle definition in the order `flatten_bundle_inst` lists them (own signals, then every
    sub-bundle's members with its name prepended), joined with "_" as `Path.to_name` does."""
    out = [s.name for s in bdef.signals.values()]
    for sub in bdef.bundles.values():
        out += [sub.name + "_" + p for p in bundle_paths(sub.of)]
    return out


def design_insts(m):
    """Instances and arrays of DESIGN modules, in the order the passes walk them: [child id, connection names]."""
    out = []
    for inst in list(m.instances.values()) + list(m.instarrays.values()):
        c = Log.ctx.ids.get(id(inst.of), -1) if isinstance(inst.of, h.Module) else -1
        if c >= 0:
            out.append([c, list(inst.conns.keys())])
    return out


def flat_pre(m):
    return dict(ns=list(m.namespace.keys()), ports=list(m.ports.keys()),
                bundles=[[n, bool(b.port), bundle_paths(b.of)] for n, b in m.bundles.items()], insts=design_insts(m))


def flat_post(m):
    return dict(ns=list(m.namespace.keys()), ports=list(m.ports.keys()), insts=design_insts(m))


def public_state(m):
    """What a Module publicly holds: its type-based containers and namespace (names and kinds) and its io."""
    ctrs = [[k, [[n, type(v).__name__, getattr(v, "width", None), id(v)] for n, v in getattr(m, k).items()]]
            for k in ("ports", "signals", "instances", "instarrays", "instbundles", "bundles", "namespace")]
    return [ctrs, m.name]


def install_logging_elaborator():
    default = h.elab.Elaborator.default()
    subs = {}

    def mk(cls):
        def elaborate(kls, tops):
            Log.entry = (Log.entry + 1) % Log.npasses
            return super(sub, kls).elaborate(tops)

        def elaborate_module(self, module):
            before = io_sig(module)
            flat = cls.__name__ == "BundleFlattener"
            pre = flat_pre(module) if flat else None
            r = super(sub, self).elaborate_module(module)
            Log.entries.append([Log.entry, Log.ctx.ids.get(id(module), -1), before, io_sig(module),
                                [pre, flat_post(module)] if flat else None])
            return r

        sub = type("Log" + cls.__name__, (cls,), dict(elaborate=classmethod(elaborate), elaborate_module=elaborate_module))
        return sub

    passes = []
    for cls in default.passes:
        if cls not in subs:          # a class listed twice keeps ONE subclass, hence one cache, as in the default list
            subs[cls] = mk(cls)
        passes.append(subs[cls])
    Log.npasses = len(passes)
    Log.entry = -1
    h.elab.set_elaborator(h.elab.Elaborator(passes=passes))
    return [c.__name__ for c in default.passes]


# ------------------------------------------------------------------------------------------------- add() variants
def first_name(mod, ctr, fallback):
    names = list(getattr(mod, ctr).keys())
    return names[0] if names else fallback


ADD_VARIANTS = 12


def add_variant(ctx, mod, v):
    """add() / setattr on `mod`.  Variant 0 uses a new name; the others RE-USE a name the module holds (before and after
    elaboration) for an attribute of another kind, or of the same kind."""
    if v == 0:
        mod.add(h.Signal(name="late_addition_x"))
    elif v == 1:
        setattr(mod, "q", h.Signal())                       # signal over port
    elif v == 2:
        setattr(mod, "sx", h.Input())                       # port over signal
    elif v == 3:
        mod.add(h.R(r=1000)(), name="sx")                   # instance over signal
    elif v == 4:
        setattr(mod, "vss", ctx.Bnd())                      # bundle over port
    elif v == 5:
        setattr(mod, first_name(mod, "instances", "q"), h.Signal())     # signal over instance (over port on a true leaf)
    elif v == 6:
        mod.add(h.Signal(name="d", width=2))                # signal over port, same width, via add()
    elif v == 7:
        setattr(mod, "sx", h.Signal(width=3))               # same kind, same name
    elif v == 8:
        setattr(mod, first_name(mod, "ports", "q") if len(mod.ports) < 4 else list(mod.ports.keys())[-1], h.Signal())
        # signal over the LAST port: after elaboration a flattened bundle port
    elif v == 9:
        setattr(mod, list(mod.signals.keys())[-1], h.Output())          # port over the last signal (flattened after elaboration)
    elif v == 10:
        mod.add(h.R(r=1000)(), name="q")                    # instance over port
    elif v == 11:
        mod.add(h.InstanceArray(of=h.R(r=1000), n=2), name="sx")       # instance array over signal
    else:
        raise ValueError(v)


# ------------------------------------------------------------------------------------------------- history
def digest(b):
    return hashlib.sha256(b).hexdigest()[:24]


def run_job(job):
    ctx = Ctx()
    Log.ctx = ctx
    Log.entries = []
    names = None
    if job.get("log"):
        names = install_logging_elaborator()
    for kids, flav in job["design"]:
        build_module(ctx, kids, flav)
    calls = []
    dump = job.get("dump")

    def call(kind, arg):
        n0 = len(Log.entries)
        rec = dict(ok=True)
        try:
            if kind == "E":
                r = h.elaborate([ctx.mods[t] for t in arg])
                rec["same"] = all(a is ctx.mods[t] for a, t in zip(r, arg)) and len(r) == len(arg)
            elif kind == "E1":
                r = h.elaborate(ctx.mods[arg])
                rec["same"] = r is ctx.mods[arg]
            elif kind == "P":
                pkg = h.to_proto([ctx.mods[t] for t in arg])
                rec["hash"] = digest(pkg.SerializeToString(deterministic=True))
                if dump:
                    rec["text"] = str(pkg)
            elif kind == "P1":
                pkg = h.to_proto(ctx.mods[arg])
                rec["hash"] = digest(pkg.SerializeToString(deterministic=True))
                if dump:
                    rec["text"] = str(pkg)
            elif kind == "N":
                dest = _io.StringIO()
                h.netlist([ctx.mods[t] for t in arg], dest=dest, fmt="spice")
                rec["hash"] = digest(dest.getvalue().encode())
                if dump:
                    rec["text"] = dest.getvalue()
            elif kind == "NP":
                build_module(ctx, arg[0], arg[1])
            elif kind == "ADD":
                before = public_state(ctx.mods[arg])
                try:
                    ctx.mods[arg].add(h.Signal(name="late_addition"))
                finally:
                    rec["unchanged"] = public_state(ctx.mods[arg]) == before
            elif kind == "ADDX":
                mod = ctx.mods[arg[0]]
                before = public_state(mod)
                try:
                    add_variant(ctx, mod, arg[1])
                finally:
                    rec["unchanged"] = public_state(mod) == before
            else:
                raise ValueError(kind)
        except Exception as e:
            rec = dict(ok=False, err=exc_info(e), **{k: v for k, v in rec.items() if k == "unchanged"})
        rec["log"] = [[e[0], e[1]] for e in Log.entries[n0:]]
        rec["frames"] = [[e[0], e[1], e[2] == e[3]] for e in Log.entries[n0:]]
        rec["flat"] = [[e[1]] + e[4] for e in Log.entries[n0:] if e[4] is not None]
        if dump:
            rec["io"] = Log.entries[n0:]
        return rec

    for kind, arg in job["ops"]:
        calls.append(call(kind, arg))
    final = [call("P1", m) for m in job.get("final", [])]
    return dict(calls=calls, final=final, passes=names)


def handler(payload):
    jobs = payload["jobs"]
    if payload.get("mode", "direct") == "direct":
        return dict(results=[run_job(j) for j in jobs])
    results = []
    for j in jobs:
        r, w = os.pipe()
        pid = os.fork()
        if pid == 0:
            try:
                os.close(r)
                out = json.dumps(run_job(j))
                with os.fdopen(w, "w") as f:
                    f.write(out)
            except BaseException as e:     # report, never fall back into the parent's loop
                try:
                    with os.fdopen(w, "w") as f:
                        f.write(json.dumps(dict(crash=repr(e)[:500])))
                except Exception:
                    pass
            finally:
                os._exit(0)
        os.close(w)
        with os.fdopen(r) as f:
            data = f.read()
        os.waitpid(pid, 0)
        results.append(json.loads(data) if data else dict(crash="no output"))
    return dict(results=results)


if __name__ == "__main__":
    main(handler)
