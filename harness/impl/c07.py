"""C07 implementation driver: run ONE call history over a design DAG in this (fresh) interpreter and report
* per call: accepted / error class, sha256 of the deterministic serialisation of the returned package (or of the netlist text)
* the (pass entry, module) visit log, recorded by logging SUBCLASSES of the default passes installed through the
  public `h.elab.set_elaborator(h.elab.Elaborator(passes=[...]))` API, with the public io of the module before / after
  the pass body (frame conditions of the model)
* final single-module exports, add()-after-elaboration outcomes.

payload: {"jobs": [job...], "mode": "direct" | "fork"}
  direct : the jobs are run one after the other IN THIS interpreter (the harness sends one job per interpreter)
  fork   : every job runs in its own child process forked from this interpreter right after `import hdl21`
           (no hdl21 object has been created yet, so the child has the state of a fresh interpreter)
job: {"design": [[kids, flav], ...], "ops": [[kind, arg], ...], "log": bool, "final": [mid...], "dump": bool}
  ops: ["E", tops] h.elaborate(list) | ["E1", m] h.elaborate(single) | ["P", tops] h.to_proto | ["N", tops] h.netlist
       ["NP", [kids, flav]] create a new parent module (next id) | ["ADD", m] try to add a signal to module m
"""
import sys, os, json, hashlib, io as _io
from common import main, exc_info
import hdl21 as h
from hdl21.instantiable import io as hdl_io


# ------------------------------------------------------------------------------------------------- design builder
class Ctx:
    def __init__(self):
        self.mods = []          # id -> Module
        self.ids = {}           # id(Module) -> mid
        inn = h.Bundle(name="Inn")
        inn.z = h.Signal()
        b = h.Bundle(name="Bnd")
        b.x = h.Signal()
        b.y = h.Signal(width=2)
        b.sub = inn()
        self.Bnd = b


def build_module(ctx, kids, flav):
    """Module number len(ctx.mods): ports vss, d[2], q, bundle ports bp, bq; one instance (or array) per entry of `kids`.
    `flav` bits: 1 = first child is an InstanceArray of 2; 2 = rotate the bundle-connection styles; 4 = wide array data;
    8 = an only child leaves its bq / q ports unconnected (NoConn); 16 = no primitive instances (a leaf is then a true leaf)."""
    B = ctx.Bnd
    mid = len(ctx.mods)
    m = h.Module(name=f"M{mid}")
    m.vss = h.Port()
    m.d = h.Input(width=2)
    m.q = h.Port()
    m.bp = B(port=True)
    m.bq = B(port=True)
    m.bi = B()
    m.sx = h.Signal()
    if not flav & 16:
        m.r0 = h.R(r=1000)(p=m.bp.x, n=m.q)
        m.r1 = h.R(r=1000)(p=m.bq.sub.z, n=m.vss)
        m.r2 = h.R(r=1000)(p=m.d[0], n=m.bi.x)
        m.r3 = h.R(r=1000)(p=m.sx, n=m.bi.sub.z)
    rot = 1 if flav & 2 else 0
    n = len(kids)
    for j, c in enumerate(kids):
        child = ctx.mods[c]
        style = (j + rot) % 3
        if style == 0:
            bp = m.bp
        elif style == 1:
            bp = m.bi
        else:
            bp = h.AnonymousBundle(x=m.sx, y=m.d, sub=m.bi.sub)
        conns = dict(vss=m.vss, d=m.d, bp=bp)
        if n == 1 and flav & 8:
            conns.update(bq=h.NoConn(), q=h.NoConn())        # replace_noconn reads the child's bundle-level io
        elif n == 1:
            conns.update(bq=m.bq, q=m.q)
        elif j > 0:
            prev = getattr(m, f"u{j-1}")
            conns.update(bq=prev.bq, q=prev.q)       # port references between siblings (scalar and bundle-valued)
        if j == 0 and flav & 1:
            if flav & 4:
                m.dd = h.Signal(width=4)
                conns["d"] = m.dd
            inst = h.InstanceArray(of=child, n=2)(**conns)
        else:
            inst = child(**conns)
        m.add(inst, name=f"u{j}")
    if n > 1:
        m.rt = h.R(r=1000)(p=m.u0.q, n=m.vss)
    ctx.ids[id(m)] = mid
    ctx.mods.append(m)
    return m


# ------------------------------------------------------------------------------------------------- logging passes
class Log:
    entries = []      # [entry index, mid, io before, io after]
    entry = -1
    npasses = 0
    ctx = None


def io_sig(m):
    """Public io of a module: scalar ports (name, width, direction) and bundle-valued ports (name, bundle name)."""
    out = []
    for n, p in hdl_io(m).items():
        if isinstance(p, h.Signal):
            out.append(["s", n, p.width, p.direction.name])
        else:
            out.append(["b", n, p.of.name])
    return sorted(out)


def install_logging_elaborator():
    default = h.elab.Elaborator.default()
    subs = {}

    def mk(cls):
        def elaborate(kls, tops):
            Log.entry = (Log.entry + 1) % Log.npasses
            return super(sub, kls).elaborate(tops)

        def elaborate_module(self, module):
            before = io_sig(module)
            r = super(sub, self).elaborate_module(module)
            Log.entries.append([Log.entry, Log.ctx.ids.get(id(module), -1), before, io_sig(module)])
            return r

        sub = type("Log" + cls.__name__, (cls,), dict(elaborate=classmethod(elaborate), elaborate_module=elaborate_module))
        return sub

    passes = []
    for cls in default.passes:
        if cls not in subs:          # a class listed twice keeps ONE subclass, hence one cache, as in the default list
            subs[cls] = mk(cls)
        passes.append(subs[cls])
    Log.npasses = len(passes)
    Log.entry = -1
    h.elab.set_elaborator(h.elab.Elaborator(passes=passes))
    return [c.__name__ for c in default.passes]


# ------------------------------------------------------------------------------------------------- history
def digest(b):
    return hashlib.sha256(b).hexdigest()[:24]


def run_job(job):
    ctx = Ctx()
    Log.ctx = ctx
    Log.entries = []
    names = None
    if job.get("log"):
        names = install_logging_elaborator()
    for kids, flav in job["design"]:
        build_module(ctx, kids, flav)
    calls = []
    dump = job.get("dump")

    def call(kind, arg):
        n0 = len(Log.entries)
        rec = dict(ok=True)
        try:
            if kind == "E":
                r = h.elaborate([ctx.mods[t] for t in arg])
                rec["same"] = all(a is ctx.mods[t] for a, t in zip(r, arg)) and len(r) == len(arg)
            elif kind == "E1":
                r = h.elaborate(ctx.mods[arg])
                rec["same"] = r is ctx.mods[arg]
            elif kind == "P":
                pkg = h.to_proto([ctx.mods[t] for t in arg])
                rec["hash"] = digest(pkg.SerializeToString(deterministic=True))
                if dump:
                    rec["text"] = str(pkg)
            elif kind == "P1":
                pkg = h.to_proto(ctx.mods[arg])
                rec["hash"] = digest(pkg.SerializeToString(deterministic=True))
                if dump:
                    rec["text"] = str(pkg)
            elif kind == "N":
                dest = _io.StringIO()
                h.netlist([ctx.mods[t] for t in arg], dest=dest, fmt="spice")
                rec["hash"] = digest(dest.getvalue().encode())
                if dump:
                    rec["text"] = dest.getvalue()
            elif kind == "NP":
                build_module(ctx, arg[0], arg[1])
            elif kind == "ADD":
                ctx.mods[arg].add(h.Signal(name="late_addition"))
            else:
                raise ValueError(kind)
        except Exception as e:
            rec = dict(ok=False, err=exc_info(e))
        rec["log"] = [[e[0], e[1]] for e in Log.entries[n0:]]
        rec["frames"] = [[e[0], e[1], e[2] == e[3]] for e in Log.entries[n0:]]
        if dump:
            rec["io"] = Log.entries[n0:]
        return rec

    for kind, arg in job["ops"]:
        calls.append(call(kind, arg))
    final = [call("P1", m) for m in job.get("final", [])]
    return dict(calls=calls, final=final, passes=names)


def handler(payload):
    jobs = payload["jobs"]
    if payload.get("mode", "direct") == "direct":
        return dict(results=[run_job(j) for j in jobs])
    results = []
    for j in jobs:
        r, w = os.pipe()
        pid = os.fork()
        if pid == 0:
            try:
                os.close(r)
                out = json.dumps(run_job(j))
                with os.fdopen(w, "w") as f:
                    f.write(out)
            except BaseException as e:     # report, never fall back into the parent's loop
                try:
                    with os.fdopen(w, "w") as f:
                        f.write(json.dumps(dict(crash=repr(e)[:500])))
                except Exception:
                    pass
            finally:
                os._exit(0)
        os.close(w)
        with os.fdopen(r) as f:
            data = f.read()
        os.waitpid(pid, 0)
        results.append(json.loads(data) if data else dict(crash="no output"))
    return dict(results=results)


if __name__ == "__main__":
    main(handler)
