"""C18 implementation driver: edit histories on hdl21.Module / hdl21.Bundle, observed after every operation.

job = dict(ctr="module"|"bundle", ops=[...], names=[observed alphabet], export=bool)
ops:  ["set", name, val] | ["add", val, name|None] | ["del", name] | ["elab"]
val:  [kind, own_name|None]   kinds: port sig inst arr ibun bun  (HDL)  str none int mod gen bdef func (non-HDL)
      signals with a direction: in out inout (h.Input() ..: port-visible), sigin sigout siginout (h.Signal(direction=..): INTERNAL)
Every op creates a FRESH value; its identity is the op index.

observation after each op (property-level only):
  ns    : [[key, id, cls, parent_ok, name_ok], ...]   namespace in key order; cls = class of the live object
          (0 port-visible signal, 1 internal signal, 2 Instance, 3 InstanceArray, 4 InstanceBundle, 5 BundleInstance, 6 other)
  views : six lists [[key, id], ...] in the order ports, signals, instances, instarrays, instbundles, bundles
          (a Bundle has only signals and bundles: the others are reported empty)
  gets  : [[name, get(name), getattr(name)], ...] over the alphabet (plus every key found in a container);
          id >= 0 our object, -1 None / AttributeError, -2 some other Python object
"""
from common import main, exc_info
import hdl21 as h

VIEWS_M = ["ports", "signals", "instances", "instarrays", "instbundles", "bundles"]

Leaf = h.Module(name="Leaf")          # no ports: instances need no connections


@h.bundle
class Sub:                             # sub-bundle with one signal `x`
    x = h.Signal()


@h.generator
def Gen(p: h.HasNoParams) -> h.Module:
    return h.Module()


def _func():
    return None


def mkval(spec):
    kind, nm = spec
    kw = {} if nm is None else dict(name=nm)
    if kind == "port":
        return h.Port(**kw)
    if kind == "sig":
        return h.Signal(**kw)
    # Signals whose `direction` is not NONE: port constructors (port-visible), and INTERNAL signals that carry a direction
    PD = h.signal.PortDir
    if kind == "in":
        return h.Input(**kw)
    if kind == "out":
        return h.Output(**kw)
    if kind == "inout":
        return h.Inout(**kw)
    if kind == "sigin":
        return h.Signal(direction=PD.INPUT, **kw)
    if kind == "sigout":
        return h.Signal(direction=PD.OUTPUT, **kw)
    if kind == "siginout":
        return h.Signal(direction=PD.INOUT, **kw)
    if kind == "inst":
        return h.Instance(of=Leaf, **kw)
    if kind == "arr":
        return h.InstanceArray(of=Leaf, n=2, **kw)
    if kind == "ibun":
        return h.Pair(of=Leaf, **kw)
    if kind == "bun":
        return h.BundleInstance(of=Sub, **kw)
    if kind == "str":
        return "Renamed"
    if kind == "none":
        return None
    if kind == "int":
        return 7
    if kind == "tup":         # plain class-body data, e.g. lanes = ("a", "b")
        return ("a", "b")
    if kind == "mod":
        return h.Module(name="NotAnAttr")
    if kind == "gen":
        return Gen
    if kind == "bdef":
        return Sub
    if kind == "func":
        return _func
    if kind == "role":        # a Role object: part of a Bundle's `roles`, never an attribute of a Module or a Bundle
        return h.Role(name="Host")
    if kind == "roleset":
        return h.RoleSet.from_names(["Host", "Device"])
    raise ValueError(kind)


def cls_of(o):
    if isinstance(o, h.Signal):
        return 0 if o.vis == h.signal.Visibility.PORT else 1
    if isinstance(o, h.Instance):
        return 2
    if isinstance(o, h.InstanceArray):
        return 3
    if isinstance(o, h.InstanceBundle):
        return 4
    if isinstance(o, h.BundleInstance):
        return 5
    return 6


def observe(c, is_mod, ids, names):
    def oid(o):
        if o is None:
            return -1
        return ids.get(id(o), -2)
    ns = object.__getattribute__(c, "namespace") if "namespace" in vars(c) else None
    if not isinstance(ns, dict):
        return dict(broken="namespace is gone")
    out_ns = []
    for k, o in ns.items():
        par = getattr(o, "_parent_module" if is_mod else "_parent_bundle", None) is c
        out_ns.append([str(k), oid(o), cls_of(o), bool(par), getattr(o, "name", None) == k])
    views = []
    seen = list(ns.keys())
    for v in VIEWS_M:
        d = vars(c).get(v, None)
        if d is None and (is_mod or v in ("signals", "bundles")):
            return dict(broken=f"view {v} is gone")
        d = d or {}
        if not isinstance(d, dict):
            return dict(broken=f"view {v} is not a dict")
        views.append([[str(k), oid(o)] for k, o in d.items()])
        seen += list(d.keys())
    gets = []
    done = set()
    for n in list(names) + seen:
        if n in done:
            continue
        done.add(n)
        g = oid(c.get(n))
        try:
            a = oid(getattr(c, n))
        except AttributeError:
            a = -1
        gets.append([n, g, a])
    return dict(ns=out_ns, views=views, gets=gets)


def export_names(c, is_mod, names):
    """Names of the edited module in the exported package (ports, signals, instances), and which alphabet names
    have flattened descendants `n_...`.  A Bundle is exported through a wrapper module holding one instance `w` of it."""
    try:
        if is_mod:
            top, pre = c, ""
        else:
            top = h.Module(name="Wrap")
            top.w = c()
            pre = "w_"
        if top.name is None or not isinstance(top.name, str):
            top.name = "Edited"
        pkg = h.to_proto(top)
        pm = pkg.modules[-1]
        sigs = [s.name for s in pm.signals]
        ports = [p.signal for p in pm.ports]
        insts = [i.name for i in pm.instances]
        if pre:
            sigs = [s[len(pre):] for s in sigs if s.startswith(pre)]
        derived = [n for n in names if any(x.startswith(n + "_") for x in sigs + insts)]
        return dict(sigs=sigs, ports=ports, insts=insts, derived=derived)
    except Exception as e:
        return dict(err=exc_info(e))


def do_history(job, c=None, ids=None, keep=None, base=0):
    is_mod = job["ctr"] == "module"
    if c is None:
        c = h.Module(name="Edited") if is_mod else h.Bundle(name="Edited")
    ids = {} if ids is None else ids
    keep = [] if keep is None else keep           # keep every created object alive: id() must stay unique
    steps = []
    names = job["names"]
    for k, op in enumerate(job["ops"], start=base):
        acc, err = True, None
        try:
            if op[0] == "set":
                v = mkval(op[2])
                keep.append(v)
                if cls_of(v) != 6:
                    ids[id(v)] = k
                setattr(c, op[1], v)
            elif op[0] == "add":
                v = mkval(op[1])
                keep.append(v)
                if cls_of(v) != 6:
                    ids[id(v)] = k
                r = c.add(v) if op[2] is None else c.add(v, name=op[2])
                if r is not v:
                    err = dict(cls="ReturnValue", msg="add() did not return its argument")
            elif op[0] == "del":
                delattr(c, op[1])
            elif op[0] == "elab":
                h.elaborate(c)
            else:
                raise ValueError(op[0])
        except Exception as e:
            acc, err = False, exc_info(e)
        steps.append(dict(acc=acc, err=err, obs=observe(c, is_mod, ids, names)))
    out = dict(steps=steps)
    if job.get("export", True):
        out["export"] = export_names(c, is_mod, names)
    return out


def do_world(job):
    """Strengthening round: several containers sharing LIVE objects (object identity re-use).

    job = dict(ctrs=["module"|"bundle", ...], objs=[[kind, own_name], ...], ops=[...], names=[...], export=k|None)
    ops:  ["set", c, name, x] | ["add", c, x, name|None] | ["vis", x, bool] | ["name", x, name|None]
          | ["del", c, name] | ["elab", c]          (c = container index, x = object index)
    Every object is created once, up front; operations hand the SAME object to containers again and again.
    After every operation ALL containers are observed."""
    ctrs = []
    for k, kind in enumerate(job["ctrs"]):
        ctrs.append((h.Module(name=f"Edited{k}") if kind == "module" else h.Bundle(name=f"Edited{k}"), kind == "module"))
    objs, ids = [], {}
    for x, spec in enumerate(job["objs"]):
        v = mkval(spec)
        objs.append(v)
        if cls_of(v) != 6:
            ids[id(v)] = x
    names = job["names"]
    steps = []
    for op in job["ops"]:
        acc, err = True, None
        try:
            if op[0] == "set":
                setattr(ctrs[op[1]][0], op[2], objs[op[3]])
            elif op[0] == "add":
                c, v = ctrs[op[1]][0], objs[op[2]]
                r = c.add(v) if op[3] is None else c.add(v, name=op[3])
                if r is not v:
                    err = dict(cls="ReturnValue", msg="add() did not return its argument")
            elif op[0] == "vis":
                objs[op[1]].vis = h.signal.Visibility.PORT if op[2] else h.signal.Visibility.INTERNAL
            elif op[0] == "dir":
                objs[op[1]].direction = dict(none=h.signal.PortDir.NONE, input=h.signal.PortDir.INPUT,
                                             output=h.signal.PortDir.OUTPUT, inout=h.signal.PortDir.INOUT)[op[2]]
            elif op[0] == "name":
                objs[op[1]].name = op[2]
            elif op[0] == "del":
                delattr(ctrs[op[1]][0], op[2])
            elif op[0] == "elab":
                h.elaborate(ctrs[op[1]][0])
            else:
                raise ValueError(op[0])
        except Exception as e:
            acc, err = False, exc_info(e)
        last = len(steps) == len(job["ops"]) - 1
        steps.append(dict(acc=acc, err=err, obs=[observe(c, is_mod, ids, names) for c, is_mod in ctrs]
                          if (last or job.get("observe") != "last") else []))
    out = dict(steps=steps)
    k = job.get("export")
    if k is not None:
        out["export"] = export_names(ctrs[k][0], ctrs[k][1], names)
    return out


def mk_class(name, items):
    """A class whose body assigns the items in order (keys are distinct)."""
    body = {}
    for k, v in items:
        body[k] = v
    return type(name, (), body)


def do_classbody(job):
    """Class-style definition vs. the procedural one with the same items."""
    is_mod = job["ctr"] == "module"
    names = job["names"]
    res = {}
    # class style
    ids, keep = {}, []
    items = []
    for k, (key, spec) in enumerate(job["items"]):
        v = mkval(spec)
        keep.append(v)
        if cls_of(v) != 6:
            ids[id(v)] = k
        items.append((key, v))
    try:
        cls = mk_class("Edited", items)
        c = h.module(cls) if is_mod else h.bundle(cls)
        res["cls"] = dict(acc=True, obs=observe(c, is_mod, ids, names))
    except Exception as e:
        res["cls"] = dict(acc=False, err=exc_info(e))
    return res


def do_classhist(job):
    """Class-style definition (items may bind public names to plain data), then an edit history on the result.
    Identities: items 0..len(items)-1, then one per operation."""
    is_mod = job["ctr"] == "module"
    ids, keep, items = {}, [], []
    for k, (key, spec) in enumerate(job["items"]):
        v = mkval(spec)
        keep.append(v)
        if cls_of(v) != 6:
            ids[id(v)] = k
        items.append((key, v))
    try:
        c = (h.module if is_mod else h.bundle)(mk_class("Edited", items))
    except Exception as e:
        return dict(cls=dict(acc=False, err=exc_info(e)), steps=[])
    res = dict(cls=dict(acc=True, obs=observe(c, is_mod, ids, job["names"])))
    res.update(do_history(job, c=c, ids=ids, keep=keep, base=len(items)))
    return res


def do_static(job):
    """History-independent rejections: sub-classing, decorated classes with bases, a class as Module name."""
    out = {}
    def rejected(f):
        try:
            f()
            return False
        except Exception:
            return True
    def sub_m():
        class X(h.Module):
            pass
    def sub_b():
        class X(h.Bundle):
            pass
    class Base:
        pass
    def dec_m():
        @h.module
        class X(Base):
            a = h.Signal()
    def dec_b():
        @h.bundle
        class X(Base):
            a = h.Signal()
    out["subclass_module"] = rejected(sub_m)
    out["subclass_bundle"] = rejected(sub_b)
    out["decorated_with_base_module"] = rejected(dec_m)
    out["decorated_with_base_bundle"] = rejected(dec_b)
    out["module_decorator_on_non_class"] = rejected(lambda: h.module(h.Signal()))
    # public attribute names of fresh objects: the names for which Python never reaches __getattr__
    out["public_module"] = sorted(n for n in dir(h.Module(name="T")) if not n.startswith("_"))
    out["public_bundle"] = sorted(n for n in dir(h.Bundle(name="T")) if not n.startswith("_"))
    return out


def handler(p):
    f = dict(history=do_history, classbody=do_classbody, classhist=do_classhist, static=do_static, world=do_world)[p["kind"]]
    return dict(results=[f(j) for j in p["jobs"]])


main(handler)
