"""C17 implementation driver: build Sims (procedurally, through add / the add-methods, as @sim classes),
read them back, export them with hdl21.sim.to_proto and canonicalise the resulting SimInput messages."""
import math
from decimal import Decimal
from fractions import Fraction
from pathlib import Path
from common import main, exc_info
import hdl21 as h
import hdl21.sim as hs
from hdl21.sim import data as D
from hdl21.prefix import Prefix, Prefixed


# ------------------------------------------------------------------------------------------------
# numbers
# ------------------------------------------------------------------------------------------------
def dec_me(d: Decimal):
    sign, digits, exp = d.as_tuple()
    if not isinstance(exp, int):
        raise ValueError(f"non-finite Decimal {d}")
    m = int("".join(map(str, digits)) or "0")
    return (-m if sign else m), exp


def dbl_enc(f: float):
    if f != f:
        return "nan"
    if f in (math.inf, -math.inf):
        return "inf" if f > 0 else "-inf"
    neg = math.copysign(1.0, f) < 0
    a = abs(f)
    if a == 0.0:
        return [neg, 0, -1074]
    m, ex = math.frexp(a)
    M, E = int(m * (1 << 53)), ex - 53
    if E < -1074:
        sh = -1074 - E
        assert M % (1 << sh) == 0
        M, E = M >> sh, -1074
    assert math.ldexp(M, E) == a
    return [neg, M, E]


def exact_float(m, e):
    """the double nearest to m*10^e (CPython's int/int true division is correctly rounded)"""
    fr = Fraction(m) * (Fraction(10) ** e)
    try:
        return fr.numerator / fr.denominator
    except OverflowError:
        return math.inf if fr > 0 else -math.inf


def prefix_of(pe):
    for p in Prefix:
        if p.value == pe:
            return p
    raise ValueError(f"no Prefix member with exponent {pe}")


def mk_num(n):
    """description of a Scalar -> the Python value written by the user"""
    if n[0] == "lit":
        s, form = n[1], n[2]
        return h.Literal(s) if form == "lit" else s
    _, nm, ne, pe, form = n
    d = Decimal((1 if nm < 0 else 0, tuple(int(c) for c in str(abs(nm))), ne))
    if form == "int":
        assert pe == 0 and ne >= 0
        return nm * 10 ** ne
    if form == "float":
        assert pe == 0
        f = float(d)
        assert Decimal(repr(f)) == d, (f, d)
        return f
    if form == "str":
        assert pe == 0
        return f"{nm}e{ne}" if ne else str(nm)
    if form == "dec":
        assert pe == 0
        return d
    if form == "pre":
        return Prefixed.new(d, prefix_of(pe))
    if form == "mul":       # written as `number * h.prefix.X`
        assert ne >= 0
        return (nm * 10 ** ne) * prefix_of(pe)
    if form == "dmul":      # a Decimal (of any number of digits) times a prefix
        return d * prefix_of(pe)
    if form == "smul":      # a numeric string times a prefix
        return (f"{nm}e{ne}" if ne else str(nm)) * prefix_of(pe)
    raise ValueError(form)


# ------------------------------------------------------------------------------------------------
# building
# ------------------------------------------------------------------------------------------------
class Ctx:
    def __init__(self, mods):
        self.mods = mods
        self.built = {}
        self.byid = {}
        self.sigs = {}

    def module(self, mid):
        mid = str(mid)
        if mid in self.built:
            return self.built[mid]
        d = self.mods[mid]
        m = h.Module(name=d["name"])
        m.add(h.Signal(name=f"mk{mid}"))
        for i, w in enumerate(d.get("ports", [])):
            m.add(h.Port(width=w), name=f"p{i}")
        for i, ws in enumerate(d.get("bports", [])):
            b = h.Bundle(name=f"B{mid}_{i}")
            for j, w in enumerate(ws):
                b.add(h.Signal(width=w), name=f"s{j}")
            m.add(b(port=True), name=f"bp{i}")
        for j, k in enumerate(d.get("kids", [])):
            m.add(self.module(k)(), name=f"i{j}")
        self.built[mid] = m
        self.byid[id(m)] = int(mid)
        return m

    def signal(self, name):
        if name not in self.sigs:
            self.sigs[name] = h.Signal(name=name)
        return self.sigs[name]


def mk_sweep(s):
    if s[0] == "lin":
        return D.LinearSweep(mk_num(s[1]), mk_num(s[2]), mk_num(s[3]))
    if s[0] == "log":
        return D.LogSweep(mk_num(s[1]), mk_num(s[2]), s[3])
    if s[0] == "pts":
        return D.PointSweep([mk_num(x) for x in s[1]])
    raise ValueError(s)


def mk_var(v, top):
    if v[0] == "s":
        return v[1]
    if v[0] == "p":
        return D.Param(val=1, name=v[1])
    if v[0] == "pref":
        return top[v[1]]
    raise ValueError(v)


_vdc = [None]


def mk_attr(ctx, a, top):
    """-> (class, kwargs); top = objects of the earlier top-level items (for aliasing)"""
    t = a[0]
    if t == "ref":
        return None, top[a[1]]
    if t == "op":
        return D.Op, dict(name=a[1])
    if t == "dc":
        return D.Dc, dict(var=mk_var(a[1], top), sweep=mk_sweep(a[2]), name=a[3])
    if t == "ac":
        return D.Ac, dict(sweep=D.LogSweep(mk_num(a[1]), mk_num(a[2]), a[3]), name=a[4])
    if t == "tran":
        kw = dict(tstop=mk_num(a[1]), name=a[3])
        if a[2] is not None:
            kw["tstep"] = mk_num(a[2])
        return D.Tran, kw
    if t == "noise":
        o = a[1]
        if o[0] == "tuple":
            out = tuple(ctx.signal(x) if x is not None else 7 for x in o[1])
        elif o[0] == "conn":
            out = ctx.signal(o[1])
        elif o[0] == "str":
            out = o[1]
        else:
            out = 3.5
        src = a[2]
        if src[0] == "inst":
            inst = h.Instance(name=src[1], of=h.primitives.Vdc())
            source = inst
        else:
            source = src[1]
        return D.Noise, dict(output=out, input_source=source, sweep=D.LogSweep(mk_num(a[3]), mk_num(a[4]), a[5]), name=a[6])
    if t == "sweep":
        return D.SweepAnalysis, dict(inner=[mk_obj(ctx, x, top) for x in a[1]], var=mk_var(a[2], top), sweep=mk_sweep(a[3]), name=a[4])
    if t == "monte":
        return D.MonteCarlo, dict(inner=[mk_obj(ctx, x, top) for x in a[1]], npts=a[2], name=a[3])
    if t == "custom":
        return D.CustomAnalysis, dict(cmd=a[1], name=a[2])
    if t == "include":
        return D.Include, dict(path=mk_path(a[1], a[2] if len(a) > 2 else "str"))
    if t == "lib":
        return D.Lib, dict(path=mk_path(a[1], a[3] if len(a) > 3 else "str"), section=a[2])
    if t == "save":
        g = a[1]
        if g[0] == "mode":
            targ = D.SaveMode[g[1]]
        elif g[0] == "sig":
            targ = ctx.signal(g[1])
        elif g[0] == "sigs":
            targ = [ctx.signal(x) for x in g[1]]
        elif g[0] == "name":
            targ = g[1]
        elif g[0] == "names":
            targ = list(g[1])
        else:
            raise ValueError(g)
        return D.Save, dict(targ=targ)
    if t == "meas":
        an = a[1]
        if an[0] == "s":
            target = an[1]
        elif an[0] == "anref":
            target = top[an[1]]
        else:
            target = default_analysis(an[1])
        return D.Meas, dict(analysis=target, expr=a[2], name=a[3])
    if t == "param":
        return D.Param, dict(name=a[1], val=mk_num(a[2]))
    if t == "literal":
        return h.Literal, dict(text=a[1])
    if t == "options":
        v = a[2]
        return D.Options, dict(name=a[1], value=(v[1] if v[0] == "bool" else mk_num(v)))
    raise ValueError(a)


def mk_path(w, form):
    """what the designer writes as the path of an Include / Lib: the text, or a pathlib.Path of it"""
    if form == "str":
        return w
    if form == "path":
        return Path(w)
    raise ValueError(form)


def default_analysis(kind):
    if kind == "op":
        return D.Op()
    if kind == "dc":
        return D.Dc(var="x", sweep=D.PointSweep([1]))
    if kind == "ac":
        return D.Ac(sweep=D.LogSweep(1, 2, 3))
    if kind == "tran":
        return D.Tran(tstop=1)
    if kind == "noise":
        return D.Noise(output="o", input_source="v", sweep=D.LogSweep(1, 2, 3))
    if kind == "sweep":
        return D.SweepAnalysis(inner=[], var="x", sweep=D.PointSweep([1]))
    if kind == "monte":
        return D.MonteCarlo(inner=[], npts=1)
    if kind == "custom":
        return D.CustomAnalysis(cmd="c")
    raise ValueError(kind)


def mk_obj(ctx, a, top):
    cls, kw = mk_attr(ctx, a, top)
    if cls is None:
        return kw
    return cls(**kw)


def build_sim(ctx, s):
    style = s["style"]
    items = s["items"]
    if style == "class":
        body = {}
        top = []
        for key, v in items:
            if v[0] == "tb":
                body[key] = ctx.module(v[1])
                top.append(None)
            elif v[0] == "badtb":
                body[key] = 5
                top.append(None)
            elif v[0] == "simname":
                body[key] = v[1]
                top.append(None)
            elif v[0] == "other":
                body[key] = v[1]
                top.append(None)
            else:
                o = mk_obj(ctx, v, top)
                body[key] = o
                top.append(o)
        cls = type("GenSim", (), body)
        return hs.sim(cls)
    tb = ctx.module(s["tb"])
    if style == "proc":
        top = []
        for _, v in items:
            top.append(mk_obj(ctx, v, top))
        return hs.Sim(tb=tb, attrs=list(top))
    if style == "add":
        sim = hs.Sim(tb=tb)
        top = []
        pos = 0
        for g in s["groups"]:
            n, meth = g
            part = items[pos:pos + n]
            pos += n
            if meth and n == 1 and part[0][1][0] != "ref":
                cls, kw = mk_attr(ctx, part[0][1], top)
                o = getattr(sim, cls.__name__.lower())(**kw)
                top.append(o)
            else:
                objs = []
                for _, v in part:
                    objs.append(mk_obj(ctx, v, top + objs))
                r = sim.add(*objs)
                if (r is not objs[0]) if len(objs) == 1 else (list(r) != objs):
                    raise RuntimeError("Sim.add did not return the inserted attributes")
                top.extend(objs)
        assert pos == len(items)
        return sim
    raise ValueError(style)


# ------------------------------------------------------------------------------------------------
# reading a Sim back
# ------------------------------------------------------------------------------------------------
class Reader:
    def __init__(self):
        self.ftab = {}

    def num(self, x):
        if isinstance(x, Prefixed):
            nm, ne = dec_me(x.number)
            pe = x.prefix.value
            self.note(nm, ne + pe, lambda: float(x))
            return ["pre", nm, ne, pe]
        if isinstance(x, h.Literal):
            return ["lit", x.text]
        raise TypeError(f"unexpected Scalar {x!r}")

    def note(self, m, e, f):
        # float(value) depends on how the value is split into number and prefix: keep every observed result
        try:
            v = dbl_enc(f())
        except Exception as ex:
            v = "nan"
        self.ftab.setdefault((m, e), [])
        if v not in self.ftab[(m, e)]:
            self.ftab[(m, e)].append(v)

    def ival(self, n):
        if isinstance(n, bool) or not isinstance(n, int):
            raise TypeError(f"unexpected int field {n!r}")
        return n

    def sweep(self, s):
        if isinstance(s, D.LinearSweep):
            return ["lin", self.num(s.start), self.num(s.stop), self.num(s.step)]
        if isinstance(s, D.LogSweep):
            n = self.ival(s.npts)
            self.note(n, 0, lambda: float(n))
            return ["log", self.num(s.start), self.num(s.stop), n]
        if isinstance(s, D.PointSweep):
            return ["pts", [self.num(x) for x in s.points]]
        raise TypeError(f"unexpected sweep {s!r}")

    def var(self, v):
        if isinstance(v, str):
            return ["s", v]
        if isinstance(v, D.Param):
            return ["p", v.name]
        raise TypeError(f"unexpected var {v!r}")

    def attr(self, a):
        if isinstance(a, D.Op):
            return ["op", a.name]
        if isinstance(a, D.Dc):
            return ["dc", self.var(a.var), self.sweep(a.sweep), a.name]
        if isinstance(a, D.Ac):
            return ["ac", self.num(a.sweep.start), self.num(a.sweep.stop), self.ival(a.sweep.npts), a.name]
        if isinstance(a, D.Tran):
            return ["tran", self.num(a.tstop), None if a.tstep is None else self.num(a.tstep), a.name]
        if isinstance(a, D.Noise):
            o = a.output
            if isinstance(o, tuple):
                out = ["tuple", [x.name if isinstance(x, h.Signal) else None for x in o]]
            elif isinstance(o, h.Signal):
                out = ["conn", o.name]
            elif isinstance(o, str):
                out = ["str", o]
            else:
                out = ["other"]
            s = a.input_source
            src = ["inst", s.name] if isinstance(s, h.Instance) else ["str", s]
            return ["noise", out, src, self.num(a.sweep.start), self.num(a.sweep.stop), self.ival(a.sweep.npts), a.name]
        if isinstance(a, D.SweepAnalysis):
            return ["sweep", [self.attr(x) for x in a.inner], self.var(a.var), self.sweep(a.sweep), a.name]
        if isinstance(a, D.MonteCarlo):
            return ["monte", [self.attr(x) for x in a.inner], self.ival(a.npts), a.name]
        if isinstance(a, D.CustomAnalysis):
            return ["custom", a.cmd, a.name]
        if isinstance(a, D.Include):
            return ["include", str(a.path)]
        if isinstance(a, D.Lib):
            return ["lib", str(a.path), a.section]
        if isinstance(a, D.Save):
            t = a.targ
            if isinstance(t, D.SaveMode):
                return ["save", ["mode", t.name]]
            if isinstance(t, h.Signal):
                return ["save", ["sig", t.name]]
            if isinstance(t, str):
                return ["save", ["name", t]]
            if isinstance(t, list) and t and all(isinstance(x, h.Signal) for x in t):
                return ["save", ["sigs", [x.name for x in t]]]
            if isinstance(t, list) and all(isinstance(x, str) for x in t):
                return ["save", ["names", list(t)]]
            raise TypeError(f"unexpected save target {t!r}")
        if isinstance(a, D.Meas):
            an = ["s", a.analysis] if isinstance(a.analysis, str) else ["an", a.analysis.tp.value]
            return ["meas", an, a.expr, a.name]
        if isinstance(a, D.Param):
            return ["param", a.name, self.num(a.val)]
        if isinstance(a, h.Literal):
            return ["literal", a.text]
        if isinstance(a, D.Options):
            v = a.value
            if isinstance(v, bool):
                return ["options", a.name, ["bool", v]]
            return ["options", a.name, self.num(v)]
        raise TypeError(f"unexpected attribute {a!r}")


# ------------------------------------------------------------------------------------------------
# canonical SimInput
# ------------------------------------------------------------------------------------------------
def strip(name):
    return name[len("__main__."):] if name.startswith("__main__.") else name


def c_pval(v):
    k = v.WhichOneof("value")
    if k == "prefixed":
        p = v.prefixed
        nk = p.WhichOneof("number")
        import vlsir
        pe = prefix_exp(p.prefix)
        if nk == "int64_value":
            return ["dec", p.int64_value, pe]
        if nk == "string_value":
            m, e = dec_me(Decimal(p.string_value))
            return ["dec", m, e + pe]
        return ["other", str(nk)]
    if k == "literal":
        return ["lit", v.literal]
    if k == "int64_value":
        return ["int", v.int64_value]
    if k == "bool_value":
        return ["bool", v.bool_value]
    return ["other", str(k)]


_pexp = {}


def prefix_exp(p):
    import vlsir
    if not _pexp:
        names = dict(YOCTO=-24, ZEPTO=-21, ATTO=-18, FEMTO=-15, PICO=-12, NANO=-9, MICRO=-6, MILLI=-3, CENTI=-2, DECI=-1,
                     UNIT=0, DECA=1, HECTO=2, KILO=3, MEGA=6, GIGA=9, TERA=12, PETA=15, EXA=18, ZETTA=21, YOTTA=24)
        for n, val in vlsir.SIPrefix.items():
            _pexp[val] = names[n]
    return _pexp[p]


def c_sweep(s):
    k = s.WhichOneof("tp")
    if k == "linear":
        return ["lin", dbl_enc(s.linear.start), dbl_enc(s.linear.stop), dbl_enc(s.linear.step)]
    if k == "log":
        return ["log", dbl_enc(s.log.start), dbl_enc(s.log.stop), dbl_enc(s.log.npts)]
    if k == "points":
        extra = [s.points.stop, s.points.npts]
        return ["pts", [dbl_enc(x) for x in s.points.points]] + ([] if extra == [0.0, 0.0] else ["extra"])
    return ["none"]


def c_an(a):
    k = a.WhichOneof("an")
    x = getattr(a, k) if k else None
    if k is None:
        return ["none"]
    if len(x.ctrls):
        return ["withctrls"]
    if k == "op":
        return ["op", x.analysis_name]
    if k == "dc":
        return ["dc", x.analysis_name, x.indep_name, c_sweep(x.sweep)]
    if k == "ac":
        return ["ac", x.analysis_name, dbl_enc(x.fstart), dbl_enc(x.fstop), x.npts]
    if k == "tran":
        if len(x.ic):
            return ["withic"]
        return ["tran", x.analysis_name, dbl_enc(x.tstop), dbl_enc(x.tstep)]
    if k == "noise":
        return ["noise", x.analysis_name, x.output_p, x.output_n, x.input_source, dbl_enc(x.fstart), dbl_enc(x.fstop), x.npts]
    if k == "sweep":
        return ["sweep", x.analysis_name, x.variable, c_sweep(x.sweep), [c_an(y) for y in x.an]]
    if k == "monte":
        return ["monte", x.analysis_name, x.npts, x.seed, [c_an(y) for y in x.an]]
    if k == "custom":
        return ["custom", x.analysis_name, x.cmd]
    return ["none"]


def c_ctrl(c):
    k = c.WhichOneof("ctrl")
    if k == "include":
        return ["include", c.include.path]
    if k == "lib":
        return ["lib", c.lib.path, c.lib.section]
    if k == "save":
        sk = c.save.WhichOneof("save")
        if sk == "mode":
            import vlsir.spice_pb2 as vsp
            return ["savemode", vsp.Save.SaveMode.Name(c.save.mode)]
        if sk == "signal":
            return ["savesig", c.save.signal]
        return ["none"]
    if k == "meas":
        return ["meas", c.meas.analysis_type, c.meas.name, c.meas.expr]
    if k == "param":
        if c.param.desc:
            return ["none"]
        return ["param", c.param.name, c_pval(c.param.value)]
    if k == "literal":
        return ["literal", c.literal]
    return ["none"]


def c_siminput(si):
    pkg = []
    for pm in si.pkg.modules:
        marks = [s.name for s in pm.signals if s.name.startswith("mk") and s.name[2:].isdigit()]
        pkg.append([int(marks[0][2:]) if len(marks) == 1 else -1, strip(pm.name)])
    return dict(top=strip(si.top), pkg=pkg,
                opts=[[o.name, c_pval(o.value)] for o in si.opts],
                an=[c_an(a) for a in si.an],
                ctrls=[c_ctrl(c) for c in si.ctrls])


# ------------------------------------------------------------------------------------------------
def do_case(case):
    ctx = Ctx(case["mods"])
    out = dict(read=None, read_err=None, out=None, out_err=None, ftab=[])
    try:
        sims = [build_sim(ctx, s) for s in case["sims"]]
    except Exception as e:
        out["read_err"] = exc_info(e)
        return out
    rd = Reader()
    try:
        out["read"] = [dict(tb=ctx.byid.get(id(s.tb), -1), attrs=[rd.attr(a) for a in s.attrs]) for s in sims]
    except Exception as e:
        out["read_err"] = dict(exc_info(e), stage="readback")
        return out
    rd.note(0, 0, lambda: 0.0)
    try:
        if case["as_list"]:
            res = hs.to_proto(list(sims))
            if not isinstance(res, list) or len(res) != len(sims):
                raise RuntimeError("to_proto(list) did not return one SimInput per Sim")
        else:
            res = [hs.to_proto(sims[0])]
        out["out"] = [c_siminput(r) for r in res]
    except Exception as e:
        out["out_err"] = exc_info(e)
    for (m, e), vs in rd.ftab.items():
        for v in vs:
            out["ftab"].append([m, e, v, v == dbl_enc(exact_float(m, e))])
    return out


def do_near(j):
    """oracle for the nearest-double specification: [m, e] -> the correctly rounded double and its two neighbours"""
    m, e = j
    f = exact_float(m, e)
    res = [[dbl_enc(f), True]]
    if f == f and abs(f) != math.inf:
        for g in (math.nextafter(f, math.inf), math.nextafter(f, -math.inf)):
            if g != f or math.copysign(1, g) != math.copysign(1, f):
                res.append([dbl_enc(g), False])
    else:
        big = 1.7976931348623157e308
        res.append([dbl_enc(big if f > 0 else -big), False])
    return res


def do_fpath(n):
    """export_float on one Prefixed: the Decimal handed to float() (scale(UNIT).number) and the returned double"""
    from hdl21.sim.proto import export_float
    from hdl21.scalar import to_scalar
    x = to_scalar(mk_num(n))
    if not isinstance(x, Prefixed):
        raise TypeError(f"not a Prefixed: {x!r}")
    u = x.scale(Prefix.UNIT).number
    sign, digits, exp = u.as_tuple()
    obs = [bool(sign), int("".join(map(str, digits)) or "0"), exp]
    rnm, rne = dec_me(x.number)
    try:
        r = dbl_enc(export_float(x))
    except Exception as e:
        r = None
    return dict(read=[rnm, rne, x.prefix.value], dec=obs, out=r)


def do_path(w):
    """oracle for the text of a path: str(pathlib.PurePosixPath(w)), str(pathlib.Path(w)), os.path.normpath(w)"""
    import posixpath
    from pathlib import PurePosixPath
    return [str(PurePosixPath(w)), str(Path(w)), posixpath.normpath(w)]


_AUTO_PREFIX = None


def auto_prefix():
    """what the live exporter writes before the counter in the name of an unnamed analysis (the property leaves the spelling
    free; the model takes it from the regenerated table Hdl21Gen.C17Names.auto_name_prefix)"""
    global _AUTO_PREFIX
    if _AUTO_PREFIX is None:
        tb = h.Module(name="AutoNameTb")
        tb.add(h.Port(name="VSS"))
        inp = hs.to_proto(hs.Sim(tb=tb, attrs=[D.Op(), D.Op()]))
        names = [getattr(a, a.WhichOneof("an")).analysis_name for a in inp.an]
        if len(names) != 2 or not names[0].endswith("0") or names[1] != names[0][:-1] + "1":
            raise RuntimeError(f"unnamed analyses are not named <prefix><counter>: {names}")
        _AUTO_PREFIX = names[0][:-1]
    return _AUTO_PREFIX


def do_autoname(n):
    # CPython's decimal rendering of the counter behind the live prefix
    return f"{auto_prefix()}{n}"


def handler(p):
    f = dict(case=do_case, near=do_near, autoname=do_autoname, fpath=do_fpath, path=do_path)[p["kind"]]
    return dict(results=[f(j) for j in p["jobs"]])


main(handler)
