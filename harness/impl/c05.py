"""C05 implementation driver.

Jobs:
  {"kind":"design","design":D}   build the (extended) abstract design with the public API, elaborate + export, return
                                  the package as JSON and the NAMING TRACE of the elaboration:
                                  every call of the anchored naming sites (portrefs.create_source / replace_noconn,
                                  flatten_bundles.replace_bundle_inst, arrays.ArrayFlattener.elaborate_module,
                                  inst_bundles.elaborate_instance_bundle) with, per object added to a Module while the site
                                  runs: the flatname call that produced its name (segments, the keys of `avoid`, maxlen,
                                  result), the keys of the Module namespace and the keys of each per-type container
                                  (ports, signals, instances, instarrays, instbundles, bundles) just before the insertion.
  {"kind":"flatname","segs":[..],"avoid":[..]|None,"maxlen":k}   direct call of ElabPass.flatname

Extended design (superset of harness/impl/designlib.py):
  design["bdefs"] = [{"name", "sigs":[[n,w]], "subs":[[name,k]]}]      bundle definitions (k < own index)
  mod["bundles"]  = [[name, defk | "diff", port(bool)]]                bundle instances of the module
  mod["rev"]      = bool                                               declare everything in reverse order
  inst["pair"]    = bool                                               h.Pair(target) instead of an Instance
  cexpr          += ["bun", name] | ["bmem", name, [path]] | ["bref", inst, port]  (bundle instance, member of one, bundle port reference)
"""
from common import main, exc_info
import hdl21 as h
from designlib import Builder, pkg_json, DIRS

TRACE = []          # list of site records
STACK = []          # currently running site records
HOOKS = dict(ok=True, missing=[])


# ------------------------------------------------------------------------------------------------ hooks
def install_hooks():
    import sys
    import hdl21.module  # noqa: F401  (hdl21.module the attribute is the decorator; take the Python module)
    hmod = sys.modules["hdl21.module"]
    from hdl21.elab.passes import base, portrefs, flatten_bundles, arrays, inst_bundles

    def need(obj, attr):
        if not hasattr(obj, attr):
            HOOKS["ok"] = False
            HOOKS["missing"].append(f"{getattr(obj, '__name__', obj)}.{attr}")
            return False
        return True

    if need(base.ElabPass, "flatname"):
        orig_flat = base.ElabPass.flatname

        def flatname(self, segments, *, avoid=None, maxlen=511):
            rec = dict(segs=[str(s) for s in segments], avoid=None if avoid is None else [str(k) for k in avoid.keys()],
                       maxlen=maxlen, res=None)
            if STACK:
                STACK[-1]["pending"] = rec
            try:
                r = orig_flat(self, segments, avoid=avoid, maxlen=maxlen)
                rec["res"] = r
                return r
            except BaseException:
                if STACK:      # a raising flatname is an event of its own
                    STACK[-1]["events"].append(dict(flat=rec, added=None, ns=None, kind=None))
                    STACK[-1]["pending"] = None
                raise
        base.ElabPass.flatname = flatname

    if need(hmod, "_add"):
        orig_add = hmod._add

        def _add(module, val):
            if STACK:
                s = STACK[-1]
                # the Module as the code holds it: the namespace AND the per-type containers (what `_add` deletes from)
                ctr = {c: [str(k) for k in getattr(module, c).keys()]
                       for c in ("ports", "signals", "instances", "instarrays", "instbundles", "bundles")}
                s["events"].append(dict(flat=s.get("pending"), added=val.name, kind=type(val).__name__,
                                        ns=[str(k) for k in module.namespace.keys()], ctr=ctr, mod=module.name))
                s["pending"] = None
            return orig_add(module=module, val=val)
        hmod._add = _add

    def wrap(cls, fname, describe):
        if not need(cls, fname):
            return
        orig = getattr(cls, fname)

        def wrapped(self, *a, **kw):
            rec = dict(site=f"{cls.__name__}.{fname}", events=[], pending=None)
            try:
                rec.update(describe(self, *a, **kw))
            except Exception as e:      # fail closed: the description is part of the tie
                rec["describe_error"] = repr(e)
            TRACE.append(rec)
            STACK.append(rec)
            try:
                return orig(self, *a, **kw)
            finally:
                STACK.pop()
                rec.pop("pending", None)
        setattr(cls, fname, wrapped)

    def d_create_source(self, module, group):
        pr = self.which_portref_to_name(group)
        return dict(kind="portref", mod=module.name, inst=pr.inst.name, port=pr.portname)

    def d_replace_noconn(self, module, portref, noconn):
        return dict(kind="noconn", mod=module.name, inst=portref.inst.name, port=portref.portname, ncname=noconn.name)

    def d_replace_bundle_inst(self, module, bundle_inst):
        return dict(kind="bundle", mod=module.name, bundle=bundle_inst.name)

    def d_array(self, module):
        return dict(kind="arrays", mod=module.name, arrays={k: v.n for k, v in module.instarrays.items()})

    def d_instbundle(self, module, instbundle):
        return dict(kind="pair", mod=module.name, ibundle=instbundle.name, members=list(instbundle.bundle.signals.keys()))

    wrap(portrefs.ResolvePortRefs, "create_source", d_create_source)
    wrap(portrefs.ResolvePortRefs, "replace_noconn", d_replace_noconn)
    wrap(flatten_bundles.BundleFlattener, "replace_bundle_inst", d_replace_bundle_inst)
    wrap(arrays.ArrayFlattener, "elaborate_module", d_array)
    wrap(inst_bundles.InstBundleElabPass, "elaborate_instance_bundle", d_instbundle)


# ------------------------------------------------------------------------------------------------ builder
class C05Builder(Builder):
    def __init__(self, design):
        super().__init__(design)
        self.bdefs = []
        for bd in design.get("bdefs", []):
            b = h.Bundle(name=bd["name"])
            for n, w in bd["sigs"]:
                b.add(h.Signal(name=n, width=w))
            for n, k in bd.get("subs", []):
                b.add(h.BundleInstance(name=n, of=self.bdefs[k]))
            self.bdefs.append(b)

    def bdef(self, k):
        return h.Diff if k == "diff" else self.bdefs[k]

    def expr(self, m, mi, e):
        t = e[0]
        if t == "bun":
            return m.get(e[1])
        if t == "bmem":
            x = m.get(e[1])
            for seg in e[2]:
                x = getattr(x, seg)
            return x
        if t == "bref":
            return getattr(m.get(e[1]), e[2])
        return super().expr(m, mi, e)

    def build_module(self, mi, md):
        m = self.mods[mi]
        rev = (lambda l: list(reversed(l))) if md.get("rev") else (lambda l: list(l))
        decls = []
        for n, w, d in md["ports"]:
            decls.append(lambda n=n, w=w, d=d: m.add(h.Signal(name=n, width=w, vis=h.signal.Visibility.PORT, direction=DIRS[d])))
        for n, w in md["sigs"]:
            decls.append(lambda n=n, w=w: m.add(h.Signal(name=n, width=w)))
        for n, k, port in md.get("bundles", []):
            decls.append(lambda n=n, k=k, port=port: m.add(h.BundleInstance(name=n, of=self.bdef(k), port=bool(port))))
        for x in md["insts"]:
            def mk(x=x):
                tgt = self.target(x["of"])
                if x.get("pair"):
                    inst = h.Pair(tgt)()
                    inst.name = x["name"]
                elif x["n"] > 0:
                    inst = h.InstanceArray(of=tgt, n=x["n"], name=x["name"])
                else:
                    inst = h.Instance(of=tgt, name=x["name"])
                m.add(inst)
            decls.append(mk)
        for f in rev(decls):
            f()
        for x in rev(md["insts"]):
            inst = m.get(x["name"])
            for port, e in rev(x["conns"]):
                inst.connect(port, self.expr(m, mi, e))
        return m


def elab_view(mods):
    """Public view of the elaborated Modules: names and widths of signals / ports, names of instances."""
    out = {}
    for m in mods:
        try:
            out[m.name] = dict(sigs=[[s.name, s.width] for s in m.signals.values()],
                               ports=[[s.name, s.width] for s in m.ports.values()],
                               insts=list(m.instances.keys()))
        except Exception as e:
            out[str(m.name)] = dict(error=repr(e))
    return out


def do_design(job):
    out = dict(pkg=None, err=None, trace=[], hooks=HOOKS, elab=None)
    del TRACE[:]
    del STACK[:]
    try:
        b = C05Builder(job["design"])
        top = b.build()
    except Exception as e:
        out["err"] = ["build", exc_info(e)]
        return out
    try:
        h.elaborate(top)
    except Exception as e:
        out["err"] = ["elaborate", exc_info(e)]
        out["trace"] = [dict(t) for t in TRACE]
        return out
    out["trace"] = [dict(t) for t in TRACE]
    out["elab"] = elab_view(b.mods)
    try:
        out["pkg"] = pkg_json(h.to_proto(top))
    except Exception as e:
        out["err"] = ["export", exc_info(e)]
    return out


def do_flatname(job):
    from hdl21.elab.passes.base import ElabPass
    p = ElabPass([])
    kw = {}
    if job.get("avoid") is not None:
        kw["avoid"] = {k: None for k in job["avoid"]}
    if job.get("maxlen") is not None:
        kw["maxlen"] = job["maxlen"]
    try:
        return dict(res=p.flatname(job["segs"], **kw), err=None)
    except RuntimeError as e:
        return dict(res=None, err="RuntimeError")
    except Exception as e:
        return dict(res=None, err=type(e).__name__)


def handler(p):
    res = []
    hooked = False
    for j in p["jobs"]:
        if j.get("kind") == "flatname":
            res.append(do_flatname(j))
        else:
            if not hooked:
                install_hooks()
                hooked = True
            res.append(do_design(j))
    return dict(results=res)


main(handler)
