"""C11 implementation driver: produce packages P with to_proto from several sources, import each with from_proto,
export ALL imported modules again (in the order of P.modules) and report P, P' and the two protobuf-level
comparisons (message equality, deterministic serialisation equality).

Only the public API is used: h.to_proto, h.from_proto, the returned namespace, vlsir message accessors."""
from common import main, exc_info
import sys, importlib
from decimal import Decimal
import hdl21 as h
import vlsir
import vlsir.circuit_pb2 as vckt
from designlib import Builder


# ------------------------------------------------------------------------------------------------ package -> JSON
def num_json(p):
    k = p.WhichOneof("number")
    if k == "int64_value":
        return ["int", p.int64_value]
    if k == "double_value":
        return ["dbl", float(p.double_value).hex()]
    if k == "string_value":
        return ["str", p.string_value]
    return ["unset"]


def pval_json(v):
    k = v.WhichOneof("value")
    if k == "int64_value":
        return ["int", v.int64_value]
    if k == "double_value":
        return ["dbl", float(v.double_value).hex()]
    if k == "string_value":
        return ["str", v.string_value]
    if k == "literal":
        return ["lit", v.literal]
    if k == "prefixed":
        return ["pre", vlsir.SIPrefix.Name(v.prefixed.prefix), num_json(v.prefixed)]
    return ["unset"]


def params_json(ps):
    return [[p.name, pval_json(p.value), p.desc] for p in ps]


def target_json(t):
    k = t.WhichOneof("stype")
    if k == "sig":
        return ["sig", t.sig]
    if k == "slice":
        return ["slice", t.slice.signal, t.slice.top, t.slice.bot]
    if k == "concat":
        return ["concat", [target_json(p) for p in t.concat.parts]]
    return ["unset"]


def ports_json(ps):
    return [[p.signal, vckt.Port.Direction.Name(p.direction)] for p in ps]


def pkg_json(pkg):
    mods = []
    for pm in pkg.modules:
        insts = []
        for i in pm.instances:
            which = i.module.WhichOneof("to")
            if which == "local":
                ref = ["local", i.module.local]
            elif which == "external":
                ref = ["ext", i.module.external.domain, i.module.external.name]
            else:
                ref = ["unset"]
            insts.append(dict(name=i.name, ref=ref, params=params_json(i.parameters),
                              conns=[[c.portname, target_json(c.target)] for c in i.connections]))
        mods.append(dict(name=pm.name, sigs=[[s.name, s.width] for s in pm.signals], ports=ports_json(pm.ports),
                         params=params_json(pm.parameters), insts=insts, literals=list(pm.literals)))
    exts = []
    for x in pkg.ext_modules:
        exts.append(dict(domain=x.name.domain, name=x.name.name, desc=x.desc, sigs=[[s.name, s.width] for s in x.signals],
                         ports=ports_json(x.ports), params=params_json(x.parameters),
                         spicetype=vckt.SpiceType.Name(x.spicetype)))
    return dict(domain=pkg.domain, desc=pkg.desc, exts=exts, mods=mods)


# ------------------------------------------------------------------------------------------------ the round trip
def imported_modules(ns, names):
    """The imported counterparts of the named modules, fetched from the namespace from_proto returns."""
    mods = []
    for name in names:
        obj = ns
        for part in name.split("."):
            obj = getattr(obj, part)
        if not isinstance(obj, h.Module):
            raise RuntimeError(f"namespace entry {name} is not a Module")
        mods.append(obj)
    return mods


# ------------------------------------------------------------------------------------------------ twins (coverage)
PRIM_DOMAINS = ("vlsir.primitives", "hdl21.primitives", "hdl21.ideal")


def value_kind(v):
    k = v.WhichOneof("value")
    if k == "prefixed":
        return {"int64_value": "pre_i", "string_value": "pre_s", "double_value": "pre_d"}.get(v.prefixed.WhichOneof("number"), "pre_?")
    return {"int64_value": "int", "double_value": "dbl", "string_value": "str", "literal": "lit"}.get(k, "?")


def twin_pairs(pkg, cap=400):
    """MEASURED on P with the live importer functions and live Python equality: pairs of instances (in import order) of the
    same external module / primitive whose imported parameter dicts are equal as `tuple(params.items())` in Python although
    their parameter lists differ in the package; and, per instance, pairs of parameters with Python-equal values whose
    values differ in the package.  [scope, target, eq_hash, [[kind1, kind2] per differing parameter]]"""
    from hdl21.proto.importing import import_parameters
    groups, vtw = {}, 0
    for mi, pm in enumerate(pkg.modules):
        for ii, pi in enumerate(pm.instances):
            if pi.module.WhichOneof("to") != "external":
                continue
            try:
                d = import_parameters(pi.parameters)
            except Exception:
                continue
            ser = [p.value.SerializeToString(deterministic=True) for p in pi.parameters]
            vals = list(d.values())
            if len(vals) == len(ser) and len(vals) <= 12:
                for a in range(len(vals)):
                    for b in range(a + 1, len(vals)):
                        try:
                            vtw += bool(ser[a] != ser[b] and vals[a] == vals[b])
                        except Exception:
                            pass
            key = (pi.module.external.domain, pi.module.external.name, tuple(d))
            groups.setdefault(key, []).append((mi, ii, d, ser, pi))
    out = []
    for key, members in groups.items():
        for a in range(len(members)):
            for b in range(a + 1, len(members)):
                if len(out) >= cap:
                    return out, vtw
                A, B = members[a], members[b]
                if A[3] == B[3]:
                    continue
                try:
                    eq = tuple(A[2].items()) == tuple(B[2].items())
                except Exception:
                    continue
                if not eq:
                    continue
                try:
                    heq = hash(tuple(A[2].items())) == hash(tuple(B[2].items()))
                except Exception:
                    heq = False
                kinds = [[value_kind(p.value), value_kind(q.value)] for p, q, x, y in zip(A[4].parameters, B[4].parameters, A[3], B[3]) if x != y]
                out.append(["same_mod" if A[0] == B[0] else "cross_mod", "prim" if key[0] in PRIM_DOMAINS else "ext", bool(heq), kinds])
    return out, vtw


def roundtrip(pkg, tops=None):
    """P' = to_proto(the imported top-level modules).  `tops`: names of the modules P was exported from (in that order);
    default: the last module of P (a single-top export emits its top last)."""
    if tops is None:
        tops = [pkg.modules[-1].name] if len(pkg.modules) else []
    res = dict(p=pkg_json(pkg), tops=tops, q=None, stage=None, err=None, eq_msg=False, eq_bytes=False)
    try:
        res["twins"], res["vtwins"] = twin_pairs(pkg)
    except Exception as e:           # measurement only: never decides a case
        res["twins"], res["vtwins"] = [], 0
    try:
        ns = h.from_proto(pkg)
        mods = imported_modules(ns, tops)
    except Exception as e:
        res["stage"], res["err"] = "from_proto", exc_info(e)
        return res
    try:
        pkg2 = h.to_proto(mods, domain=pkg.domain)
    except Exception as e:
        res["stage"], res["err"] = "to_proto", exc_info(e)
        return res
    res["q"] = pkg_json(pkg2)
    b1, b2 = pkg.SerializeToString(deterministic=True), pkg2.SerializeToString(deterministic=True)
    res["eq_bytes"] = b1 == b2
    # a message holding a NaN double is not equal to itself: message equality is then decided by the bytes
    res["eq_msg"] = bool(pkg2 == pkg) if pkg == pkg else b1 == b2
    return res


def top_names(pkg, mods):
    from hdl21.qualname import qualname
    return [qualname(m) for m in mods]


# ------------------------------------------------------------------------------------------------ package sources
def from_design(job):
    b = Builder(job["design"])
    top = b.build()
    if job.get("tops"):           # a multi-top export, in the given order
        tops = [b.mods[k] for k in job["tops"]]
        pkg = h.to_proto(tops, domain=job.get("domain"))
        return [(pkg, top_names(pkg, tops))]
    return [h.to_proto(top, domain=job.get("domain"))]


def from_examples(job):
    """Run an example's main() and capture every package it exports."""
    sys.path.insert(0, job["repo"])
    captured = []
    import hdl21.netlisting as NL
    import hdl21.proto.exporting as EX
    orig = EX.to_proto

    def spy(*a, **kw):
        pkg = orig(*a, **kw)
        tops = h.elaborate(a[0] if a else kw["top"])
        captured.append((pkg, top_names(pkg, tops if isinstance(tops, list) else [tops])))
        return pkg
    NL.to_proto = spy
    h.to_proto = spy
    try:
        mod = importlib.import_module("examples." + job["example"])
        mod.main()
    finally:
        NL.to_proto = orig
        h.to_proto = orig
    return captured


def from_generator(job):
    import hdl21.generators as G
    kind = job["gen"]
    if kind == "MosStack":
        m = G.MosStack(nser=job["n"])
    elif kind == "SeriesR":
        m = G.Series(unit=h.R(r=1000), nser=job["n"], conns=["p", "n"])
    elif kind == "SeriesMos":
        m = G.Series(unit=h.Mos(nf=2), nser=job["n"], conns=job.get("pair", ["d", "s"]))
    elif kind == "Wrapper":
        m = G.Wrapper(m=h.Mos(nf=job["n"]))
    else:
        raise ValueError(kind)
    return [h.to_proto(m)]


def from_pdk(job):
    import hdl21.pdk.sample_pdk as sp
    m = h.Module(name=f"PdkTop{job['n']}")
    m.a, m.b = h.Signals(2)
    for k in range(job["n"]):
        tp = h.MosType.NMOS if k % 2 == 0 else h.MosType.PMOS
        m.add(h.Mos(tp=tp, nf=k + 1)(d=m.a, g=m.b, s=m.a, b=m.b), name=f"m{k}")
    sp.compile(m)
    return [h.to_proto(m)]


# ---- the primitive / external-module parameter space ----
DIRS = {"INPUT": h.PortDir.INPUT, "OUTPUT": h.PortDir.OUTPUT, "INOUT": h.PortDir.INOUT, "NONE": h.PortDir.NONE}
ENUMS = {"MosType": h.MosType, "MosVth": h.MosVth, "MosFamily": h.MosFamily, "BipolarType": h.BipolarType}


def mk_value(v):
    t = v[0]
    if t == "none":
        return None
    if t == "int":
        return int(v[1])
    if t == "bool":
        return bool(v[1])
    if t == "float":
        return float.fromhex(v[1])
    if t == "str":
        return v[1]
    if t == "dec":
        return Decimal(v[1])
    if t == "lit":
        return h.Literal(v[1])
    if t == "pre":       # ["pre", number-as-decimal-string, PREFIXNAME]
        return h.Prefixed(number=Decimal(v[1]), prefix=getattr(h.prefix.Prefix, v[2]))
    if t == "enum":
        return getattr(ENUMS[v[1]], v[2])
    raise ValueError(v)


def mk_paramclass(name, fields):
    """An hdl21.paramclass with untyped (object) fields, for external modules with paramclass parameters."""
    ns = {f: h.Param(dtype=object, desc=f"field {f}", default=None) for f in fields}
    return h.paramclass(type(name, (), ns))


def from_insts(job):
    """Modules instantiating primitives and external modules with explicit parameter values.
    job: {"name", "domain", "exts":[{"name","domain","spicetype","ports":[[n,w,dir]],"paramtype":"dict"|"class","fields":[..]}],
          "insts":[{"name","kind":"prim","prim":P,"params":[[k,v]]} | {"name","kind":"ext","ext":k,"params":[[k,v]]}],
          "literals":[text], "wrap": bool}
    or, for a hierarchy sharing the external modules, "mods":[{"name","insts":[..],"literals":[..],"uses":[indices of earlier
    entries, instantiated in this one]}] (exported from the last entry, or from the entries listed in "tops")."""
    from vlsirtools import SpiceType
    exts = []
    for x in job.get("exts", []):
        kw = dict(name=x["name"], port_list=[h.Signal(name=n, width=w, vis=h.signal.Visibility.PORT, direction=DIRS[d])
                                            for n, w, d in x["ports"]])
        if x.get("domain") is not None:
            kw["domain"] = x["domain"]
        if x.get("spicetype") is not None:
            kw["spicetype"] = getattr(SpiceType, x["spicetype"])
        if x.get("desc") is not None:
            kw["desc"] = x["desc"]
        if x.get("paramtype", "dict") == "dict":
            kw["paramtype"] = dict
        else:
            kw["paramtype"] = mk_paramclass(x["name"] + "Params", x["fields"])
        exts.append(h.ExternalModule(**kw))
    specs = job.get("mods") or [dict(name=job["name"], insts=job["insts"], literals=job.get("literals", []), uses=[])]
    built = []
    for spec in specs:
        m = mk_module(job, spec["name"])
        k = 0
        for u in spec.get("uses", []):
            m.add(built[u](), name=f"u{u}")
        for x in spec["insts"]:
            params = {p: mk_value(v) for p, v in x["params"]}
            if x["kind"] == "prim":
                call = getattr(h.primitives, x["prim"])(**params)
            else:
                e = exts[x["ext"]]
                call = e(params) if e.paramtype is dict else e(**params)
            conns = {}
            for pname, port in call.ports.items():
                s = m.add(h.Signal(name=f"n{k}", width=port.width))
                k += 1
                conns[pname] = s
            m.add(call(**conns), name=x["name"])
        for t in spec.get("literals", []):
            m.literals.append(h.Literal(t))
        built.append(m)
    top = built[-1]
    if job.get("tops"):
        tops = [built[k] for k in job["tops"]]
        pkg = h.to_proto(tops, domain=job.get("domain"))
        return [(pkg, top_names(pkg, tops))]
    if job.get("wrap"):
        top = mk_module(job, specs[-1]["name"] + "Top")
        top.add(built[-1](), name="u")
    return [h.to_proto(top, domain=job.get("domain"))]


# Modules defined outside any Python module (an `exec` of a string, a notebook cell) are exported under their bare,
# un-dotted name: the factory below is compiled in a namespace without `__name__`.
_BARE = {}
exec("def mk(h, name):\n    return h.Module(name=name)\n", _BARE)


def mk_module(job, name):
    return _BARE["mk"](h, name) if job.get("bare") else h.Module(name=name)


def live_enums(job):
    """The enumeration translations, read off the live functions."""
    import hdl21.proto.exporting as EX
    import hdl21.proto.importing as IM
    from vlsirtools import SpiceType
    rows = []
    for pre in h.prefix.Prefix:
        v = EX.export_prefix(pre)
        back = IM.import_prefix(v)
        rows.append(["prefix", pre.name, pre.value, vlsir.SIPrefix.Name(v), back.name, back.value])
    for d in h.PortDir:
        v = EX.export_port_dir(h.Signal(name="p", direction=d, vis=h.signal.Visibility.PORT))
        back = IM.import_port_dir(vckt.Port(signal="p", direction=v))
        rows.append(["dir", d.name, 0, vckt.Port.Direction.Name(v), back.name, 0])
    for st in SpiceType:
        x = h.ExternalModule(name="E", port_list=[], spicetype=st)
        px = EX.export_external_module(x)
        back = IM.ProtoImporter(vckt.Package()).import_external_module(px)
        rows.append(["spicetype", st.name, 0, vckt.SpiceType.Name(px.spicetype), back.spicetype.name, 0])
    return rows


def mk_pvalue(v):
    """a vlsir.ParamValue from the JSON form pval_json produces"""
    t = v[0]
    if t == "int":
        return vlsir.ParamValue(int64_value=v[1])
    if t == "dbl":
        return vlsir.ParamValue(double_value=float.fromhex(v[1]))
    if t == "str":
        return vlsir.ParamValue(string_value=v[1])
    if t == "lit":
        return vlsir.ParamValue(literal=v[1])
    if t == "pre":
        n = v[2]
        kw = {"int": "int64_value", "str": "string_value"}[n[0]]
        return vlsir.ParamValue(prefixed=vlsir.Prefixed(prefix=vlsir.SIPrefix.Value(v[1]), **{kw: n[1]}))
    raise ValueError(v)


def live_pyeq(job):
    """Python `==` (0 False, 1 True, 2 raises) and hash agreement of the values the live importer makes of two package values."""
    from hdl21.proto.importing import import_parameter_value
    rows = []
    for a, b in job["pairs"]:
        x, y = import_parameter_value(mk_pvalue(a)), import_parameter_value(mk_pvalue(b))
        try:
            eq = 1 if x == y else 0
        except Exception:
            eq = 2
        try:
            heq = hash(x) == hash(y)
        except Exception:
            heq = False
        rows.append([a, b, eq, bool(heq)])
    return rows


# ------------------------------------------------------------------------------------------------ export HISTORIES
# Several exports in ONE interpreter over ExternalModule objects that are MUTATED in between (ExternalModule is a mutable
# object: port_list is a list of mutable Signals; name, domain, spicetype, desc, paramtype are assignable).  Every design is
# built AFTER the last mutation, from the objects as they then are (each instance connects every current port).  Reported per
# observing step: the package with its round trip, and the state of every ExternalModule object read off its public
# attributes at that moment.
def mk_ext(x):
    from vlsirtools import SpiceType
    kw = dict(name=x["name"], port_list=[h.Signal(name=n, width=w, vis=h.signal.Visibility.PORT, direction=DIRS[d])
                                        for n, w, d in x["ports"]])
    if x.get("domain") is not None:
        kw["domain"] = x["domain"]
    if x.get("spicetype") is not None:
        kw["spicetype"] = getattr(SpiceType, x["spicetype"])
    if x.get("desc") is not None:
        kw["desc"] = x["desc"]
    if x.get("paramtype", "dict") == "dict":
        kw["paramtype"] = dict
    else:
        kw["paramtype"] = mk_paramclass(x["name"] + "Params", x["fields"])
    return h.ExternalModule(**kw)


def obj_state(e):
    return [e.domain or "", e.name, [[p.name, p.width, p.direction.name] for p in e.port_list], e.spicetype.name, e.desc,
            "dict" if e.paramtype is dict else getattr(e.paramtype, "__name__", "?")]


def mutate(e, op):
    """one mutation of the ExternalModule object `e`, the way user code would write it"""
    from vlsirtools import SpiceType
    k = op[0]
    mkp = lambda n, w, d: h.Signal(name=n, width=w, vis=h.signal.Visibility.PORT, direction=DIRS[d])
    if k == "append":
        e.port_list.append(mkp(*op[1]))
    elif k == "insert":
        e.port_list.insert(op[1], mkp(*op[2]))
    elif k == "remove":
        del e.port_list[op[1]]
    elif k == "rename":          # in place, on the Signal object
        e.port_list[op[1]].name = op[2]
    elif k == "width":
        e.port_list[op[1]].width = op[2]
    elif k == "dir":
        e.port_list[op[1]].direction = DIRS[op[2]]
    elif k == "replace":         # another Signal object in the same place
        e.port_list[op[1]] = mkp(*op[2])
    elif k == "ports":           # a new list
        e.port_list = [mkp(*p) for p in op[1]]
    elif k == "reverse":
        e.port_list.reverse()
    elif k == "name":
        e.name = op[1]
    elif k == "domain":
        e.domain = op[1]
    elif k == "spicetype":
        e.spicetype = getattr(SpiceType, op[1])
    elif k == "desc":
        e.desc = op[1]
    elif k == "paramtype":
        e.paramtype = dict if op[1] == "dict" else mk_paramclass(e.name + "Params2", op[2])
    else:
        raise ValueError(op)


def build_mods(job, spec, exts, built_before):
    """modules of one export step; spec["mods"] as in from_insts, `reuse`: [[step, index]] of modules built by earlier steps"""
    built = []
    for ms in spec["mods"]:
        m = mk_module(job, ms["name"])
        k = 0
        for u in ms.get("uses", []):
            m.add(built[u](), name=f"u{u}")
        for st, ix in ms.get("reuse", []):
            m.add(built_before[st][ix](), name=f"r{st}_{ix}")
        for x in ms["insts"]:
            params = {p: mk_value(v) for p, v in x["params"]}
            e = exts[x["ext"]]
            if e.paramtype is dict:
                call = e(params)
            else:
                known = set(getattr(e.paramtype, "__dataclass_fields__", {}))
                call = e(**{p: v for p, v in params.items() if p in known})
            conns = {}
            for pname, port in call.ports.items():
                conns[pname] = m.add(h.Signal(name=f"n{k}", width=port.width))
                k += 1
            m.add(call(**conns), name=x["name"])
        built.append(m)
    return built


def from_history(job):
    import io
    import hdl21.proto.exporting as EX
    exts = [mk_ext(x) for x in job["exts"]]
    built_at, out = {}, []
    for si, step in enumerate(job["steps"]):
        kind = step[0]
        if kind == "mut":
            mutate(exts[step[1]], step[2])
            continue
        rec = dict(step=si, kind=kind, objs=[obj_state(e) for e in exts], res=None, decl=None, err=None)
        try:
            if kind == "decl":           # the free function, as other code may call it
                pm = EX.export_external_module(exts[step[1]])
                rec["decl"] = pkg_json(vckt.Package(ext_modules=[pm]))["exts"][0]
            else:
                spec = step[1]
                built = build_mods(job, spec, exts, built_at)
                built_at[si] = built
                tops = [built[k] for k in spec.get("tops") or [len(built) - 1]]
                if kind == "netlist":    # an export whose package the caller never sees
                    h.netlist(tops if len(tops) > 1 else tops[0], io.StringIO(), fmt=spec.get("fmt", "spice"))
                    out.append(rec)
                    continue
                pkg = h.to_proto(tops if len(tops) > 1 else tops[0], domain=spec.get("domain"))
                rec["res"] = roundtrip(pkg, top_names(pkg, tops))
        except Exception as e:
            rec["err"] = exc_info(e)
        out.append(rec)
    return out


SOURCES = dict(design=from_design, example=from_examples, generator=from_generator, pdk=from_pdk, insts=from_insts)


def do(job):
    out = dict(pkgs=[], err=None)
    try:
        pkgs = SOURCES[job["source"]](job)
    except Exception as e:
        out["err"] = exc_info(e)
        return out
    for pkg in pkgs:
        out["pkgs"].append(roundtrip(*pkg) if isinstance(pkg, tuple) else roundtrip(pkg))
    return out


def do_any(job):
    if job["source"] == "enums":
        try:
            return dict(rows=live_enums(job), err=None)
        except Exception as e:
            return dict(rows=[], err=exc_info(e))
    if job["source"] == "pyeq":
        try:
            return dict(rows=live_pyeq(job), err=None)
        except Exception as e:
            return dict(rows=[], err=exc_info(e))
    if job["source"] == "history":
        try:
            return dict(hist=from_history(job), err=None)
        except Exception as e:
            return dict(hist=[], err=exc_info(e))
    if job["source"] == "names":
        return dict(rows=[[s, s.split("."), ".".join(s.split("."))] for s in job["names"]], err=None)
    return do(job)


def handler(p):
    return dict(results=[do_any(j) for j in p["jobs"]])


main(handler)
