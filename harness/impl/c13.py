"""C13 implementation driver: parameter values through hdl21.scalar.to_scalar, hdl21.proto.exporting.export_param_value
and, end to end, through paramclass construction + h.to_proto, canonicalised.

Wire format of a VALUE (input):  ["none"] | ["int", "<decimal text>"] | ["flt", "<float.hex()>"] | ["str", [code points]]
  | ["lit", [code points]] | ["pre", "<Decimal text>", prefix exponent] | ["dec", "<Decimal text>"]
  | ["enum", class name, member name] | ["other", tag]
Wire format of an exported ParamValue (output):  ["lit", cps] | ["int", "<text>"] | ["dbl", "<64-bit pattern>"] | ["strv", cps]
  | ["pre", "int"|"str"|"dbl", payload, SIPrefix name]
A Decimal is [sign, coefficient as text, exponent] (as_tuple); strings travel as lists of code points."""
import struct, enum, fractions, numbers
from decimal import Decimal
from typing import Optional, Any
from common import main
import hdl21 as h
import hdl21.primitives as hp
from hdl21.prefix import Prefix, Prefixed
from hdl21.literal import Literal
from hdl21.scalar import to_scalar, Scalar
from hdl21.proto.exporting import export_param_value
import vlsir


class XE(enum.Enum):          # string-valued enum
    A = "alpha"
    B = "b e t a"
    C = ""
    D = "1e3"


class NE(enum.Enum):          # enum whose values are not strings: the exporter must refuse it
    ONE = 1
    TWO = 2.5


class SXE(str, enum.Enum):   # the common "string enum" idiom: every member is a str AND an Enum member
    TYP = "tt_025C_1v80"
    FAST = "ff_n40C_1v95"
    NUM = "1e3"
    EMPTY = ""
    SP = " a b "


@h.paramclass
class XP:
    s = h.Param(dtype=Scalar, desc="required scalar")
    os = h.Param(dtype=Optional[Scalar], desc="optional scalar", default=None)
    i = h.Param(dtype=Optional[int], desc="int", default=None)
    f = h.Param(dtype=Optional[float], desc="float", default=None)
    t = h.Param(dtype=Optional[str], desc="str", default=None)
    e = h.Param(dtype=XE, desc="enum", default=XE.A)
    d = h.Param(dtype=Optional[Decimal], desc="Decimal", default=None)
    p = h.Param(dtype=Optional[Prefixed], desc="Prefixed", default=None)
    l = h.Param(dtype=Optional[Literal], desc="Literal", default=None)
    se = h.Param(dtype=SXE, desc="str-and-Enum member", default=SXE.TYP)
    a = h.Param(dtype=Any, desc="anything, stored as given", default=None)


# kind: 0 Scalar, 1 Optional[Scalar], 2 Optional[str], 3 string enum, 4 other type, no conversion
XP_FIELDS = [["s", 0, ["req"]], ["os", 1, ["none"]], ["i", 4, ["none"]], ["f", 4, ["none"]], ["t", 2, ["none"]],
             ["e", 3, ["enum", "XE", "A"]], ["d", 4, ["none"]], ["p", 4, ["none"]], ["l", 4, ["none"]],
             ["se", 3, ["obj", "sxe", "TYP"]], ["a", 4, ["none"]]]

ENUMS = dict(XE=XE, NE=NE, MosType=hp.MosType, MosVth=hp.MosVth, MosFamily=hp.MosFamily, BipolarType=hp.BipolarType)


def cps(s):
    return [ord(c) for c in s]


def uncps(l):
    return "".join(chr(c) for c in l)


def dec(d):
    t = d.as_tuple()
    if not isinstance(t.exponent, int):
        return ["nonfinite", str(d)]
    c = 0
    for x in t.digits:
        c = c * 10 + x
    return [t.sign, str(c), t.exponent]


def bits(x):
    return str(struct.unpack("<Q", struct.pack("<d", x))[0])


class Opaque:
    pass


# ---- objects that pass several isinstance tests of the parameter path, or are subclass instances whose str() / repr() /
#      format() say something else than their content ("obj" values; see harness/vp/c13.py SHAPES)
class StrSub(str):
    def __str__(self):
        return "StrSub!"

    def __repr__(self):
        return "StrSub?"

    def __format__(self, spec):
        return "StrSub#"


class IntSub(int):
    def __str__(self):
        return "77"

    def __repr__(self):
        return "78"

    def __format__(self, spec):
        return "79"


class FltSub(float):
    def __str__(self):
        return "7.5"

    def __repr__(self):
        return "8.5"

    def __format__(self, spec):
        return "9.5"


class DecSub(Decimal):            # str(Decimal) is the exporter's own route: left alone
    def __repr__(self):
        return "DecSub?"

    def __format__(self, spec):
        return "7.25"


class LitSub(Literal):
    def __str__(self):
        return "LitSub!"

    def __repr__(self):
        return "LitSub?"


class PreSub(Prefixed):
    def __str__(self):
        return "1*PreSub"

    def __repr__(self):
        return "PreSub?"


class StrLit(str, Literal):       # a str that is also a Literal: characters and .text are set separately
    def __new__(cls, content, text):
        return str.__new__(cls, content)

    def __init__(self, content, text):
        Literal.__init__(self, text=text)


class Realish:                    # registered numbers.Real look-alike: not an int, float or Decimal
    def __float__(self):
        return 2.5


numbers.Real.register(Realish)


def str_enum_v(text):             # member is the str `text`, its Enum value is another string
    class SEV(str, enum.Enum):
        def __new__(cls, content):
            obj = str.__new__(cls, content)
            obj._value_ = "v:" + content
            return obj
        M = text
    return SEV.M


def str_enum_t(text):             # member is the str `text`, its Enum value is a tuple (the "value with attributes" idiom)
    class SET(str, enum.Enum):
        def __new__(cls, content, extra):
            obj = str.__new__(cls, content)
            obj._value_ = (content, extra)
            return obj
        M = (text, 3)
    return SET.M


def mkobj(shape, c):
    if shape == "strenum":
        return enum.Enum("SE", [("M", uncps(c[0]))], type=str).M
    if shape == "StrEnum":
        return enum.StrEnum("StE", [("M", uncps(c[0]))]).M
    if shape == "strenum_v":
        return str_enum_v(uncps(c[0]))
    if shape == "strenum_t":
        return str_enum_t(uncps(c[0]))
    if shape == "sxe":
        return SXE[c[0]]
    if shape == "intenum":
        return enum.IntEnum("IE", [("M", int(c[0]))]).M
    if shape == "intflag":
        return enum.IntFlag("IF", [("A", 1), ("B", 2)])(int(c[0]))
    if shape == "fltenum":
        return enum.Enum("FE", [("M", float.fromhex(c[0]))], type=float).M
    if shape == "decenum":
        return enum.Enum("DE", [("M", Decimal(c[0]))], type=Decimal).M
    if shape == "bool":
        return bool(int(c[0]))
    if shape == "strsub":
        return StrSub(uncps(c[0]))
    if shape == "intsub":
        return IntSub(int(c[0]))
    if shape == "fltsub":
        return FltSub(float.fromhex(c[0]))
    if shape == "decsub":
        return DecSub(c[0])
    if shape == "litsub":
        return LitSub(uncps(c[0]))
    if shape == "presub":
        return PreSub(number=Decimal(c[0]), prefix=Prefix(c[1]))
    if shape == "strlit":
        return StrLit(uncps(c[0]), uncps(c[1]))
    raise ValueError(shape)


def probe(x):
    """The facets of the live object, measured: which isinstance tests of the parameter path it passes and the content
    each base class holds (never through __str__ / __repr__ of the object's own class)."""
    f = dict(none=x is None, str=None, enum=None, lit=None, pre=None, dec=None, int=None, flt=None)
    if isinstance(x, str):
        f["str"] = cps(str.__str__(x))
    if isinstance(x, enum.Enum):
        f["enum"] = ["some", cps(str.__str__(x.value))] if isinstance(x.value, str) else ["none"]
    if isinstance(x, Literal):
        f["lit"] = cps(x.text)
    if isinstance(x, Prefixed):
        f["pre"] = [dec(x.number), x.prefix.value]
    if isinstance(x, Decimal):
        f["dec"] = dec(Decimal(Decimal.as_tuple(x)))
    if isinstance(x, int):
        f["int"] = [int.__repr__(int.__index__(x)), isinstance(x, bool)]
    if isinstance(x, float):
        f["flt"] = bits(x)
    texts = []
    for fn in (str, repr, lambda v: format(v, "")):
        try:
            texts.append(fn(x))
        except Exception:
            texts.append(None)
    return dict(facets=f, cls=type(x).__name__, texts=[None if t is None else cps(t) for t in texts])


def mkval(v):
    k = v[0]
    if k == "none":
        return None
    if k == "int":
        return int(v[1])
    if k == "flt":
        return float.fromhex(v[1])
    if k == "str":
        return uncps(v[1])
    if k == "lit":
        return Literal(uncps(v[1]))
    if k == "pre":
        return Prefixed(number=Decimal(v[1]), prefix=Prefix(v[2]))
    if k == "dec":
        return Decimal(v[1])
    if k == "enum":
        return ENUMS[v[1]][v[2]]
    if k == "other":
        return dict(list=[1, 2], tuple=(1,), bytes=b"ab", complex=1j, dict={"a": 1}, object=Opaque(), set={1},
                    fraction=fractions.Fraction(1, 3), real=Realish())[v[1]]
    if k == "obj":
        return mkobj(v[1], v[2:])
    raise ValueError(k)


def pvalue(pv):
    k = pv.WhichOneof("value")
    if k == "literal":
        return ["lit", cps(pv.literal)]
    if k == "int64_value":
        return ["int", str(pv.int64_value)]
    if k == "double_value":
        return ["dbl", bits(pv.double_value)]
    if k == "string_value":
        return ["strv", cps(pv.string_value)]
    if k == "prefixed":
        n = pv.prefixed.WhichOneof("number")
        pre = vlsir.SIPrefix.Name(pv.prefixed.prefix)
        if n == "int64_value":
            return ["pre", "int", str(pv.prefixed.int64_value), pre]
        if n == "string_value":
            return ["pre", "str", cps(pv.prefixed.string_value), pre]
        if n == "double_value":
            return ["pre", "dbl", bits(pv.prefixed.double_value), pre]
        return ["pre", "unset", "", pre]
    return ["unset"]


def do_meta(_):
    prims = []
    for key, ent in hp._primitives.items():
        prim = ent.prim
        flds = []
        for nm, par in prim.paramtype.__params__.items():
            dt = par.dtype
            if dt is Scalar:
                k = 0
            elif dt == Optional[Scalar]:
                k = 1
            elif dt == Optional[str]:
                k = 2
            elif isinstance(dt, type) and issubclass(dt, enum.Enum):
                k = 3
            else:
                k = 4
            from hdl21.default import Default
            d = par.default
            if d is Default:
                dv = ["req"]
            elif d is None:
                dv = ["none"]
            elif type(d) is int:
                dv = ["int", str(d)]
            elif isinstance(d, enum.Enum):
                dv = ["enum", type(d).__name__, d.name]
            else:
                dv = ["other", "object"]
            flds.append([nm, k, dv, (dt.__name__ if k == 3 else "")])
        prims.append(dict(name=prim.name, primtype=prim.primtype.name, pclass=prim.paramtype.__name__, fields=flds,
                          ports=[p.name for p in prim.port_list]))
    enums = {n: [[m.name, (cps(m.value) if isinstance(m.value, str) else None)] for m in c] for n, c in ENUMS.items()}
    return dict(prims=prims, prefixes=[[p.name, p.value] for p in Prefix], enums=enums, xp_fields=XP_FIELDS,
                sxe=[[m.name, cps(m.value)] for m in SXE])


def do_probe(j):
    try:
        x = mkval(j)
    except Exception as e:
        return dict(bad=type(e).__name__ + ": " + str(e)[:200])
    return probe(x)


def do_scalar(j):
    try:
        x = mkval(j)
    except Exception as e:
        return ["bad-input", type(e).__name__]
    try:
        r = to_scalar(x)
    except Exception as e:
        return ["exc", type(e).__name__]
    if isinstance(r, Prefixed):
        if not isinstance(r.number, Decimal) or not isinstance(r.prefix, Prefix):
            return ["exc", "bad-fields"]
        d = dec(r.number)
        if d[0] == "nonfinite":
            return ["nonfinite", d[1]]
        return ["pre", d, r.prefix.value]
    if isinstance(r, Literal):
        return ["lit", cps(r.text)]
    return ["exc", "not-a-scalar:" + type(r).__name__]


def do_value(j):
    try:
        x = mkval(j)
    except Exception as e:
        return ["bad-input", type(e).__name__]
    try:
        r = export_param_value(x)
    except Exception as e:
        return ["exc", type(e).__name__]
    if r is None:
        return ["omit"]
    return ["val", pvalue(r)]


def do_inst(j):
    tgt = j["tgt"]
    try:
        given = [(k if isinstance(k, str) else uncps(k), mkval(v)) for k, v in j["params"]]
    except Exception as e:
        return dict(ok=False, stage="bad-input", exc=type(e).__name__)
    try:
        if tgt[0] == "prim":
            prim = hp._primitives[tgt[1]].prim
            call = prim(prim.paramtype(**dict(given)))
            ports = [p.name for p in prim.port_list]
        else:
            mode, domain, name = tgt[1], tgt[2], uncps(tgt[3])
            domain = None if domain is None else uncps(domain)
            pt = dict if mode == "dict" else XP
            x = h.ExternalModule(name=name, port_list=[h.Port(name="a"), h.Port(name="b")], paramtype=pt, domain=domain)
            call = x(dict(given)) if mode == "dict" else x(XP(**dict(given)))
            ports = ["a", "b"]
    except Exception as e:
        return dict(ok=False, stage="construct", exc=type(e).__name__)
    try:
        m = h.Module(name="T")
        conns = {}
        for p in ports:
            conns[p] = m.add(h.Signal(name="n_" + p))
        m.add(call(**conns), name="i0")
        pkg = h.to_proto(m)
    except Exception as e:
        return dict(ok=False, stage="export", exc=type(e).__name__)
    mods = [pm for pm in pkg.modules if pm.name.endswith("T")]
    if len(mods) != 1 or len(mods[0].instances) != 1:
        return dict(ok=False, stage="shape", exc="unexpected package shape")
    pi = mods[0].instances[0]
    if pi.module.WhichOneof("to") != "external":
        return dict(ok=False, stage="shape", exc="instance does not refer to an external module")
    return dict(ok=True, ref=[cps(pi.module.external.domain), cps(pi.module.external.name)],
                params=[[cps(p.name), pvalue(p.value)] for p in pi.parameters])


def handler(p):
    f = dict(meta=do_meta, scalar=do_scalar, value=do_value, inst=do_inst, probe=do_probe)[p["kind"]]
    return dict(results=[f(j) for j in p["jobs"]])


main(handler)
