"""C11E implementation driver: live vlsir ParamValue messages, printed both ways.

A job is a list of values in the JSON spelling of harness/impl/c11.py:pval_json (["int", n] | ["dbl", hex] | ["str", s] |
["lit", s] | ["pre", P, ["int", n] | ["dbl", hex] | ["str", s]]).  For each the driver builds the vlsir message and returns the
text harness/impl/designlib.py:pval_str prints for it (what Base/Package.v holds) and the message read back into the JSON spelling
(so that the harness can see the message is the one it asked for)."""
from common import main, exc_info
import vlsir
from designlib import pval_str


def mk(v):
    t = v[0]
    if t == "int":
        return vlsir.ParamValue(int64_value=v[1])
    if t == "dbl":
        return vlsir.ParamValue(double_value=float.fromhex(v[1]))
    if t == "str":
        return vlsir.ParamValue(string_value=v[1])
    if t == "lit":
        return vlsir.ParamValue(literal=v[1])
    if t == "pre":
        pre = vlsir.SIPrefix.Value(v[1])
        n = v[2]
        if n[0] == "int":
            return vlsir.ParamValue(prefixed=vlsir.Prefixed(prefix=pre, int64_value=n[1]))
        if n[0] == "dbl":
            return vlsir.ParamValue(prefixed=vlsir.Prefixed(prefix=pre, double_value=float.fromhex(n[1])))
        return vlsir.ParamValue(prefixed=vlsir.Prefixed(prefix=pre, string_value=n[1]))
    raise ValueError(v)


def back(pv):
    k = pv.WhichOneof("value")
    if k == "int64_value":
        return ["int", pv.int64_value]
    if k == "double_value":
        return ["dbl", float(pv.double_value).hex()]
    if k == "string_value":
        return ["str", pv.string_value]
    if k == "literal":
        return ["lit", pv.literal]
    p = pv.prefixed
    pk = p.WhichOneof("number")
    num = (["int", p.int64_value] if pk == "int64_value" else ["dbl", float(p.double_value).hex()] if pk == "double_value"
           else ["str", p.string_value])
    return ["pre", vlsir.SIPrefix.Name(p.prefix), num]


def do(job):
    rows = []
    for v in job["values"]:
        try:
            pv = mk(v)
            rows.append(dict(text=pval_str(pv), back=back(pv), err=None))
        except Exception as e:
            rows.append(dict(text=None, back=None, err=exc_info(e)))
    return dict(rows=rows)


def handler(p):
    return dict(results=[do(j) for j in p["jobs"]])


main(handler)
