"""C02 implementation driver: each of elaborate / to_proto / netlist must raise on a faulty design.
Each entry point gets its own freshly built copy of the design (elaboration rewrites modules in place)."""
from common import main, exc_info
import io
import hdl21 as h
from designlib import Builder, mk_index


from c02hist import HistBuilder as Builder2, observe      # construction histories (public reads, late width edits)


class BBuilder:
    """Bundle designs (harness/vp/c02b.py) -> hdl21 objects, public API only."""

    def __init__(self, d):
        self.d = d
        self.bundles = []
        for k, b in enumerate(d["bundles"]):
            if k == 0:
                self.bundles.append(h.Diff)
                continue
            B = h.Bundle(name=b["name"])
            for n, w in b["sigs"]:
                B.add(h.Signal(name=n, width=w))
            self.bundles.append(B)
        self.mods = []
        self.observe = bool((d.get("hist") or {}).get("observe"))
        self.made = []

    def target(self, of):
        return self.mods[of[1]] if of[0] == "mod" else h.R(r=of[2])

    def expr(self, m, e):
        o = self.expr0(m, e)
        if self.observe:
            self.made.append(o)
            observe(o)
        return o

    def expr0(self, m, e):
        t = e[0]
        if t == "sig":
            return m.get(e[1])
        if t == "bref":
            return getattr(m.get(e[1]), e[2])
        if t == "sl":
            return self.expr(m, e[1])[mk_index(e[2])]
        if t == "cat":
            return h.Concat(*[self.expr(m, p) for p in e[1]])
        if t == "orphan":
            return h.Signal(name=f"orph{e[1]}", width=e[1])
        if t == "foreign":
            return self.mods[e[1]].get(e[2])
        if t == "bref_orphan":
            return getattr(self.bundles[e[1]](name="borph"), e[2])
        if t == "bref_foreign":
            return getattr(self.mods[e[1]].get(e[2]), e[3])
        raise ValueError(t)

    def conn(self, m, c):
        o = self.conn0(m, c)
        if self.observe:
            self.made.append(o)
            observe(o)
        return o

    def conn0(self, m, c):
        t = c[0]
        if t == "x":
            return self.expr(m, c[1])
        if t == "b":
            return m.get(c[1])
        if t == "anon":
            ab = h.AnonymousBundle()
            for name, e in c[1]:
                ab.add(name, self.expr(m, e))
            return ab
        if t == "borphan":
            return self.bundles[c[1]](name="borph")
        if t == "bforeign":
            return self.mods[c[1]].get(c[2])
        raise ValueError(t)

    def build(self):
        for md in self.d["mods"]:
            self.mods.append(h.Module(name=md["name"]) if md["name"] is not None else h.Module())
        for md, m in zip(self.d["mods"], self.mods):
            for n, w in md["ports"]:
                m.add(h.Signal(name=n, width=w, vis=h.signal.Visibility.PORT, direction=h.PortDir.INOUT))
            for n, k in md["bports"]:
                m.add(self.bundles[k](port=True, name=n))
            for n, w in md["sigs"]:
                m.add(h.Signal(name=n, width=w))
            for n, k in md["binsts"]:
                m.add(self.bundles[k](name=n))
            for x in md["insts"]:
                tgt = self.target(x["of"])
                if x["pair"]:
                    inst = h.Pair(tgt)
                    inst.name = x["name"]
                elif x["n"] > 0:
                    inst = h.InstanceArray(of=tgt, n=x["n"], name=x["name"])
                else:
                    inst = h.Instance(of=tgt, name=x["name"])
                m.add(inst)
            for x in md["insts"]:
                inst = m.get(x["name"])
                for port, c in x["conns"]:
                    inst.connect(port, self.conn(m, c))
        if self.observe:
            for md, m in zip(self.d["mods"], self.mods):
                self.made += [m.get(row[0]) for row in md["ports"] + md["bports"] + md["sigs"] + md["binsts"]]
                self.made += [m.get(x["name"]) for x in md["insts"]]
            for o in self.made:
                observe(o)
        return self.mods[self.d["top"]]


def attempt(design, what, kind="design"):
    try:
        top = (BBuilder(design) if kind == "bdesign" else Builder2(design)).build()
    except Exception as e:
        return ["rejected-at-build", exc_info(e)]
    try:
        if what == "elaborate":
            h.elaborate(top)
        elif what == "to_proto":
            h.to_proto(top)
        else:
            h.netlist(top, dest=io.StringIO(), fmt="spice")
    except Exception as e:
        return ["rejected", exc_info(e)]
    return ["accepted", None]


def do(job):
    return {w: attempt(job["design"], w, job.get("kind", "design")) for w in job["entry"]}


def handler(p):
    return dict(results=[do(j) for j in p["jobs"]])


main(handler)
