"""C02 implementation driver: each of elaborate / to_proto / netlist must raise on a faulty design.
Each entry point gets its own freshly built copy of the design (elaboration rewrites modules in place)."""
from common import main, exc_info
import io
import hdl21 as h
from designlib import Builder


def attempt(design, what):
    try:
        top = Builder(design).build()
    except Exception as e:
        return ["rejected-at-build", exc_info(e)]
    try:
        if what == "elaborate":
            h.elaborate(top)
        elif what == "to_proto":
            h.to_proto(top)
        else:
            h.netlist(top, dest=io.StringIO(), fmt="spice")
    except Exception as e:
        return ["rejected", exc_info(e)]
    return ["accepted", None]


def do(job):
    return {w: attempt(job["design"], w) for w in job["entry"]}


def handler(p):
    return dict(results=[do(j) for j in p["jobs"]])


main(handler)
