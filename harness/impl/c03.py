"""C03 implementation driver: Python oracle, Slice.top/bot/step/width, width() and exported targets."""
import re
from common import main, exc_info, target_flats
import hdl21 as h
from hdl21.elab.helpers.width import width as hwidth


def mk_index(ix):
    if ix[0] == "i":
        return ix[1]
    return slice(ix[1], ix[2], ix[3])


_leafmods = {}
def leaf_mod(w):
    if w not in _leafmods:
        m = h.Module(name=f"Leaf{w}")
        m.p = h.Port(width=w)
        _leafmods[w] = m
    return _leafmods[w]


_bundles = {}
def bundle_def(w):
    if w not in _bundles:
        b = h.Bundle(name=f"B{w}")
        b.m = h.Signal(width=w)
        _bundles[w] = b
    return _bundles[w]


def parent_of_kind(kind, w):
    """A connectable of width w of the given kind, outside any module where possible."""
    if kind == "sig":
        return h.Signal(width=w)
    if kind == "slice":
        return h.Signal(width=w + 2)[1:w + 1]
    if kind == "rslice":      # reversed parent
        return h.Signal(width=w)[::-1]
    if kind == "concat":
        if w == 1:
            return h.Concat(h.Signal(width=1))
        return h.Concat(h.Signal(width=1), h.Signal(width=w - 1))
    if kind == "portref":
        m = h.Module(name="Holder")
        m.i = leaf_mod(w)()
        return m.i.p
    if kind == "bundleref":
        m = h.Module(name="Holder")
        m.b = bundle_def(w)()
        return m.b.m
    raise ValueError(kind)


def do_spec(j):
    w, a, b, st = j
    return list(range(w))[a:b:st]


def do_inner(j):
    kind, w, ix = j
    try:
        p = parent_of_kind(kind, w)
        s = p[mk_index(ix)]
        return ["acc", s.top, s.bot, s.step, s.width]
    except Exception as e:
        return ["rej", exc_info(e)]


def build_expr(m, e, nodes=None):
    """`nodes`: every Slice / Concat object that is built, in pre-order (a node before the nodes below it)."""
    t = e[0]
    if t == "sig":
        name = f"s{e[1]}"
        if m.get(name) is None:
            m.add(h.Signal(name=name, width=e[2]))
        return m.get(name)
    if t == "pref":
        name = f"r{e[1]}"
        if m.get(name) is None:
            m.add(leaf_mod(e[2])(), name=name)
        return getattr(m.get(name), "p")
    if t == "bref":
        name = f"b{e[1]}"
        if m.get(name) is None:
            m.add(bundle_def(e[2])(), name=name)
        return getattr(m.get(name), "m")
    if t == "sl":
        slot = None
        if nodes is not None:
            slot = len(nodes)
            nodes.append(None)
        obj = build_expr(m, e[1], nodes)[mk_index(e[2])]
        if slot is not None:
            nodes[slot] = obj
        return obj
    if t == "cat":
        slot = None
        if nodes is not None:
            slot = len(nodes)
            nodes.append(None)
        obj = h.Concat(*[build_expr(m, p, nodes) for p in e[1]])
        if slot is not None:
            nodes[slot] = obj
        return obj
    raise ValueError(t)


def public_width(obj):
    """The PUBLIC width property (Signal.width, Slice.width, Concat.width), None when reading it raises."""
    try:
        w = obj.width
        return w if isinstance(w, int) and not isinstance(w, bool) else None
    except Exception:
        return None


_cnt = [0]
def do_nested(j):
    expr = j
    _cnt[0] += 1
    m = h.Module(name=f"Top{_cnt[0]}")
    out = dict(width=None, flats=None, err=None, pub=None)
    nodes = []
    try:
        conn = build_expr(m, expr, nodes)
    except Exception as e:
        out["err"] = ["build", exc_info(e)]
        return out
    # the public width property of every Slice and Concat of the expression, read BEFORE anything is elaborated
    # (references unresolved); reading it must not disturb the elaboration that follows
    out["pub"] = [public_width(n) for n in nodes]
    try:
        w = hwidth(conn)
        out["width"] = w
    except Exception as e:
        out["err"] = ["width", exc_info(e)]
        w = 1
    try:
        m.dut = leaf_mod(max(w, 1))(p=conn)
        pkg = h.to_proto(m)
        pm = pkg.modules[-1]
        inst = [i for i in pm.instances if i.name == "dut"][0]
        tgt = [c.target for c in inst.connections if c.portname == "p"][0]
        fl = []
        for f in target_flats(pm, tgt):
            mt = re.fullmatch(r"(?:s|r|b)(\d+)(?:_p|_m)?", f[1])
            if not mt:
                raise RuntimeError(f"unexpected signal name {f[1]}")
            fl.append([f[0], int(mt.group(1))] + f[2:])
        out["flats"] = fl
    except Exception as e:
        out["err"] = ["elab", exc_info(e)]
    return out


# ------------------------------------------------------------------------------------------------
# systems of port connections that mention one another's port references
# ------------------------------------------------------------------------------------------------
_wmods = {}
def w_mod(w):
    if w not in _wmods:
        m = h.Module(name=f"W{w}")
        m.a = h.Port(width=w)
        _wmods[w] = m
    return _wmods[w]


def loop_expr(m, e):
    t = e[0]
    if t == "sig":
        return m.get(f"s{e[1]}")
    if t == "pref":
        return getattr(m.get(f"i{e[1]}"), "a")
    if t == "sl":
        return loop_expr(m, e[1])[mk_index(e[2])]
    if t == "cat":
        return h.Concat(*[loop_expr(m, p) for p in e[1]])
    raise ValueError(t)


def do_loop(j):
    """j = dict(sigs=[width], ports=[width], conns=[expr | None]): Signals s<k>, Instances i<k> of a Module with one
    port `a`; the connection of i<k>.a may mention Signals and the ports `a` of every Instance.
    Returns, per connected port, the public width before elaboration and the resolved target in the exported package,
    least significant first, as flats whose names are mapped back: s<k> -> k, i<k>_a -> 100 + k."""
    _cnt[0] += 1
    m = h.Module(name=f"Sys{_cnt[0]}")
    out = dict(ports=None, err=None)
    try:
        for k, w in enumerate(j["sigs"]):
            m.add(h.Signal(name=f"s{k}", width=w))
        for k, w in enumerate(j["ports"]):
            m.add(w_mod(w)(), name=f"i{k}")
        conns = {}
        for k, e in enumerate(j["conns"]):
            if e is not None:
                conns[k] = loop_expr(m, e)
        for k, c in conns.items():
            m.get(f"i{k}").connect("a", c)
        pre = {}
        for k, c in conns.items():
            pre[k] = public_width(c) if isinstance(c, (h.Signal, h.Slice, h.Concat)) else hwidth(c)
        pkg = h.to_proto(m)
        pm = pkg.modules[-1]
        ports = []
        for k in sorted(conns):
            inst = [i for i in pm.instances if i.name == f"i{k}"][0]
            tgt = [c.target for c in inst.connections if c.portname == "a"][0]
            fl = []
            for f in target_flats(pm, tgt):
                ms, mi = re.fullmatch(r"s(\d+)", f[1]), re.fullmatch(r"i(\d+)_a", f[1])
                if ms:
                    sid = int(ms.group(1))
                elif mi:
                    sid = 100 + int(mi.group(1))
                else:
                    raise RuntimeError(f"unexpected signal name {f[1]}")
                fl.append([f[0], sid] + f[2:])
            ports.append([pre[k], fl])
        out["ports"] = ports
    except Exception as e:
        out["err"] = exc_info(e)
    return out


def handler(p):
    f = dict(spec=do_spec, inner=do_inner, nested=do_nested, loop=do_loop)[p["kind"]]
    return dict(results=[f(j) for j in p["jobs"]])


main(handler)
