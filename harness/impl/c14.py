"""C14 implementation driver: operators of hdl21.prefix.Prefixed on given operands, canonicalised.

A Decimal is returned as [sign, coefficient, exponent] (as_tuple), a Prefixed as ["val", decimal, prefix.value],
a raised exception as ["exc", class name], a float as ["fin", n, e] (= n * 2**e, exactly) or ["inf", negative]."""
from decimal import Decimal
from common import main, exc_info
from hdl21.prefix import Prefix, Prefixed, to_prefixed


def dec(d):
    t = d.as_tuple()
    if not isinstance(t.exponent, int):
        raise ValueError("non-finite Decimal")
    c = 0
    for x in t.digits:
        c = c * 10 + x
    return [t.sign, c, t.exponent]


def val(f):
    try:
        r = f()
        if not isinstance(r, Prefixed):
            return ["exc", "not-a-Prefixed:" + type(r).__name__]
        if not isinstance(r.number, Decimal) or not isinstance(r.prefix, Prefix):
            return ["exc", "bad-fields"]
        return ["val", dec(r.number), r.prefix.value]
    except Exception as e:
        return ["exc", type(e).__name__]


def flt(f):
    try:
        x = f()
        if type(x) is not float:
            return ["exc", "not-a-float"]
        if x != x:
            return ["exc", "nan"]
        if x in (float("inf"), float("-inf")):
            return ["inf", x < 0]
        n, d = x.as_integer_ratio()
        return ["fin", n, -(d.bit_length() - 1)]
    except Exception as e:
        return ["exc", type(e).__name__]


def do_meta(_):
    import hdl21.prefix as hp
    return dict(prefixes=[[p.name, p.value] for p in Prefix], epsilon=hp.EPSILON)


def mk(n, p):
    return Prefixed(number=Decimal(n), prefix=Prefix(p))


def mk_hist(n, p, hist):
    """the number n * 10^p reached through a HISTORY of the object: another value was built (and hashed, compared, used as a
    dict key) first, then the fields were re-assigned / the object copied with an update.  Prefixed is an ordinary mutable
    pydantic model; what the object denotes afterwards is its current fields."""
    kind, n0, p0 = hist
    x = mk(n0, p0)
    seen = {x: 0}
    hash(x); x == x; float(x)
    if kind == "assign":
        x.number = Decimal(n); x.prefix = Prefix(p)
        return x
    if kind == "assign-prefix-first":
        x.prefix = Prefix(p); hash(x); x.number = Decimal(n)
        return x
    if kind == "copy-update":
        return x.model_copy(update=dict(number=Decimal(n), prefix=Prefix(p)))
    if kind == "copy-then-assign":
        y = x.model_copy()
        hash(y)
        y.number = Decimal(n); y.prefix = Prefix(p)
        return y
    if kind == "deepcopy-update":
        y = x.model_copy(deep=True, update=dict(prefix=Prefix(p)))
        y.number = Decimal(n)
        return y
    raise ValueError(kind)


def do_pair(j):
    na, pa, nb, pb = j[:4]
    a, b = mk(na, pa), mk(nb, pb)
    if len(j) > 4 and j[4] is not None:
        a = mk_hist(na, pa, j[4])
    sb = Decimal(nb)
    out = dict(
        add=val(lambda: a + b), sub=val(lambda: a - b), mul=val(lambda: a * b),
        neg=val(lambda: -a), abs=val(lambda: abs(a)),
        scale=val(lambda: a.scale(b.prefix)), auto=val(lambda: a.scale()),
        pmul=val(lambda: a * b.prefix),
        muls=val(lambda: a * sb), adds=val(lambda: a + sb), rsubs=val(lambda: sb - a),
    )
    try:
        out["cmp"] = [bool(x) for x in (a < b, a <= b, a == b, a != b, a > b, a >= b)]
    except Exception as e:
        out["cmp"] = ["exc", type(e).__name__]
    try:
        out["hasheq"] = bool(hash(a) == hash(b))
    except Exception as e:
        out["hasheq"] = ["exc", type(e).__name__]
    try:
        i = int(a)
        out["int"] = i if type(i) is int else ["exc", "not-an-int"]
    except Exception as e:
        out["int"] = ["exc", type(e).__name__]
    out["float"] = flt(lambda: float(a))
    # operands must be unchanged by the operators (value semantics)
    out["intact"] = dec(a.number) == dec(Decimal(na)) and a.prefix.value == pa and dec(b.number) == dec(Decimal(nb)) and b.prefix.value == pb
    return out


def do_conv(j):
    how, typ, text, p = j
    x = dict(dec=lambda: Decimal(text), str=lambda: text, int=lambda: int(text), float=lambda: float(text))[typ]()
    if how == "to_prefixed":
        return val(lambda: to_prefixed(x))
    if how == "rmul":
        return val(lambda: x * Prefix(p))
    if how == "mul":
        return val(lambda: Prefix(p) * x)
    if how == "ctor":
        return val(lambda: Prefixed(number=x, prefix=Prefix(p)))
    if how == "new":
        return val(lambda: Prefixed.new(x, Prefix(p)))
    raise ValueError(how)


def handler(p):
    f = dict(meta=do_meta, pair=do_pair, conv=do_conv)[p["kind"]]
    return dict(results=[f(j) for j in p["jobs"]])


main(handler)
