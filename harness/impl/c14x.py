"""C14X implementation driver: float() of groups of representations, scale(), mixed comparisons / hashes, chains.

Canonical forms as in harness/impl/c14.py (Decimal = [sign, coefficient, exponent], Prefixed = ["val", decimal, prefix.value],
float = ["fin", n, e] (= n * 2**e exactly) or ["inf", negative], exception = ["exc", class name])."""
from decimal import Decimal
from common import main
from hdl21.prefix import Prefix, Prefixed


def dec(d):
    t = d.as_tuple()
    if not isinstance(t.exponent, int):
        raise ValueError("non-finite Decimal")
    c = 0
    for x in t.digits:
        c = c * 10 + x
    return [t.sign, c, t.exponent]


def val(f):
    try:
        r = f()
        if not isinstance(r, Prefixed):
            return ["exc", "not-a-Prefixed:" + type(r).__name__]
        if not isinstance(r.number, Decimal) or not isinstance(r.prefix, Prefix):
            return ["exc", "bad-fields"]
        return ["val", dec(r.number), r.prefix.value]
    except Exception as e:
        return ["exc", type(e).__name__]


def flt(f):
    try:
        x = f()
        if type(x) is not float:
            return ["exc", "not-a-float"]
        if x != x:
            return ["exc", "nan"]
        if x in (float("inf"), float("-inf")):
            return ["inf", x < 0]
        n, d = x.as_integer_ratio()
        return ["fin", n, -(d.bit_length() - 1)]
    except Exception as e:
        return ["exc", type(e).__name__]


def mk(n, p):
    return Prefixed(number=Decimal(n), prefix=Prefix(p))


def do_float(group):
    return [flt(lambda: float(mk(n, p))) for n, p in group]


def do_scale(j):
    n, p = j
    a = mk(n, p)
    out = dict(auto=val(lambda: a.scale()))
    try:
        i = int(a)
        out["int"] = i if type(i) is int else ["exc", "not-an-int"]
    except Exception as e:
        out["int"] = ["exc", type(e).__name__]
    out["intact"] = dec(a.number) == dec(Decimal(n)) and a.prefix.value == p
    return out


def six(f):
    try:
        r = f()
        if not all(type(x) is bool for x in r):
            return ["exc", "not-a-bool"]
        return list(r)
    except Exception as e:
        return ["exc", type(e).__name__]


def do_mixed(j):
    n, p, typ, text, xp = j
    a = mk(n, p)
    x = dict(dec=lambda: Decimal(text), int=lambda: int(text), float=lambda: float(text), pre=lambda: mk(text, xp))[typ]()
    out = dict(
        cmp=six(lambda: (a < x, a <= x, a == x, a != x, a > x, a >= x)),
        rcmp=six(lambda: (x < a, x <= a, x == a, x != a, x > a, x >= a)),
    )
    try:
        out["hasheq"] = bool(hash(a) == hash(x))
    except Exception as e:
        out["hasheq"] = ["exc", type(e).__name__]
    return out


def do_chain(j):
    a, b, c = (mk(n, p) for n, p in j)
    return six(lambda: (a < b, b < c, a < c, a > c, a == c))


def handler(p):
    f = dict(float=do_float, scale=do_scale, mixed=do_mixed, chain=do_chain)[p["kind"]]
    return dict(results=[f(j) for j in p["jobs"]])


main(handler)
