"""C15 implementation driver: PDK compilation of small hierarchical designs, registry histories, logic cells.

Runs under /venv/bin/python with PYTHONPATH=<repo tree>. One JSON document in, one out (see common.main).
Only observables the property talks about are reported, canonicalised:
  * instance names, connections (port -> net name), hierarchy (module table index), target kind
  * device call: identity class (small int per distinct object), device name, ordered device ports, parameter class, fields
  * scalars as exact rationals ["n", num, den], literals ["l", text], strings ["s", text], None
  * errors as class name + `desc` (RuntimeError/ValueError raised with a message) -- never message texts
"""
import dataclasses, decimal, enum, io, re, sys, types
from fractions import Fraction
from common import main, exc_info
import hdl21 as h
from hdl21.prefix import Prefix

PDK_PKGS = {"sample": "hdl21.pdk.sample_pdk", "sky130": "sky130_hdl21", "gf180": "gf180_hdl21", "asap7": "asap7_hdl21"}
_pdks = {}


def pdk_pkg(name):
    if name not in _pdks:
        import importlib
        _pdks[name] = importlib.import_module(PDK_PKGS[name])
    return _pdks[name]


def pdk_module(name):
    """the registered python module of the PDK (the one carrying `compile`)"""
    p = pdk_pkg(name)
    for attr in ("pdk_logic", "pdk"):
        if hasattr(p, attr) and isinstance(getattr(p, attr), types.ModuleType):
            return getattr(p, attr)
    return p


def err(e):
    d = exc_info(e)
    # descriptive = raised on purpose with a message: RuntimeError / ValueError (pydantic wraps the parameter classes'
    # ValueError in its ValidationError, a ValueError subclass); lookups, iteration and type errors escaping are not
    d["desc"] = bool(isinstance(e, (RuntimeError, ValueError)) and not isinstance(e, (RecursionError, NotImplementedError))
                     and str(e).strip())
    return d


def canon(x):
    if x is None:
        return None
    if isinstance(x, h.Prefixed):
        f = Fraction(x.number) * Fraction(10) ** x.prefix.value
        return ["n", f.numerator, f.denominator]
    if isinstance(x, h.Literal):
        return ["l", x.text]
    if isinstance(x, enum.Enum):
        return ["s", f"{type(x).__name__}.{x.name}"]
    if isinstance(x, bool):
        return ["s", str(x)]
    if isinstance(x, int):
        return ["n", x, 1]
    if isinstance(x, (float, decimal.Decimal)):
        f = Fraction(repr(x)) if isinstance(x, float) else Fraction(x)
        return ["n", f.numerator, f.denominator]
    if isinstance(x, str):
        return ["s", x]
    return ["s", "?" + type(x).__name__]


def mk_scalar(v):
    if v is None:
        return None
    if v[0] == "p":
        return h.Prefixed(number=decimal.Decimal(v[1]), prefix=Prefix[v[2]])
    if v[0] == "l":
        return h.Literal(v[1])
    if v[0] == "i":
        return int(v[1])
    if v[0] == "s":
        return v[1]
    raise ValueError(v)


ENUMS = dict(tp=h.MosType, fam=h.MosFamily, vth=h.MosVth, btp=h.primitives.BipolarType)
PRIM_FIELDS = {
    "Mos": ("model", "tp", "fam", "vth", "w", "l", "nf", "mult"),
    "PhysicalResistor": ("model", "w", "l"), "ThreeTerminalResistor": ("model", "w", "l"),
    "PhysicalCapacitor": ("model", "w", "l", "mult"), "ThreeTerminalCapacitor": ("model", "w", "l", "mult"),
    "Diode": ("model", "w", "l"), "Bipolar": ("model", "btp", "w", "l", "mult"),
}


def mk_prim_call(prim, params):
    P = getattr(h.primitives, prim)
    kw = {}
    for k, v in params.items():
        if k not in PRIM_FIELDS[prim]:
            raise ValueError(f"{prim} has no parameter {k}")
        if v is None:
            continue
        if k in ("tp", "btp"):
            kw["tp"] = ENUMS[k][v]
        elif k == "fam":
            kw["family"] = ENUMS[k][v]
        elif k == "vth":
            kw["vth"] = ENUMS[k][v]
        elif k == "model":
            kw["model"] = v
        else:
            kw[k] = mk_scalar(v)
    return P(**kw)


def canon_prim_params(prm):
    g = lambda a: getattr(prm, a, None)
    tp = g("tp")
    return dict(model=g("model"), tp=(canon(tp)[1] if tp is not None else ""),
                fam=(canon(g("family"))[1] if g("family") is not None else ""),
                vth=(canon(g("vth"))[1] if g("vth") is not None else ""),
                w=canon(g("w")), l=canon(g("l")), nf=canon(g("nf")), mult=canon(g("mult")))


Blackbox = h.ExternalModule(name="Blackbox", port_list=[h.Port(name="a"), h.Port(name="b")], desc="opaque leaf")
NETS = ("a", "b", "c", "d")


def build_design(job, tag):
    mods = []
    for k, md in enumerate(job["mods"]):
        m = h.Module(name=f"{md['name']}_{tag}")
        m.add(h.Port(name="a")); m.add(h.Port(name="b")); m.add(h.Signal(name="c")); m.add(h.Signal(name="d"))
        for it in md["insts"]:
            conns = {p: m.get(n) for p, n in it["conns"].items()}
            t = it["t"]
            if t == "prim":
                tgt = mk_prim_call(it["prim"], it["params"])
            elif t == "mod":
                tgt = mods[it["ref"]]
            elif t == "ext":
                tgt = Blackbox()
            elif t == "ideal":
                tgt = h.primitives.IdealResistor(r=1000)
            else:
                raise ValueError(t)
            m.add(tgt(**conns), name=it["n"])
        mods.append(m)
    return mods


def build_late(md, tag):
    """a module like those of build_design whose primitive instances may be instance ARRAYS (`arr`: n)"""
    m = h.Module(name=f"{md['name']}_{tag}")
    m.add(h.Port(name="a")); m.add(h.Port(name="b")); m.add(h.Signal(name="c")); m.add(h.Signal(name="d"))
    for it in md["insts"]:
        conns = {p: m.get(n) for p, n in it["conns"].items()}
        tgt = mk_prim_call(it["prim"], it["params"])
        if it.get("arr"):
            m.add(h.InstanceArray(tgt, it["arr"])(**conns), name=it["n"])
        else:
            m.add(tgt(**conns), name=it["n"])
    return m


class Ids:
    def __init__(self):
        self.objs = []

    def of(self, o):
        for i, x in enumerate(self.objs):
            if x is o:
                return i
        self.objs.append(o)
        return len(self.objs) - 1


def net_name(c):
    return c.name if hasattr(c, "name") and isinstance(getattr(c, "name"), str) else "?" + type(c).__name__


def report_design(mods, ids):
    out = []
    for m in mods:
        insts = []
        for name, inst in m.instances.items():
            of = inst.of
            if isinstance(of, h.Module):
                idx = [i for i, x in enumerate(mods) if x is of]
                t = ["mod", idx[0] if idx else -1]
            elif isinstance(of, h.PrimitiveCall):
                t = ["prim", of.prim.name, canon_prim_params(of.params)]
            elif isinstance(of, h.ExternalModuleCall):
                if of.module is Blackbox:
                    t = ["ext", of.module.name]
                else:
                    prm = of.params
                    if dataclasses.is_dataclass(prm):
                        fields = {f.name: canon(getattr(prm, f.name)) for f in dataclasses.fields(prm)}
                    elif isinstance(prm, dict):
                        fields = {str(k): canon(v) for k, v in prm.items()}
                    else:
                        fields = {}
                    t = ["call", ids.of(of), of.module.name, [p.name for p in of.module.port_list], type(prm).__name__, fields]
            else:
                t = ["other", type(of).__name__]
            insts.append(dict(n=name, conns=sorted([p, net_name(c)] for p, c in inst.conns.items()), of=t))
        out.append(dict(name=m.name, insts=insts))
    return out


def do_design(job):
    out = dict(pre=None, post=None, err=None, netlist=None)
    try:
        pk = pdk_pkg(job["pdk"])
        pm = pdk_module(job["pdk"])
        copies = [build_design(job, f"j{job['id']}c{c}") for c in range(job.get("copies", 1))]
        tops = [ms[job["top"]] for ms in copies]
        h.elaborate(tops)
    except Exception as e:
        out["err"] = dict(phase="build", **err(e))
        return out
    late = job.get("late")
    if late is not None:
        # a history the walker's own callers produce (HierarchyWalker.visit_instance, pdk.compile): an instance of an
        # ELABORATED parent is re-targeted at a module that has never been elaborated (it still holds instance arrays);
        # then the design is compiled.  What `pre` shows of the late module is its elaborated form, taken from a twin.
        try:
            ms = copies[0]
            fresh = build_late(late["mod"], f"j{job['id']}c0")
            twin = build_late(late["mod"], f"j{job['id']}t0")
            h.elaborate(twin)
            ms[job["top"]].instances[late["inst"]].of = fresh
            ms.append(fresh)
        except Exception as e:
            out["err"] = dict(phase="build", **err(e))
            return out
    ids = Ids()
    out["pre"] = [report_design(ms, ids) for ms in copies]
    if late is not None:
        out["pre"][0][-1]["insts"] = report_design([twin], Ids())[0]["insts"]
    via = job.get("via", "direct")
    try:
        for top in tops:
            for _ in range(job.get("times", 1)):
                if via == "direct":
                    pk.compile(top)
                elif via == "name":
                    h.pdk.compile(top, pdk=pm.__name__)
                elif via == "module":
                    h.pdk.compile(top, pdk=pm)
                elif via == "default":
                    h.pdk.set_default(pm)
                    h.pdk.compile(top)
                else:
                    raise ValueError(via)
    except BaseException as e:
        out["err"] = dict(phase="compile", **err(e))
    ids = Ids()
    out["post"] = [report_design(ms, ids) for ms in copies]
    if out["err"] is None:
        nl = {}
        for fmt in ("spice", "spectre"):
            try:
                s = io.StringIO()
                h.netlist(tops[0], dest=s, fmt=fmt)
                nl[fmt] = ["ok", len(s.getvalue())]
            except BaseException as e:
                nl[fmt] = ["err", type(e).__name__]
        try:
            pkg = h.to_proto(tops[0])
            nl["proto"] = ["ok", len(pkg.modules)]
        except BaseException as e:
            nl["proto"] = ["err", type(e).__name__]
        out["netlist"] = nl
    return out


# ------------------------------------------------------------------------------------------------- registry histories
def do_registry(job):
    """one fresh process per history; synthetic PDK modules record which compile ran"""
    import hdl21.pdk as P
    ran = []
    mods = []
    for k, spec in enumerate(job["modules"]):
        name, kind = spec
        m = types.ModuleType(name)
        if kind == "ok":
            def compile(src: h.Elaboratables, _k=k) -> None:
                ran.append(_k)
            # the registry demands exactly one parameter: wrap so that the default argument is not visible
            def mk(kk):
                def compile(src: h.Elaboratables) -> None:
                    ran.append(kk)
                return compile
            m.compile = mk(k)
        elif kind == "nocompile":
            pass
        elif kind == "twoargs":
            def c2(src: h.Elaboratables, other: int) -> None:
                ran.append(-1)
            m.compile = c2
        elif kind == "badann":
            def c3(src: int) -> None:
                ran.append(-1)
            m.compile = c3
        elif kind == "badret":
            def c4(src: h.Elaboratables) -> int:
                ran.append(-1)
            m.compile = c4
        mods.append(m)
    src = h.Module(name="Empty")
    res = []
    for op in job["ops"]:
        ran.clear()
        try:
            if op[0] == "register":
                P.register(mods[op[1]]); res.append(["ok", None])
            elif op[0] == "register_notmod":
                P.register(42); res.append(["ok", None])
            elif op[0] == "set_default":
                P.set_default(mods[op[2]] if op[1] == "module" else job["modules"][op[2]][0] if op[1] == "name" else op[2])
                res.append(["ok", None])
            elif op[0] == "set_default_name":
                P.set_default(op[1]); res.append(["ok", None])
            elif op[0] == "default":
                d = P.default()
                idx = [i for i, x in enumerate(mods) if x is d]
                res.append(["ok", idx[0] if idx else (None if d is None else -2)])
            elif op[0] == "compile":
                if op[1] == "default":
                    P.compile(src)
                elif op[1] == "name":
                    P.compile(src, pdk=op[2] if isinstance(op[2], str) else job["modules"][op[2]][0])
                elif op[1] == "module":
                    P.compile(src, pdk=mods[op[2]])
                res.append(["ok", ran[0] if len(ran) == 1 else (None if not ran else -3)])
            else:
                raise ValueError(op)
        except BaseException as e:
            d = exc_info(e)
            # rejection = an exception the registry raises itself (RuntimeError/TypeError with a message)
            res.append(["rej" if (type(e) in (RuntimeError, TypeError, ValueError) and str(e).strip()) else "esc", d["cls"]])
    return dict(results=res)


# ------------------------------------------------------------------------------------------------- logic cells
def all_cells():
    import sky130_hdl21.digital_cells as sd, gf180_hdl21.digital_cells as gd
    cells = []
    for lib in (sd.high_density, sd.high_speed, sd.low_leakage, sd.low_power, sd.low_speed, sd.medium_speed,
                gd.seven_track, gd.nine_track):
        for k, v in vars(lib).items():
            if isinstance(v, h.ExternalModule):
                cells.append((lib.__name__.split(".")[-1], k, v))
    return cells


_cells = []


def do_cells_list(_):
    return [[lib, k, v.name, len(v.port_list)] for lib, k, v in all_cells()]


def read_spice_instance(txt, iname):
    """tokens of the instance statement `x<iname>` (continuation lines joined), parameters dropped"""
    lines = txt.splitlines()
    for i, l in enumerate(lines):
        if l.strip().lower() == ("x" + iname).lower():
            toks = []
            for l2 in lines[i + 1:]:
                if not l2.startswith("+"):
                    break
                toks.extend(l2[1:].split())
            return [t for t in toks if "=" not in t]
    return None


def do_cell(j):
    global _cells
    if not _cells:
        _cells = all_cells()
    lib, k, v = _cells[j]
    out = dict(lib=lib, attr=k, name=v.name, ports=[p.name for p in v.port_list], err=None, spice=None, spectre=None, nets=None)
    try:
        m = h.Module(name=f"Top{j}")
        nets = {}
        for i, p in enumerate(v.port_list):
            nets[p.name] = m.add(h.Signal(name=f"n{i}"))
        m.add(v()(**nets), name="u")
        out["nets"] = [f"n{i}" for i in range(len(v.port_list))]
        s = io.StringIO(); h.netlist(m, dest=s, fmt="spice")
        out["spice"] = read_spice_instance(s.getvalue(), "u")
        s = io.StringIO(); h.netlist(m, dest=s, fmt="spectre")
        mt = re.search(r"\n\s*u\s*\n(?:\s*\+[^\n]*\n)*?\s*\+\s*\(([^)]*)\)\s*\n\s*\+\s*(\S+)", s.getvalue())
        out["spectre"] = (mt.group(1).split() + [mt.group(2)]) if mt else None
    except BaseException as e:
        out["err"] = err(e)
    return out


def do_tables(_):
    """live device tables (cross-check of the translator, and input of the exhaustive case generators)"""
    import sky130_hdl21.primitives.prim_dicts as SK, gf180_hdl21.primitives.prim_dicts as GF, asap7_hdl21.pdk as A7
    import hdl21.pdk.sample_pdk.pdk as SP
    def ks(k):
        k = k if isinstance(k, tuple) else (k,)
        return [canon(x)[1] for x in k]
    def tbl(d):
        return [[ks(k), [v.name, [p.name for p in v.port_list], v.paramtype.__name__]] for k, v in d.items()]
    out = {}
    for nm in ("xtors", "ress", "caps", "diodes", "bjts", "vpps"):
        out["sky130_" + nm] = tbl(getattr(SK, nm))
    for nm in ("xtors", "ress", "caps", "diodes", "bjts"):
        out["gf180_" + nm] = tbl(getattr(GF, nm))
    out["asap7_mos_modules"] = tbl(A7._mos_modules)
    out["sample_mos_modules"] = tbl({(h.MosType.PMOS,): SP.Pmos, (h.MosType.NMOS,): SP.Nmos})
    out["enums"] = dict(tp=[m.name for m in h.MosType], fam=[m.name for m in h.MosFamily], vth=[m.name for m in h.MosVth])
    return out


# ------------------------------------------------------------------------------------------------- histories
def compile_via(pdk, via, top):
    pk = pdk_pkg(pdk)
    pm = pdk_module(pdk)
    if via == "direct":
        pk.compile(top)
    elif via == "name":
        h.pdk.compile(top, pdk=pm.__name__)
    elif via == "module":
        h.pdk.compile(top, pdk=pm)
    elif via == "default":
        h.pdk.set_default(pm)
        h.pdk.compile(top)
    else:
        raise ValueError(via)


def do_history(job):
    """ONE module table (a module several instances refer to is one object), a sequence of compilations
    [pdk, via, entered module]; the table is observed after every compilation, whether it returned or raised.
    Object identities of device calls are numbered once for the whole history."""
    out = dict(pre=None, steps=[], err=None)
    try:
        for pdk in job.get("register", []) + [op[0] for op in job["ops"]]:
            pdk_pkg(pdk)                                   # importing a PDK package registers it
        mods = build_design(job, f"h{job['id']}")
        roots = [m for k, m in enumerate(mods) if not any(it["t"] == "mod" and it["ref"] == k for md in job["mods"] for it in md["insts"])]
        h.elaborate(roots)
    except Exception as e:
        out["err"] = dict(phase="build", **err(e))
        return out
    ids = Ids()
    out["pre"] = report_design(mods, ids)
    for pdk, via, top in job["ops"]:
        st = dict(post=None, err=None, netlist=None)
        try:
            compile_via(pdk, via, mods[top])
        except BaseException as e:
            st["err"] = dict(phase="compile", **err(e))
        st["post"] = report_design(mods, ids)
        if st["err"] is None:
            nl = {}
            for fmt in ("spice", "spectre"):
                try:
                    s = io.StringIO()
                    h.netlist(mods[top], dest=s, fmt=fmt)
                    nl[fmt] = ["ok", len(s.getvalue())]
                except BaseException as e:
                    nl[fmt] = ["err", type(e).__name__]
            try:
                pkg = h.to_proto(mods[top])
                nl["proto"] = ["ok", len(pkg.modules)]
            except BaseException as e:
                nl["proto"] = ["err", type(e).__name__]
            st["netlist"] = nl
        out["steps"].append(st)
    return out


def handler(p):
    kind = p["kind"]
    if kind == "tables":
        return dict(results=do_tables(None))
    if kind == "registry":
        return do_registry(p)
    if kind == "cells_list":
        return dict(results=do_cells_list(None))
    f = dict(design=do_design, cell=do_cell, history=do_history)[kind]
    return dict(results=[f(j) for j in p["jobs"]])


main(handler)
