"""C06 helper: Modules / ExternalModules DEFINED IN THIS PYTHON FILE (their qualified names start with `c06libb.`).
hdl21 takes the defining Python module from the first stack frame outside hdl21 - i.e. from here."""
import hdl21 as h


def module(name):
    return h.Module(name=name) if name is not None else h.Module()


def extmodule(**kw):
    return h.ExternalModule(**kw)
