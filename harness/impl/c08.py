"""C08 implementation driver: ONE history per interpreter (the process-global caches are the subject).

payload: {"kind": "static"} | {"kind": "history", "jobs": [job]} | {"kind": "gen", "jobs": [job]}
history job: {"mods": [modspec], "custom": [passspec], "steps": [step], "only": k|None}
  modspec  = {"name": str|None, "kids": [[kind, index]], "feats": [str], "fault": str|None}       kind = inst | arr | pair
  passspec = {"key", "kind": "raiser"|"half", "at": position in the default list (raiser) | "base": class name (half),
              "target": module index, "rewrites": bool, "k": int, "msg": str, "exc": key of EXC (what is raised)}
  step     = {"op": "call", "entry": "to_proto"|"elaborate"|"netlist", "tops": [index], "elab": "default"|"custom"}
           | {"op": "edit", "mod": index, "what": str}
           | {"op": "edit", "what": "retarget", "mod": parent index, "old": index, "to": index}   every instance of `old` in `mod` -> `to`
  only     = run the edits before step k and call k alone (what a fresh process gives for that call)
  keep     = (with only) build just these modules: the process in which nothing but the design of the call ever existed
  install  = how the custom pass list is made: "scratch" Elaborator(passes=[...]) | "mutate" e = Elaborator.default();
             e.passes.insert(k, X); set_elaborator(e) | "inplace" the_global_elaborator.passes.insert(k, X); every call
             ends with reset_elaborator()
  modspec "borrow" = {"from": owner index, "what": sig|slice|port|binst|bref|pref}: fault "borrow" connects an instance of
             this module to an object that belongs to ANOTHER module (a design error, reported by Orphanage)
  passspec "also" = further modules in which the injected pass would raise, were it (wrongly) still installed
Only the public hdl21 API is used to build, edit, elaborate and export; the class-level caches and the failure record are
READ (never written) after each call.
"""
from common import main
import io, re, sys, hashlib, asyncio
from typing import Optional
import hdl21 as h
from hdl21.elab import Elaborator, set_elaborator, reset_elaborator

P = sys.modules["hdl21.elab.passes"]
ElabPass = P.ElabPass


class Outcome(BaseException):
    """what a test framework raises to end a test (pytest's Skipped / Failed derive from BaseException as well)"""


# what a pass body / generator body is ended with; only the first is an `Exception`
EXC = {"exc": RuntimeError, "kbd": KeyboardInterrupt, "exit": SystemExit, "outcome": Outcome,
       "cancel": asyncio.CancelledError, "genexit": GeneratorExit}
GEN_KINDS = {0: RuntimeError, 2: KeyboardInterrupt, 3: SystemExit, 4: Outcome, 5: asyncio.CancelledError, 6: GeneratorExit}


def exc(e):
    # the WHOLE text, hierarchical error path included (a path naming modules of an earlier, unrelated failure is a
    # different error); object addresses are scrubbed, runs of blanks squeezed
    msg = re.sub(r"[ \t]+", " ", re.sub(r"0x[0-9a-fA-F]+", "0x?", str(e).strip()))[:1500]
    return dict(cls=type(e).__name__, msg=msg)


# ------------------------------------------------------------------------------------------------ building
def bundle_type():
    B = h.Bundle(name="B")
    B.x = h.Signal()
    B.y = h.Signal(width=2)
    return B


def build(job):
    B = bundle_type()
    specs = job["mods"]
    keep = job.get("keep")
    mods = []
    for si, sp in enumerate(specs):
        if keep is not None and si not in keep:
            mods.append(None)
            continue
        m = h.Module(name=sp["name"]) if sp["name"] is not None else h.Module()
        m.a = h.Input()
        m.b = h.Input(width=2)
        m.s = h.Signal()
        m.t = h.Signal(width=2)
        m.u = h.Signal(width=4)
        if "bport" in sp["feats"]:
            m.add(B(port=True), name="bp")
        mods.append(m)
    R = lambda: h.R(r=1)
    for mi, (sp, m) in enumerate(zip(specs, mods)):
        if m is None:
            continue
        for i, (kind, ci) in enumerate(sp["kids"]):
            child = mods[ci]
            if kind == "inst":
                x = m.add(h.Instance(of=child, name=f"i{i}"))
                x.connect("a", m.s); x.connect("b", m.t)
            elif kind == "arr":
                x = m.add(h.InstanceArray(of=child, n=2, name=f"i{i}"))
                x.connect("a", m.s); x.connect("b", m.u)
            elif kind == "pair":
                x = m.add(h.Pair(of=child, name=f"i{i}"))
                d = m.add(h.Diff(name=f"d{i}"))
                x.connect("a", d); x.connect("b", m.t)
            if "bport" in specs[ci]["feats"]:
                bi = m.add(B(), name=f"bi{i}")
                x.connect("bp", bi)
        f = sp["feats"]
        if "arrp" in f:
            x = m.add(h.InstanceArray(of=R(), n=2, name="ra"))
            x.connect("p", m.t); x.connect("n", m.s)
        if "ref" in f:
            r0 = m.add(h.Instance(of=R(), name="r0")); r0.connect("p", m.s)
            r1 = m.add(h.Instance(of=R(), name="r1")); r1.connect("n", m.s); r1.connect("p", r0.n)
        if "slc" in f:
            r2 = m.add(h.Instance(of=R(), name="r2"))
            r2.connect("p", h.Concat(m.t[0], m.u[1:3])[1]); r2.connect("n", m.u[0:2][1])
        if "bun" in f:
            bb = m.add(B(), name="bb")
            r3 = m.add(h.Instance(of=R(), name="r3")); r3.connect("p", bb.x); r3.connect("n", m.s)
        if "nc" in f:
            r4 = m.add(h.Instance(of=R(), name="r4")); r4.connect("p", m.s); r4.connect("n", h.NoConn())
        if "pairp" in f:
            d = m.add(h.Diff(name="dd"))
            x = m.add(h.Pair(of=R(), name="rp")); x.connect("p", d); x.connect("n", m.s)
        ft = sp.get("fault")
        if ft == "missing":
            r9 = m.add(h.Instance(of=R(), name="r9")); r9.connect("p", m.s)
        elif ft == "width":
            r9 = m.add(h.Instance(of=R(), name="r9")); r9.connect("p", m.t); r9.connect("n", m.s)
        elif ft == "orphan":
            r9 = m.add(h.Instance(of=R(), name="r9")); r9.connect("p", h.Signal(name="orph")); r9.connect("n", m.s)
        elif ft == "arrwidth":
            x = m.add(h.InstanceArray(of=R(), n=2, name="ra9")); x.connect("n", m.s); x.connect("p", m.u[0:3])
        elif ft == "badref":
            r8 = m.add(h.Instance(of=R(), name="r8")); r8.connect("n", m.s)
            r9 = m.add(h.Instance(of=R(), name="r9")); r9.connect("n", m.s); r9.connect("p", r8.nosuch)
            r8.connect("p", m.s)
        elif ft == "ncshort":
            nc = h.NoConn()
            r8 = m.add(h.Instance(of=R(), name="r8")); r8.connect("n", m.s); r8.connect("p", nc)
            r9 = m.add(h.Instance(of=R(), name="r9")); r9.connect("n", m.s); r9.connect("p", nc)
        elif ft == "anonmissing":
            # an anonymous bundle lacking a member of the child's bundle port (needs a `bport` child at kid 0)
            x = m.instances.get("i0") or m.instarrays.get("i0")
            x.connect("bp", h.AnonymousBundle(x=m.s))
        elif ft is not None and ft not in ("cycle", "unnamed", "borrow"):
            raise ValueError(ft)
    # faults that reach into ANOTHER module: made when everything else is built
    for sp, m in zip(specs, mods):
        if m is not None and sp.get("fault") == "borrow":
            borrow(m, mods[sp["borrow"]["from"]], sp["borrow"]["what"])
    return mods


def borrow(m, owner, what):
    """an instance of `m` connected to something that belongs to `owner`"""
    R = lambda: h.R(r=1)
    if what == "binst":       # a Bundle instance of the owner on a bundle-valued port of m's first child
        x = m.instances.get("i0") or m.instarrays.get("i0")
        x.connect("bp", owner.bb)
        return
    # named to sort before every instance of the owner: what leaks into the owner's design by NAME shows too
    r9 = m.add(h.Instance(of=R(), name="a9")); r9.connect("n", m.s)
    if what == "sig":
        r9.connect("p", owner.s)
    elif what == "slice":
        r9.connect("p", owner.t[0])
    elif what == "port":
        r9.connect("p", owner.a)
    elif what == "bref":      # a member of a Bundle instance of the owner
        r9.connect("p", owner.bb.x)
    elif what == "pref":      # a port of an instance of the owner
        r9.connect("p", owner.r0.n)
    else:
        raise ValueError(what)


def edit(mods, e):
    m = mods[e["mod"]]
    w = e["what"]
    if w == "retarget":
        # what a designer does with a module that is refused for good: build it anew, point its parents' instances there
        n = 0
        for ctr in (m.instances, m.instarrays, m.instbundles):
            for x in ctr.values():
                if x.of is mods[e["old"]]:
                    x.of = mods[e["to"]]
                    n += 1
        return n
    if w == "missing":
        m.r9.connect("n", m.s)
    elif w in ("width", "orphan"):
        m.r9.connect("p", m.s)
    elif w == "arrwidth":
        m.ra9.connect("p", m.t)
    elif w == "badref":
        m.r9.connect("p", m.t[0])
    elif w == "ncshort":
        m.r9.connect("p", m.t[1])
    elif w == "anonmissing":
        x = m.instances.get("i0") or m.instarrays.get("i0")
        x.connect("bp", h.AnonymousBundle(x=m.s, y=m.t))
    elif w == "borrow":
        if "a9" in m.instances:
            m.a9.connect("p", m.s)
        else:
            x = m.instances.get("i0") or m.instarrays.get("i0")
            x.connect("bp", m.bi0)
    elif w == "unnamed":
        m.name = e.get("name", "Named")
    elif w == "addref":            # two more resistors, one connected to a port of the other (a port reference to resolve)
        rx0 = m.add(h.Instance(of=h.R(r=1), name="rx0")); rx0.connect("p", m.s)
        rx1 = m.add(h.Instance(of=h.R(r=1), name="rx1")); rx1.connect("n", m.s); rx1.connect("p", rx0.n)
    elif w == "addsig":            # an edit that repairs nothing: one more signal
        m.add(h.Signal(name="extra"))
    else:
        raise ValueError(w)


# ------------------------------------------------------------------------------------------------ custom passes
def make_custom(job, mods):
    """The custom pass list of the history: the default list with raising passes inserted / rewriting passes replaced by
    subclasses which raise part-way through one module.  Public API only: ElabPass subclasses in an Elaborator."""
    passes = list(Elaborator.default().passes)
    keys = [None] * len(passes)
    inserts = []
    ops = []
    for ps in job.get("custom", []):
        target = [mods[ps["target"]]] + [mods[a] for a in ps.get("also", [])]
        target = [t for t in target if t is not None]
        msg = ps["msg"]
        xcls = EXC[ps.get("exc", "exc")]
        if ps["kind"] == "raiser":
            def mk(target=target, msg=msg, rewrites=ps.get("rewrites", True), xcls=xcls):
                class Raiser(ElabPass):
                    REWRITES_MODULES = rewrites

                    def elaborate_module(self, module):
                        if any(module is t for t in target):
                            if xcls is RuntimeError:
                                self.fail(msg)      # as the built-in passes report: with the hierarchical path
                            raise xcls(msg)
                        return module
                return Raiser
            inserts.append((ps["at"], ps["key"], mk()))
        else:
            base = getattr(P, ps["base"])
            idx = [i for i, c in enumerate(passes) if c is base]
            if not idx:
                raise ValueError(ps["base"])

            def mk(base=base, target=target, msg=msg, k=ps.get("k", 1), xcls=xcls):
                class Half(base):
                    _in_target = False
                    _count = 0

                    def elaborate_module(self, module):
                        if any(module is t for t in target):
                            self._in_target = True
                            self._count = 0
                        try:
                            return super().elaborate_module(module)
                        finally:
                            self._in_target = False

                    def flatname(self, segments, *, avoid=None, maxlen=511):
                        if self._in_target:
                            self._count += 1
                            if self._count >= k:
                                raise xcls(msg)
                        return super().flatname(segments, avoid=avoid, maxlen=maxlen)
                return Half
            cls = mk()
            passes[idx[0]] = cls
            keys[idx[0]] = ps["key"]
            ops.append(("replace", base, cls))
    for at, key, cls in sorted(inserts, key=lambda t: -t[0]):
        passes.insert(at, cls)
        keys.insert(at, key)
        ops.append(("insert", at, cls))
    return passes, keys, ops


def apply_ops(lst, ops):
    """what a designer writes to derive a pass list from the default one: `lst[lst.index(Base)] = Sub`, `lst.insert(k, X)`"""
    for op, where, cls in ops:
        if op == "replace":
            lst[lst.index(where)] = cls
        else:
            lst.insert(where, cls)


def install(custom, how):
    if how == "mutate":         # the default elaborator, edited, installed
        e = Elaborator.default()
        apply_ops(e.passes, custom[2])
        set_elaborator(e)
    elif how == "inplace":      # the installed (default) elaborator edited where it is
        reset_elaborator()
        apply_ops(sys.modules["hdl21.elab.elab"].the_global_elaborator.passes, custom[2])
    else:                       # a list built from scratch
        set_elaborator(Elaborator(passes=list(custom[0])))


# ------------------------------------------------------------------------------------------------ observation
def observe(mods, classes):
    ix = {id(m): i for i, m in enumerate(mods) if m is not None}
    done, pend = {}, {}
    for key, cls in classes.items():
        c = cls.CLASS_LEVEL_CACHE
        done[key] = sorted(ix[id(m)] for m in c.done if id(m) in ix)
        pend[key] = sorted(ix[id(m)] for m in c.pending if id(m) in ix)
    failed = {}
    for i, m in enumerate(mods):
        if m is None:
            continue
        e = getattr(m, "_elab_failure", None)
        if e is not None:
            failed[str(i)] = exc(e)
    elab = [i for i, m in enumerate(mods) if m is not None and getattr(m, "_elaborated", None) is not None]
    return dict(done=done, pend=pend, failed=failed, elab=elab)


def kids_now(mods):
    """who instantiates whom right now, in the order elaborate_module_base visits (public containers)"""
    ix = {id(m): i for i, m in enumerate(mods) if m is not None}
    out = []
    for m in mods:
        ks = []
        if m is None:
            out.append(ks)
            continue
        for ctr in (m.instances, m.instarrays, m.instbundles):
            for x in ctr.values():
                if isinstance(x.of, h.Module) and id(x.of) in ix:
                    ks.append(ix[id(x.of)])
        out.append(ks)
    return out


def do_call(step, mods, custom, how, keyof):
    tops = [mods[i] for i in step["tops"]]
    arg = tops if len(tops) != 1 or step.get("aslist") else tops[0]
    installed = None
    try:
        if step["elab"] == "custom":
            install(custom, how)
        else:
            reset_elaborator()
        # READ: the pass list this call runs with
        installed = [keyof.get(id(c), "?" + c.__name__) for c in sys.modules["hdl21.elab.elab"].the_global_elaborator.passes]
        return dict(call_inner(step, arg, mods), installed=installed)
    except BaseException as e:         # a KeyboardInterrupt ends a call as much as a design error does
        return dict(err=exc(e), installed=installed)
    finally:
        reset_elaborator()


def call_inner(step, arg, mods):
    if True:
        if step["entry"] == "elaborate":
            h.elaborate(arg)
            return dict(ok="", mods=[])
        if step["entry"] == "netlist":
            h.netlist(arg, dest=io.StringIO(), fmt="spice")
            return dict(ok="", mods=[])
        pkg = h.to_proto(arg)
        data = pkg.SerializeToString(deterministic=True)
        byname = {}
        for i, m in enumerate(mods):
            if m is not None:
                byname.setdefault(m.name, []).append(i)
        names = [pm.name.split(".")[-1] for pm in pkg.modules]
        return dict(ok=hashlib.sha256(data).hexdigest()[:14], mods=[byname.get(n, [-1])[0] for n in names], names=names)


def history(job):
    mods = build(job)
    custom = make_custom(job, mods)
    default = list(Elaborator.default().passes)
    classes = {}
    for c in default:
        classes.setdefault(c.__name__, c)
    for c, k in zip(custom[0], custom[1]):
        if k is not None:
            classes[k] = c
    keyof = {id(c): k for k, c in classes.items()}
    how = job.get("install", "scratch")
    out = []
    only = job.get("only")
    for k, st in enumerate(job["steps"]):
        if st["op"] == "edit":
            try:
                # how many pass classes have completed the edited module so far (0 = it is as it was built)
                if mods[st["mod"]] is None:
                    out.append(dict(edit="skipped"))
                    continue
                lv = sum(1 for c in set(classes.values()) if mods[st["mod"]] in c.CLASS_LEVEL_CACHE.done)
                n = edit(mods, st)
                out.append(dict(edit="ok" if n != 0 else "noop", levels=lv, n=n))
            except Exception as e:
                out.append(dict(edit="failed", err=exc(e)))
            continue
        if only is not None and k != only:
            out.append(None)
            continue
        kids = kids_now(mods)
        r = do_call(st, mods, custom, how, keyof)
        r["kids"] = kids
        r.update(observe(mods, classes))
        out.append(r)
    return dict(steps=out, custom_keys=custom[1])


def static(_):
    default = list(Elaborator.default().passes)
    return dict(passes=[dict(name=c.__name__, rewrites=bool(getattr(c, "REWRITES_MODULES", True)),
                             marks=issubclass(c, P.MarkModules), has_attr=hasattr(c, "REWRITES_MODULES")) for c in default])


# ------------------------------------------------------------------------------------------------ generators
def gen_history(job):
    """job: {"gens": [[nested key indices]], "uncached": [k], "steps": [{"key": k, "modes": {key: [i, kind]}}], "only": k|None}
    key k = generator k called with Params(w=1); the generators in `uncached` are declared with enable_cache=False.
    A body makes its nested calls in order and, when its current mode says so (the designer changes the body between
    calls), ends after `i` of them: kind 0 raises RuntimeError, 1 returns something that is no Module, 2.. raise a
    BaseException that is no Exception (GEN_KINDS)."""
    class NoName:
        """a parameter value without a JSON form (kind 7): equal and hashed by value, so that the repeated call is the same call"""

        def __init__(self, k):
            self.k = k

        def __eq__(self, other):
            return type(other) is type(self) and other.k == self.k

        def __hash__(self):
            return hash(self.k)

    noname = {}

    @h.paramclass
    class GP:
        w = h.Param(dtype=int, desc="w", default=1)
        o = h.Param(dtype=Optional[NoName], desc="a value that cannot be named, or None", default=None)

    modes = {}
    runs = {}
    gens = []

    def params_for(k):
        # kind 7: the call is made with a parameter value that cannot be named: its body runs to the end, returns a Module,
        # and NAMING that Module raises (TypeError from the JSON encoder) - a failure after the body ran
        if modes.get(k, (None, 0))[1] == 7:
            if k not in noname:
                noname[k] = type(f"NoName{k}", (NoName,), {})
            return GP(w=1, o=noname[k](k))
        return GP(w=1)

    def mkgen(k, nested):
        def body(p: GP) -> h.Module:
            runs[k] = runs.get(k, 0) + 1
            lim, kind = modes.get(k, (None, 0))
            if kind == 7:
                lim = None

            def end():
                if kind == 1:
                    return "not a Module"
                raise GEN_KINDS[kind](f"body of G{k} raised")
            made = []
            for j, nk in enumerate(nested):
                if lim is not None and j >= lim:
                    return end()
                made.append(gens[nk](params_for(nk)))
            if lim is not None:
                return end()
            m = h.Module()
            m.x = h.Signal(width=p.w)
            for j, c in enumerate(made):
                m.add(h.Instance(of=c, name=f"c{j}"))
            return m
        body.__name__ = f"G{k}"
        return h.generator(enable_cache=False)(body) if k in job.get("uncached", []) else h.generator(body)

    for k, nested in enumerate(job["gens"]):
        gens.append(mkgen(k, nested))
    cache = h.generator.cache
    out = []
    only = job.get("only")
    for i, st in enumerate(job["steps"]):
        if only is not None and i != only:
            out.append(None)
            continue
        modes.clear()
        modes.update({int(k): tuple(v) for k, v in st["modes"].items() if v is not None})
        try:
            m = gens[st["key"]](params_for(st["key"]))
            # a generator call returns a Module or raises; anything else handed out is an outcome of its own
            r = dict(ok=m.name) if isinstance(m, h.Module) else dict(err=dict(cls="NotAModule", msg=repr(m)[:80]))
        except RecursionError as e:
            r = dict(err=dict(cls="RecursionError", msg=""))
        except BaseException as e:
            r = dict(err=exc(e))
        r["pend"] = len(cache.pending)
        r["stack"] = len(cache.stack)
        r["done"] = sorted({k for c in cache.done for k, g in enumerate(gens) if c.gen is g})
        r["runs"] = {str(k): v for k, v in runs.items()}
        out.append(r)
    return dict(steps=out)


def pristine():
    """every process-global cache the property talks about is as `import hdl21` leaves it"""
    from hdl21.elab.passes.flatten_bundles import THE_CACHE
    seen, todo = [], [ElabPass]
    while todo:
        c = todo.pop()
        seen.append(c)
        todo += c.__subclasses__()
    for c in seen:
        k = c.CLASS_LEVEL_CACHE
        if k is not None and (k.done or k.pending):
            return False
    g = h.generator.cache
    return not (g.done or g.pending or g.stack or THE_CACHE.bundle_insts or THE_CACHE.anon_bundles or THE_CACHE.flat_bundle_ports)


def forked(fn, job):
    """Run one history in a forked child of this interpreter, which has imported hdl21 and done nothing else:
    the child's global state is that of a fresh process right after `import hdl21` (checked by `pristine`)."""
    import os, json, traceback
    if not pristine():
        raise RuntimeError("driver process is not pristine")
    r, w = os.pipe()
    pid = os.fork()
    if pid == 0:
        os.close(r)
        try:
            data = json.dumps(fn(job))
        except BaseException as e:
            data = json.dumps(dict(crash=traceback.format_exc()[-2000:]))
        with os.fdopen(w, "w") as f:
            f.write(data)
        os._exit(0)
    os.close(w)
    with os.fdopen(r) as f:
        data = f.read()
    os.waitpid(pid, 0)
    out = json.loads(data)
    if "crash" in out:
        raise RuntimeError("history crashed in the driver:\n" + out["crash"])
    return out


def handler(p):
    if p["kind"] == "static":
        return dict(results=[static(p)])
    fn = gen_history if p["kind"] == "gen" else history
    if len(p["jobs"]) == 1 and not p.get("fork"):
        return dict(results=[fn(p["jobs"][0])])         # this process IS the fresh interpreter
    return dict(results=[forked(fn, j) for j in p["jobs"]])


main(handler)
