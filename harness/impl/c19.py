"""C19 implementation driver: call the built-in generators Series / MosStack / Wrapper of hdl21.generators on an
abstractly described unit cell, export the result with h.to_proto and return the package as JSON.

job = {"gen": "series"|"mosstack"|"wrapper", "unit": U | None, "conns": [ca, cb] | None, "nser": int | None,
       "pre": bool (export the unit on its own before handing it to the generator)}
U    = {"kind":"prim","name":<Primitive.name>} | {"kind":"ext","name":..,"ports":[[n,w]],"tag":k}
     | {"kind":"mod","name":..,"sigs":[[n,w,dir]],"buns":[[bname,[[member,w]]]]}
conn = ["name", s] | ["port", s] (the unit's own port object) | ["fresh", s, w] (an unrelated Signal of that name)
     | ["bundleport", s] (the unit's bundle-valued port object) | ["int", k] (not a valid SeriesConn at all)
Only the public API is used; nothing here decides what the right answer is.
"""
from common import main, exc_info
import hdl21 as h
from hdl21.generators import Series, MosStack, Wrapper
from designlib import pkg_json, DIRS


@h.paramclass
class ExtParams:
    tag = h.Param(dtype=int, desc="tag", default=0)


def all_prims():
    import hdl21.primitives as hp
    seen, out = set(), []
    for ent in hp._primitives.values():
        p = ent.prim
        if p.name not in seen:
            seen.add(p.name)
            out.append(p)
    return out


def prim_call(name):
    for p in all_prims():
        if p.name == name:
            try:
                return p()
            except Exception:
                pass
            # required parameters: those whose default is the `Default` sentinel class itself
            from hdl21.default import Default
            kw = {k: ("m" if k == "model" else 1) for k, v in p.paramtype.__params__.items()
                  if v.default is Default and v.default_factory is Default}
            return p(**kw)
    raise KeyError(name)


def mk_bundle(bname, members):
    b = h.Bundle(name="B_" + bname)
    for n, w in members:
        b.add(h.Signal(name=n, width=w))
    return b


def mk_unit(u):
    if u["kind"] == "prim":
        return prim_call(u["name"])
    if u["kind"] == "ext":
        x = h.ExternalModule(name=u["name"], port_list=[h.Port(name=n, width=w) for n, w in u["ports"]], paramtype=ExtParams)
        return x(tag=u.get("tag", 1))
    if u["kind"] == "mod":
        m = h.Module(name=u["name"])
        for n, w, d in u["sigs"]:
            m.add(h.Signal(name=n, width=w, vis=h.signal.Visibility.PORT, direction=DIRS[d]))
        for bn, members in u["buns"]:
            m.add(h.BundleInstance(name=bn, of=mk_bundle(bn, members), port=True))
        # some content: a resistor from every port bit to an internal node (keeps every port in use)
        m.add(h.Signal(name="zz_mid", width=1))
        k = 0
        for n, w, d in u["sigs"]:
            for j in range(w):
                m.add(h.R(r=1)(p=m.get(n)[j] if w > 1 else m.get(n), n=m.get("zz_mid")), name=f"zz_r{k}")
                k += 1
        for bn, members in u["buns"]:
            for n, w in members:
                if w == 1:      # (wider members stay unused inside the unit: slicing a bundle reference is C03's subject)
                    m.add(h.C(c=1)(p=getattr(m.get(bn), n), n=m.get("zz_mid")), name=f"zz_c{k}")
                    k += 1
        return m
    raise ValueError(u)


def mk_conn(unit, c):
    t = c[0]
    if t == "name":
        return c[1]
    if t == "port":
        return unit.ports[c[1]]
    if t == "fresh":
        return h.Signal(name=c[1], width=c[2])
    if t == "bundleport":
        return unit.bundle_ports[c[1]]
    if t == "int":
        return c[1]
    raise ValueError(c)


def do(job):
    out = dict(pkg=None, err=None, stage=None)
    try:
        unit = mk_unit(job["unit"]) if job.get("unit") is not None else None
        if job.get("pre") == "failed" and unit is not None and isinstance(unit, h.Module):
            # the unit was part of a design whose elaboration FAILED elsewhere, after the bundle passes had visited the unit
            # (an instance array with a missing connection is only found by the post-flattening checks)
            t = h.Module(name="PreFailTop")
            cs = {}
            for pn, pt in unit.ports.items():
                cs[pn] = t.add(h.Signal(name="s_" + pn, width=pt.width))
            for bn, bp in unit.bundle_ports.items():
                cs[bn] = t.add(bp.of(name="b_" + bn))
            t.add(unit(**cs), name="u")
            t.z = h.Signal()
            t.add(h.InstanceArray(of=h.R(r=1), n=2, name="bad")(p=t.z))
            try:
                h.elaborate(t)
                raise RuntimeError("the scratch design was expected to fail")
            except RuntimeError as e:
                if "expected to fail" in str(e):
                    raise
        elif job.get("pre") and unit is not None and isinstance(unit, h.Module):
            h.to_proto(unit)
        conns = None
        if job.get("conns") is not None:
            conns = tuple(mk_conn(unit, c) for c in job["conns"])
    except Exception as e:
        out["err"], out["stage"] = exc_info(e), "unit"
        return out
    try:
        g = job["gen"]
        if g == "series":
            m = Series(unit=unit, conns=conns, nser=job["nser"])
        elif g == "mosstack":
            kw = {}
            if unit is not None:
                kw["unit"] = unit
            if job.get("nser") is not None:
                kw["nser"] = job["nser"]
            m = MosStack(**kw)
        elif g == "wrapper":
            m = Wrapper(unit)
        else:
            raise ValueError(g)
    except Exception as e:
        out["err"], out["stage"] = exc_info(e), "generate"
        return out
    try:
        out["pkg"] = pkg_json(h.to_proto(m))
    except Exception as e:
        out["err"], out["stage"] = exc_info(e), "export"
    return out


def handler(p):
    if p.get("kind") == "list":
        return dict(results=[dict(name=q.name, ports=[[s.name, s.width] for s in q.port_list], primtype=q.primtype.name)
                             for q in all_prims()])
    res = []
    for j in p["jobs"]:
        res.append(do(j))
    return dict(results=res)


main(handler)
