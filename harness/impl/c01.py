"""C01 implementation driver: build the abstract design with the public API, export, return the package as JSON
and the leaf-level reading of the spice netlist (second, independent reading)."""
from common import main, exc_info
import io
import hdl21 as h
from designlib import Builder, pkg_json


def do(job):
    out = dict(pkg=None, err=None, spice=None)
    try:
        top = Builder(job["design"]).build()
    except Exception as e:
        out["err"] = ["build", exc_info(e)]
        return out
    try:
        pkg = h.to_proto(top)
        out["pkg"] = pkg_json(pkg)
    except Exception as e:
        out["err"] = ["export", exc_info(e)]
        return out
    if job.get("spice"):
        try:
            s = io.StringIO()
            h.netlist(top, dest=s, fmt="spice")
            out["spice"] = s.getvalue()
        except Exception as e:
            out["err"] = ["netlist", exc_info(e)]
    return out


def handler(p):
    return dict(results=[do(j) for j in p["jobs"]])


main(handler)
