"""C10 implementation driver: build bundle definition trees through the public hdl21 API, instantiate them as
(port / internal) bundle instances, export with h.to_proto and report

  * the flattened signals of the module under test: ports (name, width, direction) in order, internal signals,
  * optional probes: a one-port leaf instance connected to every member reference `m.<inst>.<path>`; after export the
    probe's connection names the flattened signal that carries that member (public API only),
  * the connections of a parent that instantiates the module with a same-type bundle instance, a sub-bundle
    reference, or an h.AnonymousBundle: which parent signal feeds which flattened child port.

Case language (JSON), see harness/vp/c10.py:
  defs   : [ {name, style, rstyle, roles:[names], sigs:[{n,w,k,src,dest}], subs:[{n,cf,fc,role,d}], ops?} ]   (d < own index)
           ops (optional) = the construction HISTORY: [{t:"sig",via?,n,w,k,src,dest} | {t:"sub",via?,n,cf,fc,role,d} | {t:"junk",via?,n}]
           in order, names may be re-used (via = "add" | "addn" | "set" for procedural styles); sigs/subs are then the harness's
           reading of the FINAL members and are not used to build anything
  top    : index of the definition instantiated in the module under test
  child  : {n, port, cf, fc, role, extra:[signal names]}
  probe  : bool
  parent : null | {kind:"inst", n, port, cf, fc, role, extra, sibling: null|"flipped"|"mul", via: []}
                | {kind:"anon", n_prefix, shape: <anon tree>, drop: path|null, add: bool}
"""
import enum
from common import main, exc_info
import hdl21 as h
import vlsir.circuit_pb2 as vckt

_cnt = [0]


def uniq(prefix):
    _cnt[0] += 1
    return f"{prefix}{_cnt[0]}"


_leafmods = {}
def leaf_mod(w):
    if w not in _leafmods:
        m = h.Module(name=f"Leaf{w}")
        m.p = h.Port(width=w)
        _leafmods[w] = m
    return _leafmods[w]


def make_roleset(d):
    """Returns (roleset or None, {name: Role object}, class-body entries)"""
    names = d.get("roles") or []
    rstyle = d.get("rstyle", "names")
    if not names:
        return None, {}, {}
    if rstyle == "names":
        rs = h.RoleSet.from_names(list(names))
        return rs, {n: rs[n] for n in names}, {}
    if rstyle == "enum":
        rs = h.RoleSet.from_enum(enum.Enum(uniq("R"), list(names)))
        return rs, {n: rs[n] for n in names}, {}
    if rstyle == "roleset":
        rs = h.roleset(enum.Enum(uniq("R"), list(names)))
        return rs, {n: getattr(rs, n) for n in names}, {}
    if rstyle == "anon":      # Host, Device = h.Roles(2) in a class body
        objs = h.Roles(len(names))
        return None, dict(zip(names, objs)), dict(zip(names, objs))
    if rstyle == "mul":       # Host, Device = 2 * h.Role() in a class body
        objs = len(names) * h.Role()
        return None, dict(zip(names, objs)), dict(zip(names, objs))
    raise ValueError(rstyle)


def make_leaf(l, roles, name=None):
    kw = dict(width=l["w"])
    if name is not None:
        kw["name"] = name
    if l.get("src") is not None:
        kw["src"] = roles[l["src"]]
    if l.get("dest") is not None:
        kw["dest"] = roles[l["dest"]]
    k = l["k"]
    if k == "in":
        return h.Input(**kw)
    if k == "out":
        return h.Output(**kw)
    if k == "inout":
        return h.Inout(**kw)
    if k == "none":
        return h.Port(**kw)
    if k == "pin":      # Port(direction=...) spelling
        return h.Port(direction=h.PortDir.INPUT, **kw)
    if k == "pout":
        return h.Port(direction=h.PortDir.OUTPUT, **kw)
    if k == "sig":
        return h.Signal(**kw)
    raise ValueError(k)


def make_inst(bdef, spec, port=None, name=None):
    """A BundleInstance of `bdef` with the flips of `spec`: constructor flag `cf` and `fc` applications of h.flipped()."""
    kw = {}
    if name is not None:
        kw["name"] = name
    if spec.get("cf"):
        kw["flipped"] = True
    if port:
        kw["port"] = True
    if spec.get("role") is not None:
        kw["role"] = role_of(bdef, spec["role"])
        if spec.get("rfresh") and getattr(kw["role"], "name", None) is not None:
            # an equal-named but DISTINCT Role object (e.g. from a second RoleSet of the same names): roles compare by name
            kw["role"] = h.Role(name=kw["role"].name)
    bi = bdef(**kw)
    for _ in range(spec.get("fc", 0)):
        bi = h.flipped(bi)
    return bi


def role_of(bdef, name):
    return bdef.roles[name]


class _Junk:
    """a value that is no Bundle attribute (class body: forgotten; Bundle.add / setattr: TypeError, nothing changes)"""


def def_ops(d):
    """The construction history of a definition: `ops` if written, otherwise the members once each, signals first."""
    if d.get("ops") is not None:
        return d["ops"]
    return [dict(l, t="sig") for l in d["sigs"]] + [dict(s, t="sub") for s in d["subs"]]


def make_member(o, roles, built, named=False):
    if o["t"] == "sig":
        return make_leaf(o, roles, name=o["n"] if named else None)
    if o["t"] == "sub":
        return make_inst(built[o["d"]], o, name=o["n"] if named else None)
    return _Junk()


def build_defs(defs):
    built = []
    for d in defs:
        rs, roles, body_roles = make_roleset(d)
        style = d.get("style", "proc")
        if body_roles:
            style = "class"
        ops = def_ops(d)
        if style == "class":
            ns = {}
            if rs is not None:
                ns["Roles" if d.get("rcap") else "roles"] = rs
            ns.update(body_roles)
            for o in ops:                       # a class body: every assignment in order, a re-assigned name is overwritten
                ns[o["n"]] = make_member(o, roles, built)
            b = h.bundle(type(d["name"], (), ns))
        else:
            b = h.Bundle(name=d["name"])
            if rs is not None:
                b.roles = rs
            for o in ops:
                via = o.get("via") or ("add" if style == "add" else "set")
                val = make_member(o, roles, built, named=(via == "addn"))
                try:
                    if via == "add":
                        b.add(val, name=o["n"])
                    elif via == "addn":         # the name travels on the value: Bundle.add(h.Input(name="x"))
                        if o["t"] == "junk":
                            val.name = o["n"]
                        b.add(val)
                    elif via == "set":
                        setattr(b, o["n"], val)
                    else:
                        raise ValueError(via)
                except TypeError:
                    if o["t"] != "junk":
                        raise
                    continue                    # refused, the definition is as it was; the script goes on
                if o["t"] == "junk":
                    raise RuntimeError("a value that is no Bundle attribute was accepted as a member")
        built.append(b)
    return built


def leaf_paths(defs, idx):
    """Root-to-leaf paths with widths, by definition order (signals first, then sub-bundles)."""
    d = defs[idx]
    out = [([l["n"]], l["w"]) for l in d["sigs"]]
    for s in d["subs"]:
        out += [([s["n"]] + p, w) for p, w in leaf_paths(defs, s["d"])]
    return out


def getpath(obj, path):
    for seg in path:
        obj = getattr(obj, seg)
    return obj


def read_module(pkg, name):
    pm = [m for m in pkg.modules if m.name.split(".")[-1] == name]
    if len(pm) != 1:
        raise RuntimeError(f"module {name} not exported exactly once")
    pm = pm[0]
    widths = {s.name: s.width for s in pm.signals}
    portnames = [p.signal for p in pm.ports]
    ports = [[p.signal, widths.get(p.signal, -1), vckt.Port.Direction.Name(p.direction)] for p in pm.ports]
    sigs = [[s.name, s.width] for s in pm.signals if s.name not in set(portnames)]
    insts = {}
    for i in pm.instances:
        conns = []
        for c in i.connections:
            kind = c.target.WhichOneof("stype")
            conns.append([c.portname, c.target.sig if kind == "sig" else f"<{kind}>"])
        insts[i.name] = conns
    return dict(ports=ports, sigs=sigs, insts=insts)


def add_probes(mod, inst, paths, prefix):
    names = []
    for k, (p, w) in enumerate(paths):
        nm = f"{prefix}{k}"
        mod.add(leaf_mod(w)(p=getpath(inst, p)), name=nm)
        names.append(nm)
    return names


def read_probes(mr, names, paths):
    out = []
    for nm, (p, _) in zip(names, paths):
        conns = mr["insts"].pop(nm)
        out.append([p, conns[0][1]])
    return out


def build_anon(mod, shape, built, defs, prefix, made):
    """shape: {"t":"sig","w":w} | {"t":"anon","m":[[name, shape]...]} | {"t":"inst","d":idx, ...inst spec} |
    {"t":"ref","d":idx, "via":[path], ...}  (a reference to a sub-bundle of an instance of def d)."""
    t = shape["t"]
    if t == "sig":
        nm = f"{prefix}{len(made)}"
        s = mod.add(h.Signal(name=nm, width=shape["w"]))
        made.append(nm)
        return s
    if t == "anon":
        kw = {}
        for name, sub in shape["m"]:
            kw[name] = build_anon(mod, sub, built, defs, prefix, made)
        return h.AnonymousBundle(**kw)
    if t in ("inst", "ref"):
        nm = f"{prefix}{len(made)}"
        made.append(nm)
        bi = mod.add(make_inst(built[shape["d"]], shape), name=nm)
        return getpath(bi, shape.get("via", []))
    raise ValueError(t)


def do_case(case):
    out = dict(err=None, child=None, parent=None)
    defs = case["defs"]
    try:
        built = build_defs(defs)
        ch = case["child"]
        M = h.Module(name=uniq("M"))
        for nm in ch.get("extra", []):
            M.add(h.Signal(name=nm))
        bi = make_inst(built[case["top"]], ch, port=ch["port"])
        M.add(bi, name=ch["n"])
        paths = leaf_paths(defs, case["top"])
        pnames = add_probes(M, bi, paths, "zp") if case.get("probe") else []
        par = case.get("parent")
        top = M
        if par is not None:
            P = h.Module(name=uniq("P"))
            top = P
            for nm in par.get("extra", []):
                P.add(h.Signal(name=nm))
            if par["kind"] == "inst":
                # the definition of the parent-side instance contains the child's definition at path `via`
                pdef = par.get("d", case["top"])
                pbi = make_inst(built[pdef], par, port=par.get("port", False))
                if par.get("sibling") == "flipped_before":
                    setattr(P, par["n"] + "sib", h.flipped(pbi))
                setattr(P, par["n"], pbi)
                if par.get("sibling") == "flipped":
                    setattr(P, par["n"] + "sib", h.flipped(pbi))
                elif par.get("sibling") == "mul":
                    setattr(P, par["n"] + "sib", (1 * pbi)[0])
                target = getpath(pbi, par.get("via", []))
                ppaths = leaf_paths(defs, pdef)
                qnames = add_probes(P, pbi, ppaths, "zq") if case.get("probe") else []
            elif par["kind"] == "anon":
                made = []
                target = build_anon(P, par["shape"], built, defs, par.get("prefix", "ps"), made)
                qnames, ppaths = [], []
            else:
                raise ValueError(par["kind"])
            P.add(M(**{ch["n"]: target}), name="dut")
    except Exception as e:
        out["err"] = ["build", exc_info(e)]
        return out
    try:
        pkg = h.to_proto(top)
        mr = read_module(pkg, M.name)
        probes = read_probes(mr, pnames, paths)
        out["child"] = dict(ports=mr["ports"], sigs=mr["sigs"], probes=probes)
        if par is not None:
            pr = read_module(pkg, P.name)
            qprobes = read_probes(pr, qnames, ppaths)
            out["parent"] = dict(ports=pr["ports"], sigs=pr["sigs"], probes=qprobes, conns=pr["insts"]["dut"])
    except Exception as e:
        out["err"] = ["elab", exc_info(e)]
    return out


def handler(p):
    return dict(results=[do_case(j) for j in p["jobs"]])


if __name__ == "__main__":
    main(handler)
