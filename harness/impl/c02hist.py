"""C02, construction histories: the design handed to elaborate / to_proto / netlist is the object graph at the time of the call.
The property speaks of that design, whatever was asked of its parts before (public reads) and in whatever order it was edited.
`HistBuilder` builds a design of harness/vp/design.py by the public API, following the optional key

    "hist": {"observe": bool,                 read every public data attribute / property of every Signal, Slice, Concat, PortRef,
                                              NoConn, Instance and InstanceArray: once when it is made, once when the design is complete
             "late": [[mi, signal, w_early]]}  the Signal is declared `w_early` bits wide, the connections are made (and observed), THEN
                                              its public `width` field is set to the width the design JSON gives (the final design)

The specification and the models only ever see the final design."""
import copy
import hdl21 as h
from designlib import Builder


def observe(o):
    """read (never call, never write) everything public: what a user's assert / print / debugger would"""
    seen = {}
    for a in dir(o):
        if a.startswith("_"):
            continue
        try:
            v = getattr(o, a)
        except Exception as e:            # a probing user catches what a probe raises (e.g. the width of an out-of-range slice)
            v = e
        seen[a] = None if callable(v) else v
    return seen


class HistBuilder(Builder):
    """designlib.Builder plus (a) one more faulty leaf: a port of an Instance that was never added to any Module,
    (b) the construction history above."""

    def __init__(self, design, uniq=""):
        self.final = design
        self.hist = design.get("hist") or {}
        d = copy.deepcopy(design)
        for mi, n, w0 in self.hist.get("late", []):
            md = d["mods"][mi]
            for row in md["ports"] + md["sigs"]:
                if row[0] == n:
                    row[1] = w0
        super().__init__(d, uniq)
        self.made = []

    def expr(self, m, mi, e):
        if e[0] == "orphanref":
            inst = h.Instance(of=self.target(e[1]), name="orphan_inst")
            o = getattr(inst, e[2])
        else:
            o = super().expr(m, mi, e)
        if self.hist.get("observe"):
            self.made.append(o)
            observe(o)
        return o

    def build(self):
        top = super().build()
        if self.hist.get("observe"):
            for md, m in zip(self.d["mods"], self.mods):
                for row in md["ports"] + md["sigs"]:
                    self.made.append(m.get(row[0]))
                for x in md["insts"]:
                    self.made.append(m.get(x["name"]))
            for o in self.made:
                observe(o)
        for mi, n, w0 in self.hist.get("late", []):
            fin = self.final["mods"][mi]
            w = [row[1] for row in fin["ports"] + fin["sigs"] if row[0] == n][0]
            self.mods[mi].get(n).width = w
        return top
