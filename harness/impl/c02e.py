"""C02E implementation driver: elaborate and to_proto on a (possibly faulty) design, each on a freshly built copy,
and WHERE the rejection came from: the ElabPass class whose frame is deepest in the traceback (PostFlattenConnTypes is
told from ConnTypes that way), "export" for hdl21/proto/exporting.py, "build" when the public constructors already refuse."""
from common import main, exc_info
import hdl21 as h
from hdl21.elab.passes.base import ElabPass
from designlib import Builder


from c02hist import HistBuilder as Builder2      # the same builder as harness/impl/c02.py: follows the design's "hist" key


def where(e):
    found = "?"
    tb = e.__traceback__
    while tb is not None:
        fr = tb.tb_frame
        me = fr.f_locals.get("self")
        fn = fr.f_code.co_filename.replace("\\", "/")
        if isinstance(me, ElabPass):
            found = type(me).__name__
        elif fn.endswith("hdl21/proto/exporting.py"):
            found = "export"
        tb = tb.tb_next
    return found


def attempt(design, what):
    try:
        top = Builder2(design).build()
    except Exception as e:
        return ["rejected", "build", exc_info(e)]
    try:
        if what == "elaborate":
            h.elaborate(top)
        else:
            h.to_proto(top)
    except Exception as e:
        return ["rejected", where(e), exc_info(e)]
    return ["accepted", "", None]


def do(job):
    return {w: attempt(job["design"], w) for w in ("elaborate", "to_proto")}


def handler(p):
    return dict(results=[do(j) for j in p["jobs"]])


main(handler)
