"""C06 implementation driver: produce packages from several sources and check that from_proto and the
spice/spectre netlisters accept them.

Sources (job["source"]):
  design     an abstract design of harness/vp/design.py, EXTENDED (Builder06 below) by
               ext["domain"]  : None | str                    ExternalModule.domain
               ext["lib"]     : None | "a" | "b"              the Python file the ExternalModule object is created in
               ext["ptype"]   : "dict" | "class"              dict-typed parameters or a paramclass with Optional fields
               ext["spice"]   : name of a vlsirtools.SpiceType member
               mod["lib"]     : None | "a" | "b"              the Python file the Module object is created in (its qualified name)
               of = ["prim", "Vdc" | "Vpulse", tag]         ideal sources with every parameter given (tag = 0: zero-valued parameters)
               of = ["ext", k, tag] with tag an int (as before) or a dict {param: value}; value = None | int | str |
                    ["f", float-hex] | ["p", decimal-string, PREFIX] | ["l", literal-text]
  example    an example of the repository: every package its main() exports
  generator  built-in generators
  pdk        sample-PDK compiled modules
  driver     ANOTHER property's implementation driver run on one of ITS jobs (job["driver"], job["fn"], job["arg"]): every
             package any to_proto call returns while that job runs is captured (h.to_proto, hdl21.netlisting.to_proto,
             hdl21.proto.exporting.to_proto are wrapped), whatever the driver does with it.
  history    a design (Builder06H: held-name operations md["held"], md["style"], late-built modules design["late"]) and a list of
             operations on ONE interpreter state - exports, elaborations, netlists, re-targetings of instances (from_history);
             every package any to_proto returns on the way is captured.
Only the public API is used; nothing here decides what the right answer is."""
import common
from common import main, exc_info
import io, sys, importlib, contextlib, decimal
from typing import Optional
import hdl21 as h
import vlsirtools
from designlib import Builder, pkg_json


def accept(pkg):
    """from_proto and the vlsirtools spice + spectre netlisters must accept the package."""
    res = {}
    try:
        h.from_proto(pkg)
        res["from_proto"] = None
    except Exception as e:
        res["from_proto"] = exc_info(e)
    physical = any(i.module.WhichOneof("to") == "external" and i.module.external.domain == "hdl21.primitives"
                   for m in pkg.modules for i in m.instances)
    res["physical"] = physical
    for fmt in ("spice", "spectre"):
        if physical:
            res[fmt] = "skipped: physical primitives cannot be netlisted without a PDK (by design)"
            continue
        try:
            vlsirtools.netlist(pkg=pkg, dest=io.StringIO(), fmt=fmt)
            res[fmt] = None
        except Exception as e:
            res[fmt] = exc_info(e)
    return res


# ------------------------------------------------------------------------------------------------ capturing every export
@contextlib.contextmanager
def capture(captured):
    import hdl21.netlisting as NL
    import hdl21.proto.exporting as EX
    import hdl21.proto as PR
    orig = EX.to_proto

    def spy(*a, **kw):
        pkg = orig(*a, **kw)
        captured.append(pkg)
        return pkg
    holders = [x for x in (NL, h, PR, EX) if getattr(x, "to_proto", None) is orig]
    for x in holders:
        x.to_proto = spy
    try:
        yield
    finally:
        for x in holders:
            x.to_proto = orig


# ------------------------------------------------------------------------------------------------ designs
@h.paramclass
class C06ExtParams:
    tag = h.Param(dtype=int, desc="tag", default=0)
    vt = h.Param(dtype=Optional[str], desc="vt", default=None)
    m = h.Param(dtype=Optional[int], desc="m", default=None)
    w = h.Param(dtype=Optional[h.Scalar], desc="w", default=None)


def pvalue(v):
    if v is None or isinstance(v, (int, str)):
        return v
    if v[0] == "f":
        return float.fromhex(v[1])
    if v[0] == "p":
        return h.Prefixed(number=decimal.Decimal(v[1]), prefix=h.Prefix[v[2]])
    if v[0] == "l":
        return h.Literal(v[1])
    raise ValueError(v)


def lib(which):
    if which is None:
        return None
    return importlib.import_module({"a": "c06liba", "b": "c06libb"}[which])


class Builder06(Builder):
    def __init__(self, design, uniq=""):
        from vlsirtools import SpiceType
        self.d = design
        self.uniq = uniq
        self.mods = []
        self.ncs = {}
        self.exts = []
        self.ptypes = []
        for x in design.get("exts", []):
            kw = dict(name=x["name"], port_list=[h.Port(name=n, width=w) for n, w in x["ports"]],
                      paramtype=C06ExtParams if x.get("ptype") == "class" else dict)
            if x.get("domain") is not None:
                kw["domain"] = x["domain"]
            if x.get("spice") is not None:
                kw["spicetype"] = SpiceType[x["spice"]]
            L = lib(x.get("lib"))
            self.exts.append(L.extmodule(**kw) if L is not None else h.ExternalModule(**kw))
            self.ptypes.append(x.get("ptype", "dict"))

    def target(self, of):
        if of[0] == "prim" and of[1] == "Vdc":          # ideal sources: every parameter given, value `tag` (0 is a value)
            return h.Vdc(dc=of[2])
        if of[0] == "prim" and of[1] == "Vpulse":
            t = of[2]
            return h.Vpulse(v1=t, v2=t + 1, delay=t, rise=t + 1, fall=t + 1, width=t + 2, period=t + 5)
        if of[0] == "ext" and isinstance(of[2], dict):
            vals = {k: pvalue(v) for k, v in of[2].items()}
            x = self.exts[of[1]]
            return x(**vals) if self.ptypes[of[1]] == "class" else x(dict(vals))
        return super().target(of)

    def build(self):
        for md in self.d["mods"]:
            L = lib(md.get("lib"))
            name = md["name"] + self.uniq if md["name"] is not None else None
            if L is not None:
                self.mods.append(L.module(name))
            else:
                self.mods.append(h.Module(name=name) if name is not None else h.Module())
        for mi, md in enumerate(self.d["mods"]):
            self.build_module(mi, md)
        return self.mods[self.d["top"]]


def from_design(job):
    job["_stage"] = "build"
    top = Builder06(job["design"]).build()
    job["_stage"] = "elaborate"
    h.elaborate(top)
    job["_stage"] = "export"
    return [h.to_proto(top)]


def from_examples(job):
    """Run an example's main() and capture every package it exports."""
    sys.path.insert(0, job["repo"])
    captured = []
    with capture(captured):
        mod = importlib.import_module("examples." + job["example"])
        mod.main()
    return captured


def from_generator(job):
    import hdl21.generators as G
    kind = job["gen"]
    if kind == "MosStack":
        m = G.MosStack(nser=job["n"])
    elif kind == "SeriesR":
        m = G.Series(unit=h.R(r=1000), nser=job["n"], conns=["p", "n"])
    elif kind == "SeriesMos":
        m = G.Series(unit=h.Mos(nf=2), nser=job["n"], conns=job.get("pair", ["d", "s"]))
    elif kind == "Wrapper":
        m = G.Wrapper(m=h.Mos(nf=job["n"]))
    else:
        raise ValueError(kind)
    return [h.to_proto(m)]


def from_pdk(job):
    import hdl21.pdk.sample_pdk as sp
    m = h.Module(name=f"PdkTop{job['n']}")
    m.a, m.b = h.Signals(2)
    for k in range(job["n"]):
        tp = h.MosType.NMOS if k % 2 == 0 else h.MosType.PMOS
        m.add(h.Mos(tp=tp, nf=k + 1)(d=m.a, g=m.b, s=m.a, b=m.b), name=f"m{k}")
    h.pdk.compile(m, pdk=sp) if job.get("by_module") else sp.compile(m)
    return [h.to_proto(m)]


_drivers = {}


def driver(name):
    """Import another property's implementation driver without letting it run its own main()."""
    if name not in _drivers:
        real = common.main
        common.main = lambda handler: None
        try:
            _drivers[name] = importlib.import_module(name)
        finally:
            common.main = real
    return _drivers[name]


def from_driver(job):
    mod = driver(job["driver"])
    captured = []
    with capture(captured):
        res = getattr(mod, job["fn"])(job["arg"])
    job["_driver_result"] = res
    return captured


# ------------------------------------------------------------------------------------------------ held names, histories
def _connect_all(b, m, mi, x, inst):
    for port, e in x["conns"]:
        inst.connect(port, b.expr(m, mi, e))


def apply_held(b, mi, md):
    """md["held"]: what a designer can do to the attributes of a Module through its public interface, in order:
      ["alias", old, new, "setattr"|"add"]   m.new = m.old  /  m.add(obj, name=new) after clearing the name: ONE object under two keys
      ["rename", old, new]                     m.old.name = new   (re-named behind the Module's back)
      ["replace", old]                         m.old = <a new Instance of the same target with the same connections>  (consistent)
    md["style"] == "classbody": the Module is then made by h.module from a class whose namespace binds the same objects under the
    same keys (what `inv1 = inv2 = Inv(...)` in a class body gives to the decorator)."""
    m = b.mods[mi]
    for op in md.get("held", []):
        if op[0] == "alias":
            obj = m.get(op[1])
            if op[3] == "setattr":
                setattr(m, op[2], obj)
            else:
                obj.name = None
                m.add(obj, name=op[2])
        elif op[0] == "rename":
            m.get(op[1]).name = op[2]
        elif op[0] == "replace":
            x = [y for y in md["insts"] if y["name"] == op[1]][0]
            tgt = b.target(x["of"])
            inst = h.InstanceArray(of=tgt, n=x["n"]) if x["n"] > 0 else h.Instance(of=tgt)
            setattr(m, op[1], inst)
            _connect_all(b, m, mi, x, inst)
        else:
            raise ValueError(op)
    if md.get("style") == "classbody":
        ns = dict(m.namespace)                      # key -> object, as a class body's namespace holds them
        cls = type(m.name, (), ns)
        b.mods[mi] = h.module(cls)
    return b.mods[mi]


class Builder06H(Builder06):
    """Builder06 + held-name operations + modules that are built only when a history first needs them (design["late"])."""

    def build(self):
        self.built = set()
        for md in self.d["mods"]:
            L = lib(md.get("lib"))
            self.mods.append(L.module(md["name"]) if L is not None else h.Module(name=md["name"]))
        late = set(self.d.get("late", []))
        for mi, md in enumerate(self.d["mods"]):
            if mi not in late:
                self.ensure(mi)
        return self.mods[self.d["top"]]

    def ensure(self, mi):
        if mi in self.built:
            return
        self.built.add(mi)
        md = self.d["mods"][mi]
        for x in md["insts"]:
            if x["of"][0] == "mod":
                self.ensure(x["of"][1])
        self.build_module(mi, md)
        apply_held(self, mi, md)


def from_history(job):
    """job["ops"], in order, on ONE set of objects in ONE interpreter state:
      ["export", mi] | ["export2", mi, mj] | ["elaborate", mi] | ["netlist", mi, fmt]
      ["retarget", parent, old, new, which]   inst.of = mods[new] for the which-th (all: None) instance / array of `parent` that refers to mods[old]
    Every package any to_proto returns on the way is captured; an op that raises is recorded (class only) and the history goes on."""
    job["_stage"] = "build"
    b = Builder06H(job["design"])
    b.build()
    job["_stage"] = "history"
    captured, log = [], []
    with capture(captured):
        for op in job["ops"]:
            n0 = len(captured)
            try:
                if op[0] == "export":
                    h.to_proto(b.mods[op[1]])
                elif op[0] == "export2":
                    h.to_proto([b.mods[op[1]], b.mods[op[2]]])
                elif op[0] == "elaborate":
                    h.elaborate(b.mods[op[1]])
                elif op[0] == "netlist":
                    h.netlist(b.mods[op[1]], dest=io.StringIO(), fmt=op[2])
                elif op[0] == "retarget":
                    _, parent, old, new, which = op
                    b.ensure(new)
                    P = b.mods[parent]
                    cands = [i for ctr in (P.instances, P.instarrays) for i in ctr.values() if i.of is b.mods[old]]
                    pick = cands if which is None or not cands else [cands[which % len(cands)]]
                    for i in pick:
                        i.of = b.mods[new]
                    log.append(dict(op=op[0], err=None, moved=len(pick)))
                    continue
                else:
                    raise ValueError(op)
                log.append(dict(op=op[0], err=None, pkgs=len(captured) - n0))
            except Exception as e:
                log.append(dict(op=op[0], err=type(e).__name__, pkgs=len(captured) - n0))
    job["_log"] = log
    return captured


SOURCES = dict(design=from_design, example=from_examples, generator=from_generator, pdk=from_pdk, driver=from_driver, history=from_history)


def do(job):
    out = dict(pkgs=[], err=None)
    try:
        pkgs = SOURCES[job["source"]](job)
    except Exception as e:
        out["err"] = exc_info(e)
        out["stage"] = job.pop("_stage", None)
        return out
    job.pop("_stage", None)
    if "_log" in job:
        out["log"] = job.pop("_log")
    if job["source"] == "driver":
        # what the other driver itself reported as its failure, if it caught one (class only)
        res = job.pop("_driver_result", None)
        e = res.get("err") if isinstance(res, dict) else None
        out["driver_err"] = e if e is None or isinstance(e, (dict, list, str)) else str(e)
    seen = []
    for pkg in pkgs:
        s = pkg.SerializeToString(deterministic=True)
        if s in seen:           # the same package exported again (h.netlist after h.to_proto): once is enough
            continue
        seen.append(s)
        out["pkgs"].append(dict(pkg=pkg_json(pkg), accept=accept(pkg)))
    return out


def handler(p):
    return dict(results=[do(j) for j in p["jobs"]])


main(handler)
