"""C06 implementation driver: produce packages from several sources and check that from_proto and the
spice/spectre netlisters accept them."""
from common import main, exc_info
import io, sys, importlib
import hdl21 as h
import vlsirtools
from designlib import Builder, pkg_json


def accept(pkg):
    """from_proto and the vlsirtools spice + spectre netlisters must accept the package."""
    res = {}
    try:
        h.from_proto(pkg)
        res["from_proto"] = None
    except Exception as e:
        res["from_proto"] = exc_info(e)
    physical = any(i.module.WhichOneof("to") == "external" and i.module.external.domain == "hdl21.primitives"
                   for m in pkg.modules for i in m.instances)
    res["physical"] = physical
    for fmt in ("spice", "spectre"):
        if physical:
            res[fmt] = "skipped: physical primitives cannot be netlisted without a PDK (by design)"
            continue
        try:
            vlsirtools.netlist(pkg=pkg, dest=io.StringIO(), fmt=fmt)
            res[fmt] = None
        except Exception as e:
            res[fmt] = exc_info(e)
    return res


def from_design(job):
    top = Builder(job["design"]).build()
    return [h.to_proto(top)]


def from_examples(job):
    """Run an example's main() and capture every package it exports."""
    sys.path.insert(0, job["repo"])
    captured = []
    import hdl21.netlisting as NL
    import hdl21.proto.exporting as EX
    orig = EX.to_proto

    def spy(*a, **kw):
        pkg = orig(*a, **kw)
        captured.append(pkg)
        return pkg
    NL.to_proto = spy
    h.to_proto = spy
    try:
        mod = importlib.import_module("examples." + job["example"])
        mod.main()
    finally:
        NL.to_proto = orig
        h.to_proto = orig
    return captured


def from_generator(job):
    import hdl21.generators as G
    kind = job["gen"]
    if kind == "MosStack":
        m = G.MosStack(nser=job["n"])
    elif kind == "SeriesR":
        m = G.Series(unit=h.R(r=1000), nser=job["n"], conns=["p", "n"])
    elif kind == "SeriesMos":
        m = G.Series(unit=h.Mos(nf=2), nser=job["n"], conns=job.get("pair", ["d", "s"]))
    elif kind == "Wrapper":
        m = G.Wrapper(m=h.Mos(nf=job["n"]))
    else:
        raise ValueError(kind)
    return [h.to_proto(m)]


def from_pdk(job):
    import hdl21.pdk.sample_pdk as sp
    m = h.Module(name=f"PdkTop{job['n']}")
    m.a, m.b = h.Signals(2)
    for k in range(job["n"]):
        tp = h.MosType.NMOS if k % 2 == 0 else h.MosType.PMOS
        m.add(h.Mos(tp=tp, nf=k + 1)(d=m.a, g=m.b, s=m.a, b=m.b), name=f"m{k}")
    h.pdk.compile(m, pdk=sp) if job.get("by_module") else sp.compile(m)
    return [h.to_proto(m)]


SOURCES = dict(design=from_design, example=from_examples, generator=from_generator, pdk=from_pdk)


def do(job):
    out = dict(pkgs=[], err=None)
    try:
        pkgs = SOURCES[job["source"]](job)
    except Exception as e:
        out["err"] = exc_info(e)
        return out
    for pkg in pkgs:
        out["pkgs"].append(dict(pkg=pkg_json(pkg), accept=accept(pkg)))
    return out


def handler(p):
    return dict(results=[do(j) for j in p["jobs"]])


main(handler)
