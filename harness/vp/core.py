"""Shared machinery of the Hdl21 verification checks (see /verif/DESIGN.md, sections 2-3).

* impl side: child processes of /venv/bin/python with PYTHONPATH forced to the repo tree under test
* model side: generated cases_*.v files evaluated by coqc (vm_compute) -- no extraction
* reporting: evidence/<id>.json, VIOLATION / KNOWN-FINDING lines, replay files under work/<id>/
"""
import os, sys, json, subprocess, hashlib, time, re, random, shutil
from concurrent.futures import ThreadPoolExecutor

VERIF = os.path.dirname(os.path.dirname(os.path.dirname(os.path.abspath(__file__))))
REPO = os.environ.get("VERIF_REPO", "/repo")
PY = "/venv/bin/python"
# seeded-change runs use private copies (VERIF_COQDIR, VERIF_WORK) so that several can run side by side
COQDIR = os.environ.get("VERIF_COQDIR") or os.path.join(VERIF, "coq")
WORK = os.environ.get("VERIF_WORK") or os.path.join(VERIF, "work")
NPROC = int(os.environ.get("VERIF_NPROC", "16"))
GUARD = "HDL21_VERIF"


def log(*a):
    print(*a, file=sys.stderr, flush=True)


# ----------------------------------------------------------------------------------------------
# implementation side
# ----------------------------------------------------------------------------------------------
def impl_env(hashseed="0", guard=True, extra=None):
    env = {k: v for k, v in os.environ.items() if k in ("PATH", "HOME", "LANG", "LC_ALL", "TMPDIR")}
    env["PYTHONPATH"] = ":".join([REPO, f"{REPO}/pdks/Sky130", f"{REPO}/pdks/Gf180", f"{REPO}/pdks/Asap7",
                                  os.path.join(VERIF, "harness")])
    env["PYTHONHASHSEED"] = str(hashseed)
    env["PYTHONDONTWRITEBYTECODE"] = "1"
    env["PYTHONWARNINGS"] = "ignore"
    env["VERIF_REPO"] = REPO
    if guard:
        env[GUARD] = "1"
    if extra:
        env.update(extra)
    return env


def run_worker(worker, payload, timeout=600, hashseed="0", extra_env=None):
    """Run harness/impl/<worker>.py in a fresh interpreter; JSON on stdin, JSON on stdout."""
    path = os.path.join(VERIF, "harness", "impl", worker + ".py")
    p = subprocess.run([PY, path], input=json.dumps(payload), capture_output=True, text=True,
                       env=impl_env(hashseed, extra=extra_env), timeout=timeout, cwd="/")
    if p.returncode != 0:
        raise RuntimeError(f"impl worker {worker} failed rc={p.returncode}:\n{p.stderr[-3000:]}")
    # the worker prints one JSON document on the last line
    out = p.stdout.strip().splitlines()
    return json.loads(out[-1])


def run_worker_sharded(worker, jobs, key="jobs", common=None, nproc=None, timeout=900, hashseed="0"):
    """Split a list of independent jobs over several fresh interpreters; results in job order."""
    nproc = nproc or NPROC
    n = len(jobs)
    if n == 0:
        return []
    nshard = max(1, min(nproc, (n + 49) // 50))
    shards = [jobs[i::nshard] for i in range(nshard)]

    def one(sh):
        payload = dict(common or {})
        payload[key] = sh
        return run_worker(worker, payload, timeout=timeout, hashseed=hashseed)["results"]

    with ThreadPoolExecutor(max_workers=nshard) as ex:
        outs = list(ex.map(one, shards))
    res = [None] * n
    for s, out in enumerate(outs):
        if len(out) != len(shards[s]):
            raise RuntimeError(f"worker {worker}: shard {s} returned {len(out)} results for {len(shards[s])} jobs")
        for j, r in enumerate(out):
            res[s + j * nshard] = r
    return res


def rng(seed, prop, stream, k=0):
    h = hashlib.sha256(f"{seed}|{prop}|{stream}|{k}".encode()).digest()
    return random.Random(int.from_bytes(h[:8], "big"))


# ----------------------------------------------------------------------------------------------
# Coq side
# ----------------------------------------------------------------------------------------------
def coq_project():
    """(Re)generate tables from the repo under test, _CoqProject and Makefile; run make. Returns (ok, log)."""
    t = subprocess.run([PY, os.path.join(VERIF, "tools", "translate_tables.py"), REPO,
                        os.path.join(COQDIR, "generated")], capture_output=True, text=True, env=impl_env())
    tlog = ""
    if t.returncode == 3:
        # some translator steps failed closed: their generated files are gone, so exactly the theorems that depend on them
        # stop building (make -k below); the other properties keep their proofs and their tie
        tlog = "table translator failed closed for some tables:\n" + t.stdout[-2000:] + "\n"
    elif t.returncode != 0:
        return False, "table translator failed (fail-closed):\n" + t.stdout[-2000:] + t.stderr[-3000:]
    files = []
    for d in ("theories", "generated"):
        for root, _, fs in os.walk(os.path.join(COQDIR, d)):
            for f in fs:
                if f.endswith(".v"):
                    files.append(os.path.relpath(os.path.join(root, f), COQDIR))
    files.sort()
    proj = "-Q theories Hdl21\n-Q generated Hdl21Gen\n" + "\n".join(files) + "\n"
    pp = os.path.join(COQDIR, "_CoqProject")
    old = open(pp).read() if os.path.exists(pp) else ""
    if old != proj or not os.path.exists(os.path.join(COQDIR, "Makefile")):
        open(pp, "w").write(proj)
        subprocess.run(["coq_makefile", "-f", "_CoqProject", "-o", "Makefile"], cwd=COQDIR,
                       capture_output=True, text=True)
    m = subprocess.run(["timeout", "3000", "make", "-k", f"-j{NPROC}"], cwd=COQDIR, capture_output=True, text=True)
    return m.returncode == 0 and not tlog, tlog + (m.stdout[-6000:] + m.stderr[-6000:])


def props_files(prop):
    """The statement files of a property: Props/<prop>.v and its extensions Props/<prop>B.v, Props/<prop>E.v ..."""
    d = os.path.join(COQDIR, "theories", "Props")
    return sorted(f for f in os.listdir(d) if re.fullmatch(re.escape(prop) + r"[A-Z]?\.v", f))


def props_up_to_date(prop):
    """True iff every statement file of the property has a compiled object that `make` considers up to date
    (its whole dependency closure, generated tables included, was rebuilt successfully)."""
    for f in props_files(prop):
        q = subprocess.run(["make", "-q", f"theories/Props/{f}o"], cwd=COQDIR, capture_output=True, text=True)
        if q.returncode != 0:
            return False
    return True


def props_obligations(prop):
    """The theorems stated in the property's statement files, and whether their compiled objects are up to date."""
    names = []
    for f in props_files(prop):
        names += re.findall(r"^\s*(?:Theorem|Example)\s+(\w+)", open(os.path.join(COQDIR, "theories", "Props", f)).read(), re.M)
    return names, props_up_to_date(prop)


COQ_FLAGS = ["-Q", os.path.join(COQDIR, "theories"), "Hdl21", "-Q", os.path.join(COQDIR, "generated"), "Hdl21Gen"]


def coq_eval_cases(prop, stream, imports, case_type, case_strs, evaluator, chunk=400, timeout=600, keep=False,
                   prelude=""):
    """Evaluate `evaluator : list case_type -> list (Z * Z)` (local index, code) on the cases inside Coq.
    Returns a list of (global index, code)."""
    d = os.path.join(WORK, prop)
    os.makedirs(d, exist_ok=True)
    files = []
    for c, i in enumerate(range(0, len(case_strs), chunk)):
        body = ";\n ".join(case_strs[i:i + chunk])
        name = f"cases_{stream}_{c}"
        path = os.path.join(d, name + ".v")
        with open(path, "w") as f:
            f.write(imports + "\nOpen Scope Z_scope.\nSet Printing Width 1000000.\n" + prelude + "\n")
            f.write(f"Definition cases : list ({case_type}) :=\n [{body}].\n")
            f.write(f"Eval vm_compute in ({evaluator} cases).\n")
        files.append((i, path))

    def one(arg):
        base, path = arg
        p = subprocess.run(["timeout", str(timeout), "coqc"] + COQ_FLAGS + [path], capture_output=True, text=True,
                           cwd=d)
        if p.returncode != 0:
            raise RuntimeError(f"coqc failed on {path}:\n{p.stdout[-1500:]}\n{p.stderr[-3000:]}")
        out = " ".join(p.stdout.split())
        m = re.search(r"= (\[.*?\])\s*: list \(Z \* Z\)", out)
        if not m:
            raise RuntimeError(f"cannot parse coqc output for {path}: {out[:500]}")
        pairs = re.findall(r"\(\s*(-?\d+)\s*,\s*(-?\d+)\s*\)", m.group(1))
        return [(base + int(a), int(b)) for a, b in pairs]

    with ThreadPoolExecutor(max_workers=NPROC) as ex:
        outs = list(ex.map(one, files))
    res = [x for o in outs for x in o]
    if not keep:
        for _, path in files:
            for ext in (".v", ".vo", ".vok", ".vos", ".glob"):
                try:
                    os.remove(path[:-2] + ext)
                except OSError:
                    pass
            try:
                os.remove(os.path.join(d, "." + os.path.basename(path)[:-2] + ".aux"))
            except OSError:
                pass
    return res


def coqchk(run):
    """thorough tier: independent re-check of the property's .vo closure, with the axiom list."""
    mod = f"Hdl21.Props.{run.prop}"
    p = subprocess.run(["timeout", "1500", "coqchk", "-silent", "-o"] + COQ_FLAGS[:3] + COQ_FLAGS[3:] + [mod],
                       capture_output=True, text=True, cwd=COQDIR)
    tail = (p.stdout + p.stderr)[-1500:]
    run.coverage["coqchk"] = dict(rc=p.returncode, tail=tail)
    if p.returncode != 0:
        run.build_ok = False
        run.build_log = "coqchk failed:\n" + tail


# Coq term printers
def cz(z):
    return f"({z})" if z < 0 else str(z)


def copt(o, f=cz):
    return "None" if o is None else f"(Some {f(o)})"


def clist(xs, f=str):
    return "[" + "; ".join(f(x) for x in xs) + "]"


def cstr(s):
    assert all(32 <= ord(ch) < 127 for ch in s), s
    return '"' + s.replace('"', '""') + '"'


def cbool(b):
    return "true" if b else "false"


# ----------------------------------------------------------------------------------------------
# reporting
# ----------------------------------------------------------------------------------------------
TRUSTED_BASE = [
    "Coq 8.16.1 kernel incl. vm_compute (no native_compute, no -type-in-type, no guard/positivity/universe switches)",
    "axioms: none (every Print Assumptions under Props/ reports 'Closed under the global context')",
    "tools/translate_tables.py (fail-closed table translator, re-run against the repo tree on every check)",
    "correspondence harness: harness/vp/*.py case generators, harness/impl/*.py drivers of the real hdl21 API, Coq term printers",
    "CPython 3.12.1 (/venv/bin/python), pydantic 2.13.5, protobuf 4.25.9, vlsir/vlsirtools 7.0.0 as installed",
]


class Run:
    def __init__(self, prop, tier, seed):
        self.prop, self.tier, self.seed = prop, tier, seed
        self.t0 = time.time()
        self.violations = []   # dicts: key, what, replay (dict), found_input (bool)
        self.coverage = {"evaluations": 0, "distinct_nontrivial": 0, "samples": [], "streams": {}}
        self.assumptions = []
        self.notes = []
        os.makedirs(os.path.join(WORK, prop), exist_ok=True)
        kf = os.path.join(VERIF, "known_findings.json")
        self.known = [k for k in (json.load(open(kf)) if os.path.exists(kf) else []) if k.get("property") == prop]

    def stream(self, name, evaluations, distinct_nontrivial, **extra):
        self.coverage["streams"][name] = dict(evaluations=evaluations, distinct_nontrivial=distinct_nontrivial, **extra)
        self.coverage["evaluations"] += evaluations
        self.coverage["distinct_nontrivial"] += distinct_nontrivial

    def sample(self, s):
        if len(self.coverage["samples"]) < 12:
            self.coverage["samples"].append(s)

    def violation(self, key, what, replay, found_input=True):
        self.violations.append(dict(key=key, what=what, replay=replay, found_input=found_input))

    def proof_status(self, build_ok, build_log):
        names, current = props_obligations(self.prop)
        self.coverage["obligations"] = len(names)
        # per property: its statement files and everything they depend on were rebuilt successfully (make -k; make -q)
        self.coverage["discharged"] = len(names) if current else 0
        self.coverage["theorems"] = names
        self.coverage["checker_cmd"] = "cd /verif/coq && coq_makefile -f _CoqProject -o Makefile && make  (coqc 8.16.1; thorough tier adds coqchk -o)"
        self.coverage["trusted_base"] = TRUSTED_BASE
        self.build_ok = current
        self.build_log = build_log

    def finish(self):
        rc = 0
        lines = []
        n_new = 0
        # a broken proof obligation with no failing input found by the streams
        if not getattr(self, "build_ok", True) and not any(v["found_input"] for v in self.violations):
            self.violation(f"{self.prop}:proof-broken", "a proof obligation or regenerated table no longer checks",
                           dict(kind="broken-proof", theorem_file=f"coq/theories/Props/{self.prop}.v",
                                log=self.build_log[-4000:]), found_input=False)
        seen = set()
        for v in self.violations:
            if v["key"] in seen:
                continue
            seen.add(v["key"])
            kn = [k for k in self.known if k.get("status") == "finding" and k.get("key") == v["key"]]
            if kn:
                lines.append(f"KNOWN-FINDING: property={self.prop} {kn[0]['what']}")
                continue
            n_new += 1
            rp = os.path.join(WORK, self.prop, f"replay-{n_new}.json")
            json.dump(dict(property=self.prop, key=v["key"], what=v["what"], **v["replay"]), open(rp, "w"), indent=1, default=str)
            tail = "" if v["found_input"] else " no-failing-input-found"
            lines.append(f"VIOLATION property={self.prop} replay={rp}{tail}")
            log(f"  {v['key']}: {v['what']}")
            rc = 1
        ev = dict(property_id=self.prop, tier=self.tier, seed=self.seed, level="proof", coverage=self.coverage,
                  assumptions=self.assumptions, wall_s=round(time.time() - self.t0, 2), violations=n_new)
        if self.notes:
            ev["coverage"]["notes"] = self.notes
        if not self.coverage["samples"]:
            self.coverage["samples"].append("no case generated")
        evdir = os.environ.get("VERIF_EVIDENCE_DIR") or os.path.join(VERIF, "evidence")   # seeded-change runs redirect it
        os.makedirs(evdir, exist_ok=True)
        json.dump(ev, open(os.path.join(evdir, self.prop + ".json"), "w"), indent=1, default=str)
        for l in lines:
            print(l, flush=True)
        log(f"[{self.prop}] tier={self.tier} seed={self.seed} evaluations={self.coverage['evaluations']} "
            f"violations={n_new} wall={ev['wall_s']}s")
        return rc
