"""C16 — flatten() preserves leaf-level connectivity (DESIGN.md 6.15).

Per design the implementation driver returns h.to_proto(m) and h.to_proto(flatten(m)) (or the fact that flatten
raised).  Coq (Corr/C16.v:chk_c16) reduces both packages to leaf-level net partitions with Spec/Nets.v, computes the
terminal correspondence [i1; i2; leaf] <-> 'i1:i2:leaf', compares partitions / leaf devices / top ports (the property),
converts the hierarchy package to the tree of Spec/C16Flat.v, validates that spec against Spec/Nets.v, runs the model
`flatten` and compares it with the implementation's flattened module (the tie)."""
import json, itertools, copy
from . import core, design as D
from .core import cstr

IMPORTS = ("Require Import Hdl21.Base.PyInt Hdl21.Spec.PySlice Hdl21.Model.Slice Hdl21.Model.Resolve Hdl21.Base.Design "
           "Hdl21.Spec.Nets Hdl21.Base.Package Hdl21.Corr.C03 Hdl21.Corr.C01 Hdl21.Spec.C16Flat Hdl21.Model.C16Flatten Hdl21.Corr.C16.")

DEVS = [("Mos", 4), ("R", 2), ("C", 2), ("Bjt", 3), ("D", 2), ("Res3", 3)]


# ---------------------------------------------------------------------------------------------
# generation: elaborated-style hierarchies with whole-signal connections
# ---------------------------------------------------------------------------------------------
def _pick_sig(r, md, w, prefer_port=0.3):
    """A signal or port of md of width w (created when there is none, or sometimes anyway: internal nets at every level)."""
    ports = [n for n, sw, _ in md["ports"] if sw == w]
    sigs = [n for n, sw in md["sigs"] if sw == w]
    u = r.random()
    if ports and u < prefer_port:
        return r.choice(ports)
    if sigs and u < 0.85:
        return r.choice(sigs)
    if ports and u < 0.9:
        return r.choice(ports)
    taken = {n for n, _, _ in md["ports"]} | {n for n, _ in md["sigs"]} | {x["name"] for x in md["insts"]}
    for cand in ["x", "y", "z", "n0", "n1", "n2", "n3", "n4", "n5", "n6", "n7", "n8", "n9"] + [f"m{k}" for k in range(40)]:
        if cand not in taken:
            md["sigs"].append([cand, w])
            return cand
    raise RuntimeError("name pool exhausted")


def gen_hier(r, size=2, unsupported=0.0):
    maxw = r.choice([1, 2, 3, 4])
    exts = [dict(name=f"E{k}", ports=[[f"x{j}", r.choice([1, 1, 2, maxw])] for j in range(r.randint(1, 3))])
            for k in range(r.choice([0, 1, 1, 2]))]
    nmods = r.randint(2, 2 + size)
    mods = []
    design = dict(mods=mods, exts=exts, top=nmods - 1)
    inames = ["a", "b", "l", "c", "d", "e"]
    for mi in range(nmods):
        is_top = mi == nmods - 1
        # a sub-module may have no port at all (a self-contained cell with internal nets only)
        nports = r.randint(0, 2) if is_top else (0 if r.random() < 0.15 else r.randint(1, 3))
        ports = [[f"p{j}", r.choice([1, 1, 2, maxw]), r.choice(["in", "out", "inout", "none"])] for j in range(nports)]
        md = dict(name=f"M{mi}", ports=ports, sigs=[], insts=[])
        mods.append(md)
        ninst = r.randint(1, 1 + size) if not is_top else r.randint(2, 2 + size)
        for ii in range(ninst):
            u = r.random()
            if mi > 0 and (u < 0.5 or (is_top and ii == 0)):
                # chains (depth) and sharing (same module twice)
                of = ["mod", mi - 1 if r.random() < 0.6 else r.randrange(mi)]
            elif exts and u < 0.7:
                of = ["ext", r.randrange(len(exts)), r.randint(1, 3)]
            else:
                of = ["prim", r.choice(DEVS)[0], r.randint(1, 3)]
            x = dict(name=inames[ii], n=0, of=of, conns=[])
            md["insts"].append(x)
            for port, w in D.target_ports(design, of):
                if r.random() < unsupported:
                    pool = [(n, sw) for n, sw, _ in md["ports"]] + [(n, sw) for n, sw in md["sigs"]]
                    wide = [(n, sw) for n, sw in pool if sw > w]
                    if wide:
                        n, sw = r.choice(wide)
                        lo = r.randint(0, sw - w)
                        x["conns"].append([port, ["sl", ["sig", n], ["s", lo, lo + w, None] if w > 1 else ["i", lo]]])
                        continue
                    if w >= 2:
                        x["conns"].append([port, ["cat", [["sig", _pick_sig(r, md, 1)], ["sig", _pick_sig(r, md, w - 1)]]]])
                        continue
                    x["conns"].append([port, ["sl", ["sig", _pick_sig(r, md, 2)], ["i", r.randint(0, 1)]]])
                    continue
                x["conns"].append([port, ["sig", _pick_sig(r, md, w, prefer_port=0.45 if of[0] == "mod" else 0.3)]])
    return design


def rename(design, mi, kind, old, new):
    """Rename a signal/port/instance of module mi (and every reference to it)."""
    md = design["mods"][mi]
    taken = {n for n, _, _ in md["ports"]} | {n for n, _ in md["sigs"]} | {x["name"] for x in md["insts"]}
    if new in taken:
        return False
    if kind == "inst":
        for x in md["insts"]:
            if x["name"] == old:
                x["name"] = new
        return True
    for s in md["sigs"]:
        if s[0] == old:
            s[0] = new
    isport = False
    for p in md["ports"]:
        if p[0] == old:
            p[0] = new
            isport = True

    def ren(e):
        if e[0] == "sig":
            return ["sig", new] if e[1] == old else e
        if e[0] == "sl":
            return ["sl", ren(e[1]), e[2]]
        if e[0] == "cat":
            return ["cat", [ren(p) for p in e[1]]]
        return e
    for x in md["insts"]:
        x["conns"] = [[p, ren(e)] for p, e in x["conns"]]
    if isport:
        for m2 in design["mods"]:
            for x in m2["insts"]:
                if x["of"] == ["mod", mi]:
                    x["conns"] = [[new if p == old else p, e] for p, e in x["conns"]]
    return True


def rel_names(design, mi, depth=3):
    """':'-joined names of objects below module mi: [(joined name, ...)] relative to mi (excluding mi's own objects)."""
    out = []
    md = design["mods"][mi]
    for x in md["insts"]:
        if x["of"][0] == "mod" and depth > 0:
            sub = design["mods"][x["of"][1]]
            own = [n for n, _ in sub["sigs"]] + [n for n, _, _ in sub["ports"]] + [y["name"] for y in sub["insts"]]
            out += [x["name"] + ":" + n for n in own]
            out += [x["name"] + ":" + n for n in rel_names(design, x["of"][1], depth - 1)]
    return out


def adversarial(r, design):
    """Rename one object so that its name equals (or resembles) a ':'-joined path name generated below its module."""
    d = copy.deepcopy(design)
    order = list(range(len(d["mods"])))
    r.shuffle(order)
    order.sort(key=lambda mi: 0 if mi == d["top"] and r.random() < 0.7 else 1)
    for mi in order:
        md = d["mods"][mi]
        cands = rel_names(d, mi)
        if not cands:
            continue
        new = r.choice(cands) if r.random() < 0.8 else r.choice(cands) + r.choice(["", ":", "x"])
        objs = [("sig", n) for n, _ in md["sigs"]] + [("inst", x["name"]) for x in md["insts"]] + [("sig", n) for n, _, _ in md["ports"]]
        if not objs:
            continue
        kind, old = r.choice(objs)
        if rename(d, mi, kind, old, new):
            return d
    return d


def features(d):
    mods = d["mods"]

    def depth(mi):
        return 1 + max([depth(x["of"][1]) for x in mods[mi]["insts"] if x["of"][0] == "mod"] or [0])
    reach, uses = set(), {}

    def walk(mi, below):
        reach.add(mi)
        for x in mods[mi]["insts"]:
            if x["of"][0] == "mod":
                uses[x["of"][1]] = uses.get(x["of"][1], 0) + 1
                walk(x["of"][1], True)
    walk(d["top"], False)
    s = json.dumps(d)
    sub = [mi for mi in reach if mi != d["top"]]
    names = [n for m in mods for n, _ in m["sigs"]] + [n for m in mods for n, _, _ in m["ports"]] + [x["name"] for m in mods for x in m["insts"]]
    # a port of a sub-module connected straight to a port of a sub-sub-module
    passthru = any(x["of"][0] == "mod" and any(e[0] == "sig" and e[1] in {n for n, _, _ in mods[mi]["ports"]} for _, e in x["conns"])
                   for mi in sub for x in mods[mi]["insts"])
    return dict(depth3=depth(d["top"]) >= 3, depth4=depth(d["top"]) >= 4, sharing=any(v >= 2 for v in uses.values()),
                bus=any(w > 1 for m in mods for _, w in m["sigs"]) or any(w > 1 for m in mods for _, w, _ in m["ports"]),
                internal_nets_below=any(mods[mi]["sigs"] for mi in sub), passthru=passthru,
                ext_below=any(x["of"][0] == "ext" for mi in sub for x in mods[mi]["insts"]),
                portless_below=any(not mods[mi]["ports"] for mi in sub),
                colon_names=any(":" in n for n in names), unsupported=('"sl"' in s or '"cat"' in s))


# ---------------------------------------------------------------------------------------------
# Coq cases
# ---------------------------------------------------------------------------------------------
def c_case(out):
    fp = "None" if out["fpkg"] is None else f"(Some {D.c_pkg(out['fpkg'])})"
    return (f"{{| c_hpkg := {D.c_pkg(out['hpkg'])};\n  c_htop := {cstr(out['htop'])};\n  c_fpkg := {fp};\n"
            f"  c_ftop := {cstr(out['ftop'] or '')} |}}")


def evaluate(designs, stream):
    outs = core.run_worker_sharded("c16", [dict(design=d) for d in designs])
    idx = [i for i, o in enumerate(outs) if o["err"] is None]
    cases = [c_case(outs[i]) for i in idx]
    bad = core.coq_eval_cases("C16", stream, IMPORTS, "c16_case", cases, "run_cases chk_c16", chunk=30)
    return outs, [(idx[i], c) for i, c in bad]


def design_size(d):
    return len(json.dumps(d))


WHAT = {1: "flatten(m) is not m flattened (net partition / leaf devices / top ports differ, or it is not flat)",
        6: "a hierarchy of primitive/external leaves with whole-signal connections and no name collision was rejected",
        2: "property holds but model and implementation differ (tie broken)",
        3: "hierarchy package unreadable or Spec/C16Flat disagrees with Spec/Nets (harness/spec inconsistency)"}


def report(run, stream, bad, designs, outs):
    order = sorted(bad, key=lambda ic: design_size(designs[ic[0]]))
    v1 = [(i, c) for i, c in order if c in (1, 6)]
    v2 = [(i, c) for i, c in order if c not in (1, 6)]
    seen = set()
    for i, c in v1:
        if c in seen:
            continue
        seen.add(c)
        o = outs[i]
        run.violation("C16:design:" + json.dumps(designs[i], sort_keys=True),
                      f"{WHAT[c]}: flatten -> {json.dumps(o['ferr']) if o['ferr'] else 'module ' + str(o['ftop'])}",
                      dict(kind="impl-violates-spec", stream=stream, code=c, case=designs[i],
                           impl=dict(ferr=o["ferr"], ftop=o["ftop"], same=o["same"], fpkg=o["fpkg"]),
                           failing_cases=sum(1 for _, c2 in v1 if c2 == c),
                           reproducer="PYTHONPATH=<repo>:harness/impl python: from designlib import Builder; from hdl21.flatten import flatten; "
                                      "m = Builder(case).build(); h.to_proto(flatten(m)) vs h.to_proto(m), compare leaf-level nets"))
    if v2 and not v1:
        i, c = v2[0]
        run.violation(f"C16:{'tie' if c == 2 else 'spec'}:" + json.dumps(designs[i], sort_keys=True), WHAT.get(c, str(c)),
                      dict(kind="model-differs" if c == 2 else "harness-inconsistency", stream=stream, code=c, case=designs[i],
                           impl=dict(ferr=outs[i]["ferr"], ftop=outs[i]["ftop"], fpkg=outs[i]["fpkg"])), found_input=False)


def stats(designs, outs):
    built = [o for o in outs if o["err"] is None]
    return dict(invalid_for_elaboration=len(outs) - len(built),
                flatten_rejected=sum(1 for o in built if o["fpkg"] is None),
                rejected_classes=sorted({o["ferr"]["cls"] for o in built if o["fpkg"] is None and o["ferr"]}),
                returned_unchanged=sum(1 for o in built if o["same"]),
                flattened=sum(1 for o in built if o["fpkg"] is not None and not o["same"]))


def feat_counts(designs):
    feats = {}
    for d in designs:
        for f, v in features(d).items():
            feats[f] = feats.get(f, 0) + int(v)
    return feats


# ---------------------------------------------------------------------------------------------
# streams
# ---------------------------------------------------------------------------------------------
def small(top_sig, top_leaf, in_sig, in_leaf, leaf=("prim", "R", 1), extra_port=None):
    inner = dict(name="Inner", ports=[["a", 1, "inout"]], sigs=[[in_sig, 1]],
                 insts=[dict(name=in_leaf, n=0, of=list(leaf), conns=[])])
    top = dict(name="Top", ports=[["p", 1, "in"]], sigs=[[top_sig, 1]],
               insts=[dict(name="l", n=0, of=["mod", 0], conns=[["a", ["sig", "p"]]]),
                      dict(name=top_leaf, n=0, of=["prim", "R", 2], conns=[["p", ["sig", top_sig]], ["n", ["sig", "p"]]])])
    d = dict(mods=[inner, top], exts=[dict(name="E0", ports=[["x0", 1], ["x1", 1]])], top=1)
    ports = D.target_ports(d, list(leaf))
    inner["insts"][0]["conns"] = [[ports[0][0], ["sig", "a"]]] + [[p, ["sig", in_sig]] for p, _ in ports[1:]]
    return d


def corpus():
    mid = dict(name="Mid", ports=[["a", 1, "inout"]], sigs=[],
               insts=[dict(name="b", n=0, of=["mod", 0], conns=[["a", ["sig", "a"]]])])
    c3 = small("s", "r2", "x", "r")
    c3["mods"].insert(1, mid)
    c3["mods"][2]["insts"][0]["of"] = ["mod", 1]
    c3["mods"][2]["insts"].append(dict(name="l:b", n=0, of=["mod", 0], conns=[["a", ["sig", "s"]]]))
    c3["top"] = 2
    c4 = small("s", "r2", "x", "r")
    c4["mods"][1]["ports"].append(["l:x", 1, "inout"])
    c4["mods"][1]["insts"][1]["conns"][1] = ["n", ["sig", "l:x"]]
    return [
        small("s", "r2", "x", "e", leaf=("ext", 0, 1)),   # pinned: ExternalModule leaf one level down -> AttributeError
        small("l:x", "r2", "x", "r"),                     # pinned: top-level signal `l:x` shorted with net x of instance l
        small("s", "l:r", "x", "r"),                      # pinned: top-level leaf `l:r` and leaf r of instance l: one overwrites the other
        c3,                                               # instances `l`/`b` and `l:b` of the same module: every inner name collides
        c4,                                               # top-level PORT `l:x` shorted with net x of instance l
        small("s", "r2", "x", "r"),                       # plain
    ]


def exhaustive_small():
    A = ["x", "r", "l:x", "l:r", "l:a"]
    out = []
    for ts, tl, isg, il in itertools.product(A, A, A[:3], A[:3]):
        if ts == tl or isg == il:
            continue
        out.append(small(ts, tl, isg, il))
    return out


def run(run, tier, seed, replay=None):
    quick = tier == "quick"
    if replay is not None:
        designs = [replay["case"]]
        outs, bad = evaluate(designs, "replay")
        o = outs[0]
        print("replay verdict:", bad or "ok", json.dumps(dict(err=o["err"], ferr=o["ferr"], ftop=o["ftop"], same=o["same"]))[:2000])
        if bad:
            run.violation("C16:replay", "replayed case still fails", dict(kind="replay", case=designs[0], impl=o))
        return

    # 1. corpus
    designs = corpus()
    outs, bad = evaluate(designs, "corpus")
    run.stream("corpus", len(designs), len(designs), rule="pinned-tree witnesses and their variants; all non-trivial", **stats(designs, outs))
    report(run, "corpus", bad, designs, outs)

    # 2. exhaustive-small: all assignments of names from {x, r, l:x, l:r, l:a} to the four objects of a two-level design
    designs = exhaustive_small()
    outs, bad = evaluate(designs, "small")
    run.stream("exhaustive-small", len(designs), sum(1 for d in designs if features(d)["colon_names"]),
               rule="non-trivial = some designer name contains ':'", **stats(designs, outs))
    report(run, "small", bad, designs, outs)

    # 3. structured random hierarchies, about a third with an adversarial rename
    n = 260 if quick else 5000
    designs = []
    for k in range(n):
        r = core.rng(seed, "C16", "hier", k)
        d = gen_hier(r, size=r.choice([1, 2, 2, 3]) if quick else r.choice([1, 2, 3, 3]))
        if r.random() < 0.35:
            d = adversarial(r, d)
        designs.append(d)
    outs, bad = evaluate(designs, "hier")
    feats = feat_counts(designs)
    run.stream("hierarchies", len(designs),
               len({json.dumps(d) for d in designs if sum(features(d).values()) >= 3}), features=feats,
               rule="non-trivial = at least 3 of {depth>=3, depth>=4, sharing, buses, internal nets below the top, pass-through ports, "
                    "external leaf below the top, ':' in a designer name}; distinct by design", **stats(designs, outs))
    for f in ("depth3", "depth4", "sharing", "bus", "internal_nets_below", "passthru", "ext_below", "colon_names", "portless_below"):
        if feats.get(f, 0) == 0:
            run.violation(f"C16:coverage:{f}", f"generator coverage target missed: no design with {f}", dict(kind="coverage"), found_input=False)
    report(run, "hier", bad, designs, outs)
    run.sample(dict(stream="hierarchies", design=designs[len(designs) // 2]))
    nvalid = len(designs)

    # 4. malformed / unsupported: slices and concatenations below and at the top, and the general design language
    #    (port references, no-connects, arrays): flatten must reject or flatten correctly, never wrongly
    n = 60 if quick else 1000
    designs = []
    for k in range(n):
        r = core.rng(seed, "C16", "unsup", k)
        if k % 2 == 0:
            designs.append(gen_hier(r, size=2, unsupported=r.choice([0.05, 0.15, 0.4])))
        else:
            designs.append(D.gen_design(r, size=r.choice([1, 2, 2, 3])))
    outs, bad = evaluate(designs, "unsup")
    run.stream("unsupported", len(designs), len({json.dumps(d) for d in designs if features(d)["unsupported"]}),
               features=feat_counts(designs), rule="non-trivial = contains a slice or a concatenation; distinct by design", **stats(designs, outs))
    report(run, "unsup", bad, designs, outs)
    run.sample(dict(stream="unsupported", design=designs[0]))
    run.coverage["traces_validated_against_impl"] = nvalid + len(designs)
    # C16E: the package-level flatten model (coq Model/C16EPkg.v:flatten_pkg) against the implementation on the designs of the four
    # streams above and on a new stream of bus hierarchies with slices / concatenations at instance connections (append-only hook)
    from . import c16e
    c16e.run_tie(run, tier, seed)
