"""C07E — tie of the CONCRETE pass manager (coq Model/C07EConcrete.v: the abstract machine of C07 instantiated with the
per-module pass models of C01E / C02E) to the implementation, per call history over core-fragment designs.

Called from the END of harness/vp/c07.py:run().  Designs: harness/vp/design.py:gen_design DAGs (signals, buses, slices,
concatenations, port references, no-connects, arrays, hierarchy with shared sub-modules, primitives, external modules) and
single-fault mutants of them (harness/vp/c02.py mutators).  Histories: lists of h.elaborate(list) / h.to_proto(module) /
h.netlist(list) calls over the modules of the design, every history in a child forked right after `import hdl21`.
For every history Coq (Corr/C07E.v:chk_c07e) runs the concrete manager through the same calls and compares call by call:
verdicts; the package of every to_proto call with the package exported from the manager's answer (syntactic equality);
the implementation's package with the one a fresh process returns for the single call (the property itself).
Codes: 0 agree, 1 history dependence of the implementation, 2 tie broken, 3 malformed case, 4 model contradicts its theorems,
5 design outside the modelled fragment (reference / no-connect nested in a slice or concatenation): counted, no verdict.
"""
import json, copy, time
from . import core, design as D, c01e
from .core import cstr, clist, cbool

IMPORTS = ("Require Import Hdl21.Base.PyInt Hdl21.Spec.PySlice Hdl21.Model.Slice Hdl21.Model.Resolve Hdl21.Base.Design "
           "Hdl21.Spec.WfDesign Hdl21.Base.Package Hdl21.Corr.C03 Hdl21.Corr.C01 Hdl21.Model.C01EElab Hdl21.Corr.C01E "
           "Hdl21.Model.C07PassMgr Hdl21.Model.C07EConcrete Hdl21.Corr.C07E.")

FAULT_CLASSES = ("width", "width_ref", "missing", "extra", "badref", "index", "empty", "nc_ref", "array_width", "array_missing")
OPNAME = {"E": "PM.Elaborate", "P": "PM.Export", "N": "PM.Netlist"}


# ------------------------------------------------------------------------------------------------ generation
def kids(design, mi):
    return [x["of"][1] for x in design["mods"][mi]["insts"] if x["of"][0] == "mod"]


def below(design, tops):
    seen, todo = set(), list(tops)
    while todo:
        m = todo.pop()
        if m not in seen:
            seen.add(m)
            todo += kids(design, m)
    return seen


def shared(design):
    """a module instantiated from two places (twice in one parent, or by two parents)"""
    cnt = {}
    for mi in range(len(design["mods"])):
        for c in kids(design, mi):
            cnt[c] = cnt.get(c, 0) + 1
    return any(v > 1 for v in cnt.values())


IDEAL = [("R", 2), ("C", 2)]


def gen_base(seed, stream, k):
    r = core.rng(seed, "C07E", stream, k)
    # every other design uses ideal primitives only: h.netlist refuses physical ones (Mos, Bipolar, ...) uncompiled
    d = D.gen_design(r, size=r.choice([2, 2, 3]), devs=IDEAL if k % 2 else None)
    return d


def netlistable(design, tops):
    """h.netlist(spice) writes ideal primitives and external modules; it refuses physical primitives that no PDK compiled"""
    return all(x["of"][0] != "prim" or x["of"][1] in ("R", "C") for m in below(design, tops) for x in design["mods"][m]["insts"])


def histories(r, design, n_random):
    n = len(design["mods"])
    allm = list(range(n))
    top = design["top"]
    hs = [[["P", [top]]],                                                       # the single call
          [["P", [t]] for t in allm],                                           # bottom-up, one module at a time
          [["P", [t]] for t in reversed(allm)]]                                 # top-down: everything is cached after the first
    sh = allm[:]
    r.shuffle(sh)
    hs.append([["E", sh]] + [["P", [t]] for t in sh[: max(1, n // 2)]] + [["P", [top]]])      # one list call, then exports
    for _ in range(n_random):
        ops = []
        for _ in range(r.randint(2, 5)):
            kind = r.choice("EEPPPN")
            if kind == "P":
                ops.append(["P", [r.choice(allm)]])
            else:
                tops = [r.choice(allm) for _ in range(r.randint(1, min(3, n)))]       # repeated tops allowed
                ops.append([kind if kind == "E" or netlistable(design, tops) else "E", tops])
        ops.append(["P", [r.choice([top, top, r.choice(allm)])]])
        hs.append(ops)
    return hs


def nontrivial(design, ops):
    """some module is reached by at least two calls (the later call meets cached state)"""
    seen = set()
    for _, tops in ops:
        b = below(design, tops)
        if b & seen:
            return True
        seen |= b
    return False


# ------------------------------------------------------------------------------------------------ Coq printing
def c_hist(ops):
    return clist(ops, lambda o: f"({OPNAME[o[0]]} {clist(o[1], lambda t: f'{t}%nat')})")


def c_optpkg(design, pkg):
    return "None" if pkg is None else f"(Some {D.c_pkg(c01e.strip_qual(pkg, design))})"


def c_case(c_design, design, ops, out, refs):
    impl = clist(out["calls"], lambda c: f"({cbool(c['ok'])}, {c_optpkg(design, c.get('pkg'))})")
    rf = clist(sorted(refs.items()), lambda kv: f"({kv[0]}%nat, {c_optpkg(design, kv[1])})")
    return (f"{{| e_design := {c_design(design)};\n  e_xinfo := {c01e.c_xinfo(named(design))};\n  e_hist := {c_hist(ops)};\n"
            f"  e_impl := {impl};\n  e_refs := {rf} |}}")


def named(design):
    d = copy.deepcopy(design)
    for md in d["mods"]:
        if md["name"] is None:
            md["name"] = ""
    return d


# ------------------------------------------------------------------------------------------------ the tie
def evaluate(stream, c_design, items):
    """items: [(design, [ops...])]; returns per (design index, history index): (job, out, refs, code)"""
    jobs, index = [], []
    for di, (design, hs) in enumerate(items):
        for t in range(len(design["mods"])):
            jobs.append(dict(design=design, ops=[["P", [t]]]))
            index.append((di, "ref", t))
        for hi, ops in enumerate(hs):
            jobs.append(dict(design=design, ops=ops))
            index.append((di, "hist", hi))
    outs = core.run_worker_sharded("c07e", jobs, common=dict(mode="fork"))
    refs = {}
    for (di, kind, k), o in zip(index, outs):
        if o.get("crash") or o.get("build"):
            raise RuntimeError(f"C07E worker: {json.dumps(o)[:400]}")
        if kind == "ref":
            refs.setdefault(di, {})[k] = o["calls"][0].get("pkg")
    cases, meta = [], []
    for (di, kind, k), o in zip(index, outs):
        if kind == "hist":
            design, hs = items[di]
            cases.append(c_case(c_design, design, hs[k], o, refs[di]))
            meta.append((di, k, o))
    bad = dict(core.coq_eval_cases("C07", "c07e_" + stream, IMPORTS, "c07e_case", cases, "run_cases chk_c07e", chunk=12))
    return [(di, k, o, bad.get(i, 0)) for i, (di, k, o) in enumerate(meta)], len(jobs)


WHAT = {1: "the package a to_proto call returns after this history differs from the package the same call returns in a fresh process",
        2: "the concrete pass-manager model (Model/C07EConcrete.v) and the implementation disagree on a verdict or a package (tie broken)",
        3: "malformed C07E case (harness defect)",
        4: "the concrete pass manager contradicts Props/C07E.v (manager state differs from the whole-design pipeline model): checker defect"}


def report(run, stream, items, res):
    order = sorted((r for r in res if r[3] not in (0, 5)), key=lambda r: len(json.dumps(items[r[0]][0])) + len(json.dumps(items[r[0]][1][r[1]])))
    any1 = any(r[3] == 1 for r in res)
    seen = {}
    for di, k, o, code in order:
        if seen.get(code, 0) >= 2:
            continue
        seen[code] = seen.get(code, 0) + 1
        design, hs = items[di]
        case = dict(design=design, ops=hs[k])
        run.violation(f"C07E:{code}:" + json.dumps(case, sort_keys=True), f"{WHAT.get(code, code)}: history {json.dumps(hs[k])}",
                      dict(kind="impl-violates-spec" if code == 1 else "tie-broken", stream=stream, case=case,
                           impl=[{kk: vv for kk, vv in c.items() if kk != "pkg"} for c in o["calls"]],
                           failing_cases=sum(1 for r in res if r[3] == code),
                           reproducer="harness/impl/c07e.py: build the design with designlib.Builder, run the ops in one process, compare each "
                                      "to_proto package with the one of a fresh process"),
                      found_input=(code == 1) or any1)


def failing_point(out):
    """(ok, (entry index, module index) | None) of the single logged call of a job"""
    c = out["calls"][0]
    if c["ok"]:
        return True, None
    log = c.get("log") or []
    if log and log[-1][2] == "start" and log[-1][0] in out["passes"]:
        return False, (out["passes"].index(log[-1][0]), log[-1][1])
    return False, None


def failure_points(run, seed, quick, faulty, valid):
    """C08E stream: to_proto(t) alone in a fresh process under logging subclasses of the default passes; the (entry, module)
    whose body raised against the first failure point the machine of Model/C08PassFail.v meets when it is run with the failure
    points of the concrete bodies (Model/C07EConcrete.v:failure_points) as its oracle."""
    from . import c02
    jobs, meta = [], []
    for d in faulty + valid:
        tops = sorted({d["top"], len(d["mods"]) - 1} | ({core.rng(seed, "C07E", "fp-top", len(jobs)).randrange(len(d["mods"]))}))
        for t in tops:
            jobs.append(dict(design=d, ops=[["P", [t]]], log=True))
            meta.append((d, t))
    outs = core.run_worker_sharded("c07e", jobs, common=dict(mode="fork"))
    cases = []
    for (d, t), o in zip(meta, outs):
        if o.get("crash") or o.get("build"):
            raise RuntimeError(f"C07E worker: {json.dumps(o)[:400]}")
        ok, pt = failing_point(o)
        cpt = "None" if pt is None else f"(Some ({pt[0]}%nat, {pt[1]}%nat))"
        cases.append(f"{{| f_design := {c02.c_design(d)};\n  f_xinfo := {c01e.c_xinfo(named(d))}; f_top := {t}%nat; "
                     f"f_ok := {cbool(ok)}; f_point := {cpt} |}}")
    bad = dict(core.coq_eval_cases("C07", "c07e_points", IMPORTS, "c08e_case", cases, "run_cases chk_c08e", chunk=25))
    n = len(cases)
    by_entry = {}
    for o in outs:
        ok, pt = failing_point(o)
        key = "returned" if ok else ("outside a pass body" if pt is None else o["passes"][pt[0]])
        by_entry[key] = by_entry.get(key, 0) + 1
    run.stream("failure-points", n, len({json.dumps([d, t], sort_keys=True) for (d, t), o in zip(meta, outs) if not o["calls"][0]["ok"]}),
               agree=sum(1 for i in range(n) if bad.get(i, 0) == 0), outside_modelled_fragment=sum(1 for c in bad.values() if c == 5),
               implementation_outcome=by_entry,
               rule="one to_proto(module) call per case, fresh process, logging subclasses of the default passes; non-trivial = the call raised; "
                    "distinct by (design, top)",
               compared="the (pass entry, module) whose body raised == the first failure point met by Model/C08PassFail.v (policy repaired) "
                        "run with Model/C07EConcrete.v:failure_points of the design as its failure oracle (Corr/C07E.v:chk_c08e)")
    order = sorted((i for i, c in bad.items() if c not in (0, 5)), key=lambda i: len(json.dumps(meta[i][0])))
    for i in order[:2]:
        d, t = meta[i]
        case = dict(design=d, top=t)
        run.violation(f"C08E:{bad[i]}:" + json.dumps(case, sort_keys=True),
                      f"the pass body that raises in the implementation is not the failure point of the concrete model: implementation "
                      f"{failing_point(outs[i])}, passes {outs[i]['passes']}",
                      dict(kind="tie-broken", stream="failure-points", case=case, impl=[{k: v for k, v in c.items() if k != 'pkg'} for c in outs[i]["calls"]],
                           failing_cases=len(order)), found_input=False)
    return n, sum(1 for i in range(n) if bad.get(i, 0) == 0)


def run_tie(run, tier, seed):
    quick = tier == "quick"
    t0 = time.time()
    # the table facts of Props/C07E.v on the tree under test
    tf = dict(core.coq_eval_cases("C07", "c07e_table", IMPORTS, "Z * Z", ["table_facts"],
                                  "(fun l : list (Z * Z) => l)"))
    tfv = list(tf.items())
    checked_ok, unchecked_ok = (tfv[0][0] == 1, tfv[0][1] == 1) if tfv else (False, False)
    run.coverage["c07e_table_facts"] = dict(checked_list_ok=checked_ok, unchecked_list_ok=unchecked_ok)
    if not checked_ok:
        run.notes.append("C07E: the effective entries of the default pass list are not the ten kinds of Elaborator.default (a class is "
                         "listed twice or the list was edited): the bridge theorems of Props/C07E.v about checked_elab do not apply to this "
                         "tree (Props/C07ETable.v does not build); the tie below still compares the concrete manager, which follows the "
                         "regenerated list, with the implementation")

    # ---------------------------------------------------------------- valid designs
    n_des = 44 if quick else 300
    items, k = [], 0
    while len(items) < n_des and k < 40 * n_des:
        d = gen_base(seed, "valid", k)
        k += 1
        if len(d["mods"]) < 2 or not any(kids(d, mi) for mi in range(len(d["mods"]))):
            continue
        if len(items) % 2 == 0 and not shared(d):
            continue                                         # every other design has a shared sub-module
        r = core.rng(seed, "C07E", "valid-hist", len(items))
        items.append((d, histories(r, d, 2 if quick else 3)))
    res, nproc = evaluate("valid", D.c_design, items)
    nh = len(res)
    feats = {}
    for d, _ in items:
        for f, v in D.features(d).items():
            feats[f] = feats.get(f, 0) + int(v)
    run.stream("concrete-manager", nh, len({json.dumps([items[di][0], items[di][1][k]], sort_keys=True) for di, k, _, _ in res
                                            if nontrivial(items[di][0], items[di][1][k])}),
               designs=len(items), designs_with_shared_submodule=sum(1 for d, _ in items if shared(d)),
               calls=sum(len(o["calls"]) for _, _, o, _ in res),
               to_proto_calls_compared=sum(1 for di, k, o, _ in res for op in items[di][1][k] if op[0] == "P"),
               fresh_reference_processes=nproc - nh, agree=sum(1 for r in res if r[3] == 0), features=feats,
               modules_per_design={str(n): sum(1 for d, _ in items if len(d["mods"]) == n) for n in range(2, 7)},
               interpreter="child forked after `import hdl21` per history and per fresh reference",
               rule="non-trivial = some module is reached by at least two calls of the history; distinct by (design, history)",
               compared="Coq runs the concrete pass manager (per-module pass models of C01E/C02E as bodies, checks on) through the history; "
                        "per call: verdict; per to_proto: package exported from the manager's answer == implementation's package "
                        "(syntactically, up to the builder's module-name qualifier) == package of the single call in a fresh process; "
                        "at the end: manager state == checked_elab of the design when every module was reached (theorem C07E_manager_is_checked_pipeline)")
    report(run, "concrete-manager", items, res)
    if res:
        di, k, o, code = res[len(res) // 2]
        run.sample(dict(stream="concrete-manager", design_modules=[m["name"] for m in items[di][0]["mods"]], ops=items[di][1][k], code=code))

    # ---------------------------------------------------------------- single-fault mutants: a failing module, then other calls
    from . import c02
    n_f = 10 if quick else 60
    fitems, k = [], 0
    per = {}
    while len(fitems) < n_f * len(FAULT_CLASSES) // 2 and k < 60 * n_f:
        base = gen_base(seed, "faulty", k)
        k += 1
        if len(base["mods"]) < 3:
            continue
        reach = c02.reachable(base)
        ss = [s for s in c02.sites(base) if s[0] in reach]
        if not ss:
            continue
        r = core.rng(seed, "C07E", "faulty-mut", k)
        cls = FAULT_CLASSES[len(fitems) % len(FAULT_CLASSES)]
        deep = [s for s in ss if s[0] != base["top"]]
        site = r.choice(deep) if deep and r.random() < 0.7 else r.choice(ss)
        m = c02.MUTATORS[cls](r, copy.deepcopy(base), site)
        if m is None:
            continue
        n = len(m["mods"])
        bad = site[0]
        clean = [t for t in range(n) if bad not in below(m, [t])]
        dirty = [t for t in range(n) if bad in below(m, [t])]
        hs = [[["P", [m["top"]]], ["P", [m["top"]]]],                                              # fail, retry
              [["P", [t]] for t in range(n)],                                                     # bottom-up through the fault
              [["E", [r.choice(dirty)]]] + [["P", [t]] for t in clean] + [["P", [r.choice(dirty)]]],  # fail, unrelated designs, again
              [["N" if netlistable(m, clean + [bad]) else "E", clean + [bad]]] + [["P", [t]] for t in reversed(range(n))]]
        fitems.append((m, hs))
        per[cls] = per.get(cls, 0) + 1
    fres, fproc = evaluate("faulty", c02.c_design, fitems)
    run.stream("concrete-manager-faulty", len(fres), len({json.dumps([fitems[di][0], fitems[di][1][k]], sort_keys=True) for di, k, _, _ in fres}),
               designs=len(fitems), per_class=per, calls=sum(len(o["calls"]) for _, _, o, _ in fres),
               calls_that_raised=sum(1 for _, _, o, _ in fres for c in o["calls"] if not c["ok"]),
               calls_that_returned=sum(1 for _, _, o, _ in fres for c in o["calls"] if c["ok"]),
               netlister_refusals_after_elaboration=sum(1 for _, _, o, _ in fres for c in o["calls"] if c.get("netlister")),
               agree=sum(1 for r in fres if r[3] == 0), outside_modelled_fragment=sum(1 for r in fres if r[3] == 5),
               rule="every case is a history over a single-fault mutant (harness/vp/c02.py mutators) of a generated design with >= 3 modules; "
                    "non-trivial = all (each history calls into the faulty module and into modules that do not contain it)",
               compared="as concrete-manager; a call raises iff a module at or below its tops holds an error in the manager (Corr/C07E.v:call_ok)")
    report(run, "concrete-manager-faulty", fitems, fres)
    # ---------------------------------------------------------------- C08E: which (pass entry, module) body raises
    pres = failure_points(run, seed, quick, [m for m, _ in fitems], [d for d, _ in items[: (10 if quick else 60)]])
    run.coverage["c07e_tie"] = dict(histories=nh + len(fres), agree=sum(1 for r in res + fres if r[3] == 0),
                                    failure_point_cases=pres[0], failure_points_agree=pres[1], wall=round(time.time() - t0, 1))
    run.coverage["traces_validated_against_impl"] = run.coverage.get("traces_validated_against_impl", 0) + nh + len(fres)
