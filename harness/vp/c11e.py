"""C11E - the exporter's OUTPUT is in the round trip's normal form: tie of Props/C11E.v to the implementation.

Called from the END of harness/vp/c11.py:run().  For core-fragment designs (harness/vp/design.py:gen_design, the corpora of
c01e / c01f, nested-reference designs, and a small own corpus around full-width slices) the implementation's package P
(harness/impl/c11.py, source "design": Builder + h.to_proto, then P' = to_proto(from_proto(P).<top>)) is read as c11pkg by the
C11 printer and compared inside Coq (Corr/C11E.v:chk_c11e) with  to_c11 (elab_export_model2 xinfo design)  - the pipeline
model's package read in the round-trip model's types -, the hypotheses of C11E_round_trip_end_to_end_partial and c11_normal
are evaluated, and rt_pkg is evaluated on the package.
Codes: 0 ok, 1 the round trip is not the identity (driver: P' != P), 2 tie differs, 3 harness, 4 model contradicts its theorem.
For the designs harness/impl/c11.py already produces P and P' (source "design").
Stream `ptext` (spec validation of Model/C11EConv.v:parse_pvalue, the reader of the parameter TEXT Base/Package.v holds): the
driver harness/impl/c11e.py builds live vlsir ParamValue messages and prints them with harness/impl/designlib.py:pval_str; Coq
parses the text and compares with the same message as the C11 printer reads it (code 3 on disagreement).
"""
import json, time
from decimal import Decimal
from . import core, design as D, c01e, c01f, c11

STREAM = "model_roundtrip"
IMPORTS = ("Require Import Hdl21.Base.PyInt Hdl21.Spec.PySlice Hdl21.Model.Slice Hdl21.Model.Resolve Hdl21.Base.Design "
           "Hdl21.Spec.WfDesign Hdl21.Base.Package Hdl21.Base.Dec Hdl21.Corr.C03 Hdl21.Model.C01EElab Hdl21.Model.C01FElab "
           "Hdl21.Model.C11RoundTrip Hdl21.Model.C11EConv Hdl21.Corr.C11E.\nFrom Coq Require Import String.\nOpen Scope string_scope.")
WHAT = {1: "the round trip is not the identity on the package exported for this design",
        2: "the implementation's package differs from to_c11 (pipeline model's package), or exactly one of the two refuses the design (tie broken)",
        3: "a generated design violates a hypothesis of C11E_round_trip_end_to_end_partial (wf_design / xinfo_ok / xinfo_c11_ok): harness defect",
        4: "hypotheses hold but the model's package is not c11_normal: contradicts C11E_export_normal_partial (checker defect)"}


def corpus():
    """Designs around the known non-fixed-point of the round trip (a full-width slice) and the shapes the normal form names."""
    W = c01f.W

    def top(insts, sigs, ports=(), exts=()):
        return dict(mods=[W(1), W(2), W(3), dict(name="Top", ports=list(ports), sigs=sigs, insts=insts)], exts=list(exts), top=3)
    i = lambda name, w, e, n=0: dict(name=name, n=n, of=["mod", w - 1], conns=[] if e is None else [["a", e]])
    sl = lambda e, a, b, st=None: ["sl", e, ["s", a, b, st]]
    return [
        # full-width slices as the designer writes them: s[0:2], s[:], s[::-1][::-1], a reference sliced over its whole width
        top([i("i1", 2, sl(["sig", "s"], 0, 2)), i("i2", 2, sl(["sig", "s"], None, None)),
             i("i3", 2, sl(sl(["sig", "s"], None, None, -1), None, None, -1)), i("i4", 2, sl(["ref", "i1", "a"], 0, 2))], [["s", 2]]),
        # one-element arrays: the element takes the whole connection (ArrayFlattener slices it over its full width)
        top([i("a0", 2, ["sig", "s"], n=1), i("a1", 1, ["sig", "t"], n=1), i("a2", 3, ["cat", [["sig", "t"], ["sig", "s"]]], n=1)],
            [["s", 2], ["t", 1]]),
        # a slice that is full-width only after the parent slice: s[1:3][0:2] of a 4-bit s is proper, s[0:4][1:3] too, s[0:2][0:2] is s[0:2]
        top([i("i1", 2, sl(sl(["sig", "q"], 1, 3), 0, 2)), i("i2", 2, sl(sl(["sig", "q"], 0, 4), 1, 3)),
             i("i3", 2, sl(sl(["sig", "q"], 0, 2), 0, 2)), i("i4", 1, ["sl", ["sig", "t"], ["i", 0]])], [["q", 4], ["t", 1]]),
        # concatenations: nested, one-part, adjacent bits of one signal, a full-width slice inside
        top([i("i1", 3, ["cat", [["cat", [["sig", "t"]]], sl(["sig", "s"], 0, 2)]]), i("i2", 2, ["cat", [["sl", ["sig", "s"], ["i", 0]], ["sl", ["sig", "s"], ["i", 1]]]]),
             i("i3", 1, ["cat", [["sig", "t"]]]), i("i4", 2, ["cat", [["sig", "s"]]])], [["s", 2], ["t", 1]]),
        # ports of the top module, an external module instantiated twice, a named no-connect
        dict(mods=[W(2), dict(name="Top", ports=[["p", 2, "in"], ["o", 1, "out"], ["io", 1, "inout"], ["n", 1, "none"]], sigs=[["z", 1]],
                              insts=[dict(name="w", n=0, of=["mod", 0], conns=[["a", ["sig", "p"]]]),
                                     dict(name="e1", n=0, of=["ext", 0, 1], conns=[["x0", ["cat", [["sig", "o"], ["sig", "io"]]]], ["x1", ["nc", 1, "hole"]]]),
                                     dict(name="e2", n=0, of=["ext", 0, 2], conns=[["x0", ["sl", ["sig", "p"], ["s", None, None, -1]]], ["x1", ["sig", "n"]]])])],
             exts=[dict(name="E0", ports=[["x0", 2], ["x1", 1]])], top=1),
    ]


def c_case(design, out):
    rs = out["pkgs"] if out["err"] is None else []
    if len(rs) == 1:
        r = rs[0]
        impl = f"(Some {c11.c_pkg(c01e.strip_qual(r['p'], design))})"
        rt = r["q"] is not None and r["eq_msg"] and r["eq_bytes"]
    else:
        impl, rt = "None", False
    return (f"{{| e_design := {D.c_design(design)};\n  e_xinfo := {c01e.c_xinfo(design)};\n  e_impl := {impl};\n"
            f"  e_impl_rt := {core.cbool(rt)} |}}")


def ptext_values(seed, quick):
    """ParamValues in the JSON spelling of harness/impl/c11.py: every kind pval_str prints, decimal strings in and out of
    canonical form (str(Decimal(s)) == s), texts that look like another kind."""
    ints = [0, 1, -1, 5, -12, 10, 100, 2 ** 63 - 1, -2 ** 63, 10 ** 18, -999]
    vals = [["int", n] for n in ints] + [["pre", p, ["int", n]] for n in ints for p in ("UNIT", "MILLI", "YOTTA")]
    for x in (0.0, 1.5, -2.25, 1e-300, 1e300, 5e-324, float("inf"), 0.1, 123456.789):
        vals += [["dbl", x.hex()], ["pre", "KILO", ["dbl", x.hex()]]]
    texts = ["", "a", "a:b", "1e3", "int:5", " x ", "pre:UNIT:i3", "lit:x", "str:", "-0", "0x1p+0", "NMOS", "d1", ":", "::", "i5", "s1.5"]
    vals += [[k, t] for t in texts for k in ("str", "lit")]
    decs = ["1.5", "-0.25", "1E+3", "1.5E-7", "0.000001", "1E-7", "0.0000001", "0", "0.00", "-0", "-0.0", "0E+2", "0E-9", "01.5", "1.50",
            "1.5E+0", "15E-1", "1e3", "1E3", "1E+03", "NaN", "Infinity", "-Infinity", "sNaN", ".5", "5.", "", "-", "+1.5", " 1.5", "1.5 ",
            "1_000", "1.2.3", "1E", "1E+", "E+3", "--1", "1.5e-7", "123456789012345678901234567890.5", "1.5E+30", "1000000", "1E+6",
            "0.1E-5", "1.0E-6", "0.000001000", "9.99E-7", "-1E-7", "12345678901234567890", "1E+1", "10", "1.0E+1", "100E-2", "1.00"]
    vals += [["pre", p, ["str", t]] for t in decs for p in ("UNIT", "MICRO")]
    for k in range(200 if quick else 6000):
        r = core.rng(seed, "C11", "ptext", k)
        nd = r.choice([1, 1, 2, 3, 5, 8, 17, 28, 40])
        coef = r.randrange(10 ** (nd - 1) if r.random() < 0.8 else 0, 10 ** nd)
        d = Decimal((r.randrange(2), tuple(int(c) for c in str(coef)), r.randint(-45, 15)))
        t = r.choice([str(d), str(d), str(d), format(d, "f"), format(d, "E"), str(d).lower(), str(d.normalize()), str(d) + "0"])
        vals.append(["pre", r.choice(c11.PREFIXES), ["str", t]])
    return vals


def run_ptext(run, seed, quick):
    vals = ptext_values(seed, quick)
    outs = core.run_worker_sharded("c11e", [dict(values=vals[i:i + 100]) for i in range(0, len(vals), 100)])
    rows = [r for o in outs for r in o["rows"]]
    cases, kept, skipped = [], [], 0
    for v, r in zip(vals, rows):
        if r["err"] is not None or r["back"] != v:          # the message is not the one asked for (e.g. out of int64): not a case
            skipped += 1
            continue
        cases.append(f"({c11.cs(r['text'])}, {c11.c_val(v)})")
        kept.append((v, r["text"]))
    bad = core.coq_eval_cases("C11", "ptext", IMPORTS, "ptext_case", cases, "run_cases chk_ptext", chunk=400)
    canon = {t for v, t in kept if v[0] == "pre" and v[2][0] == "str" and "(NDec" in c11.c_num(v[2])}
    raw = {t for v, t in kept if v[0] == "pre" and v[2][0] == "str" and "(NRaw" in c11.c_num(v[2])}
    run.stream("ptext", len(cases), len(canon) + len(raw), skipped_not_the_message_asked_for=skipped,
               canonical_decimal_texts=len(canon), refused_decimal_texts=len(raw), kinds=sorted({v[0] for v, _ in kept}),
               rule="non-trivial = distinct prefixed string numbers (canonical: read as the Decimal's triple; anything else: NRaw)",
               compared="Model/C11EConv.v:parse_pvalue on the text designlib.pval_str prints for a live ParamValue against the C11 "
                        "printer's reading of the same message (str(Decimal(s)) == s decides NDec / NRaw on the Python side)")
    for i, c in sorted(bad, key=lambda ic: len(kept[ic[0]][1]))[:2]:
        run.violation("C11:ptext:" + json.dumps(kept[i][0]), f"parse_pvalue reads {kept[i][1]!r} otherwise than the C11 printer reads the message",
                      dict(kind="spec-disagrees-with-oracle", value=kept[i][0], text=kept[i][1], failing_cases=len(bad)), found_input=False)


def run_tie(run, tier, seed, replay=None):
    quick = tier == "quick"
    t0 = time.time()
    if replay is None:
        run_ptext(run, seed, quick)
        run.coverage["streams"]["ptext"]["wall_s"] = round(time.time() - t0, 1)
    t0 = time.time()
    if replay is not None:
        if replay.get("stream") != STREAM:
            return
        designs, ncorp = [replay["job"]["design"]], 0
    else:
        corp = corpus() + [d for d, _ in c01e.corpus()] + c01f.corpus()
        gen = [D.gen_design(core.rng(seed, "C11", "e-designs", k), size=core.rng(seed, "C11", "e-size", k).choice([1, 2, 2, 3]))
               for k in range(130 if quick else 2500)]
        designs = corp + gen + c01e.array_ref_designs(seed, 12 if quick else 200) + c01f.nested_designs(seed, 36 if quick else 400)
        ncorp = len(corp)
    jobs = [dict(source="design", design=d) for d in designs]
    outs = core.run_worker_sharded("c11", jobs, timeout=1800)
    cases = [c_case(d, o) for d, o in zip(designs, outs)]
    res = dict(core.coq_eval_cases("C11", STREAM, IMPORTS, "c11e_case", cases,
                                   "run_cases (fun c => 100 + 10 * c11e_shape c + chk_c11e c)", chunk=25, timeout=1500))
    n = len(designs)
    code = {i: (res[i] - 100) % 10 for i in range(n)}
    shape = {i: (res[i] - 100) // 10 for i in range(n)}
    exported = [i for i in range(n) if outs[i]["err"] is None and len(outs[i]["pkgs"]) == 1]
    pk = {i: json.dumps(outs[i]["pkgs"][0]["p"], sort_keys=True) for i in exported}
    tied = [i for i in exported if code[i] == 0 and shape[i] & 1]
    feats = {}
    for d in designs:
        for f, v in D.features(d).items():
            feats[f] = feats.get(f, 0) + int(v)
    run.stream(STREAM, n, len({json.dumps(designs[i], sort_keys=True) for i in tied if sum(D.features(designs[i]).values()) >= 3}),
               corpus=ncorp, exported_by_impl=len(exported), rejected_by_impl=n - len(exported),
               model_pkg_equal_impl_and_round_trip_identity=len(tied),
               hypotheses_hold=sum(1 for i in range(n) if code[i] == 0 and (shape[i] & 11) == 11),
               outside_frag_ok2_round_trip_checked_on_impl_pkg=sum(1 for i in exported if not shape[i] & 2 and code[i] == 0),
               frag_ok2_not_frag_ok=sum(1 for i in range(n) if shape[i] & 2 and not shape[i] & 4),
               impl_round_trip_identity=sum(1 for i in exported if outs[i]["pkgs"][0]["eq_msg"] and outs[i]["pkgs"][0]["eq_bytes"]),
               pkgs_with_slices=sum('"slice"' in s for s in pk.values()), pkgs_with_concats=sum('"concat"' in s for s in pk.values()),
               pkgs_with_ext_modules=sum('"exts": [{' in s for s in pk.values()), features=feats,
               rule="non-trivial = a design with at least 3 of {refs, no-connects, arrays, slices, concats, hierarchy, external modules, "
                    "negative steps} on which the model's package equals the implementation's and rt_pkg is the identity; distinct by design",
               compared="Coq computes to_c11 (elab_export_model2 xinfo design) and compares it field by field with the implementation's "
                        "package (module-name qualifier of the builder removed); evaluates wf_design, frag_ok2, xinfo_ok, xinfo_c11_ok, "
                        "c11_normal and rt_pkg on it; the driver's own P' == P is part of the case")
    bad = sorted((i for i in range(n) if code[i] != 0), key=lambda i: (i >= ncorp, len(json.dumps(designs[i]))))
    v1 = [i for i in bad if code[i] == 1]
    for i in v1[:2]:
        o = outs[i]["pkgs"][0] if outs[i]["pkgs"] else {}
        run.violation("C11:e-design:" + json.dumps(designs[i], sort_keys=True),
                      f"{WHAT[1]}: stage={o.get('stage')} err={json.dumps(o.get('err'))[:300]} message-equal={o.get('eq_msg')}",
                      dict(kind="impl-violates-spec", stream=STREAM, job=jobs[i], p=o.get("p"), q=o.get("q"), failing_cases=len(v1),
                           reproducer="harness/impl/designlib.Builder(design).build(); P = h.to_proto(top); "
                                      "h.to_proto(getattr(h.from_proto(P), ...top...)) == P"))
    rest = [i for i in bad if code[i] != 1]
    seen = set()
    for i in rest:
        if code[i] in seen:
            continue
        seen.add(code[i])
        run.violation(f"C11:e-model:{code[i]}:" + json.dumps(designs[i], sort_keys=True), WHAT.get(code[i], f"code {code[i]}"),
                      dict(kind="tie-broken" if code[i] == 2 else "checker-inconsistency", code=code[i], stream=STREAM, job=jobs[i],
                           impl=outs[i], failing_cases=sum(1 for j in rest if code[j] == code[i])), found_input=False)
    if replay is None:
        run.sample(dict(stream=STREAM, design=designs[ncorp + 1] if n > ncorp + 1 else designs[0]))
        if len(tied) < (100 if quick else 1800):
            run.violation("C11:coverage:model_roundtrip", f"only {len(tied)} designs tied the model's package to the implementation's",
                          dict(kind="coverage"), found_input=False)
    if STREAM in run.coverage.get("streams", {}):
        run.coverage["streams"][STREAM]["wall_s"] = round(time.time() - t0, 1)
    run.coverage["c11e_tie"] = dict(designs=n, tied=len(tied), codes={str(c): sum(1 for i in range(n) if code[i] == c) for c in set(code.values())})
