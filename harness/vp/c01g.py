"""C01G — tie of the Gallina model of the bundle passes (coq Model/C01GBundlePasses.v: InstBundleElabPass, BundleFlattener,
member-wise hand-over of bundle-valued references / no-connects) to the implementation.

Called from the END of harness/vp/c01.py:run().  Designs: the corpus of harness/vp/c01b.py, a corpus of its own (the
non-vacuity shapes of Props/C01G.v and name collisions that only the per-module naming resolves) and the designs of the
`bundle-designs` stream (same random keys).  For every design Coq (Corr/C01G.v:chk_c01g) computes bundle_passes d, evaluates the
hypotheses of C01G_bundle_passes_is_lower / C01G_bundles_end_to_end, runs the pipeline model on the result and compares the
model's package with the implementation's: nets on all terminals, terminal names, ports of every module (names, order,
directions), instance names (Pair members, array elements), flattened signals; `identical` = equal as packages.
Codes: 0 identical, 7 same nets and names, differs in invented signals only, 8 outside frag_ok2, 9 passes' result not valid
(both: implementation against the specification only), 1/6 the implementation violates the property, 2 tie broken,
4/5 the model contradicts its theorems, 3 harness.
"""
import json
from . import core, c01b, c01e

IMPORTS = (c01b.IMPORTS + "\nRequire Import Hdl21.Model.C01EElab Hdl21.Model.C01FElab Hdl21.Spec.C01FNets Hdl21.Corr.C01FB "
           "Hdl21.Spec.C01GLower Hdl21.Model.C01GBundlePasses Hdl21.Corr.C01G.")

_def, _b, _i = c01b._def, c01b._b, c01b._i
PIN, PIN2 = c01b.PIN, c01b.PIN2


def corpus():
    out = []
    # (1) a nested bundle port with a flipped sub-bundle, connected to an anonymous bundle with a sub-bundle reference,
    #     a nested anonymous bundle and a scalar; the parent also holds a scalar called like a flattened member (bb_lo_x)
    defs = [_def("B", [("x", 1), ("y", 2)]), _def("BB", [("z", 1)], [("lo", 0, False, 0, None), ("hi", 0, True, 1, None)])]
    leaf = dict(name="Leaf", ports=[], sigs=[], bundles=[_b("bp", 0, port=True)],
                insts=[_i("e", ["ext", 0, 1], [["a", ["bm", "bp", ["x"]]]]), _i("f", ["ext", 1, 1], [["a", ["bm", "bp", ["y"]]]])])
    mid = dict(name="Mid", ports=[], sigs=[["bb_lo_x", 1]], bundles=[_b("bb", 1, port=True, cf=True)],
               insts=[_i("l1", ["mod", 0], [["bp", ["bun", "bb", ["lo"]]]]), _i("l2", ["mod", 0], [["bp", ["bun", "bb", ["hi"]]]]),
                      _i("e", ["ext", 0, 2], [["a", ["bm", "bb", ["z"]]]]), _i("g", ["ext", 0, 3], [["a", ["sig", "bb_lo_x"]]])])
    out.append(dict(defs=defs, exts=[PIN, PIN2], top=2, style="class", mods=[
        leaf, mid, dict(name="Top", ports=[], sigs=[["s", 1], ["w", 4]], bundles=[_b("q", 1), _b("q_lo", 0)],
                        insts=[_i("m", ["mod", 1], [["bb", ["anon", [["lo", ["bun", "q", ["hi"]]],
                                                                     ["hi", ["anon", [["x", ["sl", ["sig", "w"], ["i", 0]]],
                                                                                      ["y", ["cat", [["sl", ["sig", "w"], ["i", 3]], ["sig", "s"]]]]], "kw"]],
                                                                     ["z", ["bm", "q_lo", ["x"]]]], "kw"]]]),
                               _i("m2", ["mod", 1], [["bb", ["bun", "q", []]]])])]))
    # (2) Pairs: on a Diff instance, on an anonymous bundle written n first, beside an instance already called like a member
    r2 = dict(name="R2", ports=[["a", 1, "inout"], ["b", 2, "inout"]], sigs=[], bundles=[],
              insts=[_i("e", ["ext", 0, 1], [["a", ["sig", "a"]]]), _i("f", ["ext", 1, 1], [["a", ["sig", "b"]]])])
    out.append(dict(defs=[json.loads(json.dumps(c01b.DIFF))], exts=[PIN, PIN2], top=1, style="class", mods=[
        r2, dict(name="T1", ports=[], sigs=[["s", 1], ["w", 2], ["v", 2], ["pr_p", 1]], bundles=[_b("d", 0)],
                 insts=[_i("pr", ["mod", 0], [["a", ["bun", "d", []]], ["b", ["anon", [["n", ["sig", "v"]], ["p", ["sig", "w"]]], "kw"]]], pair=True),
                        _i("pq", ["mod", 0], [["a", ["sig", "pr_p"]], ["b", ["sig", "w"]]], pair=True)])]))
    # (3) arrays of a module with a bundle port: broadcast of a bundle instance, per-element wiring through an anonymous bundle,
    #     a no-connect; two bundles whose flattened names coincide (b_lo.x / b.lo_x style: bundle `bb_lo` next to `bb`)
    out.append(dict(defs=defs, exts=[PIN, PIN2], top=1, style="proc", mods=[
        leaf, dict(name="T2", ports=[], sigs=[["s", 2], ["w", 4]], bundles=[_b("bb", 1, port=True), _b("bb_lo", 0)],
                   insts=[_i("arr", ["mod", 0], [["bp", ["anon", [["x", ["sig", "s"]], ["y", ["sig", "w"]]], "kw"]]], n=2),
                          _i("ar2", ["mod", 0], [["bp", ["bun", "bb", ["lo"]]]], n=2),
                          _i("ar3", ["mod", 0], [["bp", ["bun", "bb_lo", []]]], n=3),
                          _i("ar4", ["mod", 0], [["bp", ["nc", 1, None]]], n=2)])]))
    # (4) the same bundle definition flattened under different names in parent and child (child: scalar b_x next to b.x)
    out.append(dict(defs=[_def("B", [("x", 1), ("y", 2)])], exts=[PIN, PIN2], top=1, style="gen", mods=[
        dict(name="Child", ports=[["b_x", 1, "in"]], sigs=[], bundles=[_b("b", 0, port=True)],
             insts=[_i("e", ["ext", 0, 1], [["a", ["bm", "b", ["x"]]]]), _i("f", ["ext", 1, 1], [["a", ["bm", "b", ["y"]]]]),
                    _i("g", ["ext", 0, 2], [["a", ["sig", "b_x"]]])]),
        dict(name="Par", ports=[], sigs=[["t", 1]], bundles=[_b("b", 0)],
             insts=[_i("c0", ["mod", 0], [["b_x", ["sig", "t"]], ["b", ["bun", "b", []]]]),
                    _i("c1", ["mod", 0], [["b", ["ref", "c0", "b"]], ["b_x", ["bm", "b", ["x"]]]])])]))
    return out


def malformed():
    """designs the bundle passes refuse (each is one edit away from a corpus design)"""
    defs = [_def("B", [("x", 1), ("y", 2)])]
    leaf = dict(name="Leaf", ports=[], sigs=[], bundles=[_b("bp", 0, port=True)],
                insts=[_i("e", ["ext", 0, 1], [["a", ["bm", "bp", ["x"]]]]), _i("f", ["ext", 1, 1], [["a", ["bm", "bp", ["y"]]]])])
    r2 = dict(name="R2", ports=[["a", 1, "inout"], ["b", 2, "inout"]], sigs=[], bundles=[],
              insts=[_i("e", ["ext", 0, 1], [["a", ["sig", "a"]]]), _i("f", ["ext", 1, 1], [["a", ["sig", "b"]]])])

    def top(conn, n=0):
        return dict(defs=defs, exts=[PIN, PIN2], top=1, style="proc", mods=[
            leaf, dict(name="T", ports=[], sigs=[["s", 1], ["w", 2]], bundles=[], insts=[_i("l", ["mod", 0], [["bp", conn]], n=n)])])
    out = [
        top(["anon", [["x", ["sig", "s"]], ["y", ["sig", "w"]], ["extra", ["sig", "s"]]], "kw"]),      # a member the port does not have
        top(["anon", [["x", ["sig", "s"]]], "kw"]),                                                    # a member is missing
        top(["anon", [["x", ["sig", "s"]], ["y", ["nc", 1, None]]], "kw"]),                            # a no-connect inside an anonymous bundle
        top(["anon", [["x", ["sig", "s"]], ["y", ["sig", "w"]], ["extra", ["sig", "s"]]], "dict"], n=2),
        dict(defs=[json.loads(json.dumps(c01b.DIFF))], exts=[PIN, PIN2], top=1, style="class", mods=[
            r2, dict(name="T1", ports=[], sigs=[["s", 1], ["w", 2], ["v", 2]], bundles=[],
                     insts=[_i("pr", ["mod", 0], [["a", ["sig", "s"]], ["b", ["anon", [["p", ["sig", "w"]], ["n", ["sig", "v"]], ["q", ["sig", "v"]]], "kw"]]], pair=True)])]),
    ]
    return out


WHAT = {2: "the model of the bundle passes rejects a design on which the implementation satisfies the property, or names the model fixes "
           "(flattened ports / signals, Pair members, terminals) differ from the implementation's (tie broken)",
        4: "the package of the model (bundle_passes then pipeline) does not have the nets of the bundle design (contradicts C01G_bundles_end_to_end)",
        5: "bundle_passes d differs from lower_m fl_impl (ib_design d) (contradicts C01G_bundle_passes_is_lower)",
        3: "a decidable hypothesis of the C01G theorems fails on a generated bundle design (harness or spec defect)"}


def designs_for(tier, seed):
    quick = tier == "quick"
    n = 260 if quick else 1500
    designs, k = [], 0
    while len(designs) < n:
        r = core.rng(seed, "C01", "bdesigns", k)
        k += 1
        d = c01b.gen_bdesign(r, size=r.choice([1, 2, 2]) if quick else r.choice([1, 2, 3]))
        if len(c01b.terminals(d)) > (110 if quick else 150):
            continue
        designs.append(d)
    return designs


def c_case(d, o):
    # module names in the package are qualified by the Python module of the builder: strip (as harness/vp/c01e.py does)
    o2 = o if o["pkg"] is None else dict(o, pkg=c01e.strip_qual(o["pkg"], d))
    return f"{{| fb_case := {c01b.c_case(d, o2)};\n  fb_xinfo := {c01e.c_xinfo(d)} |}}"


def evaluate(every, stream="bpasses", keep=False):
    outs = core.run_worker_sharded("c01b", [dict(design=d) for d in every])
    cases = [c_case(d, o) for d, o in zip(every, outs)]
    res = dict(core.coq_eval_cases("C01", stream, IMPORTS, "c01fb_case", cases, "run_cases (fun c => 100 + chk_c01g c)",
                                   chunk=12, timeout=1500, keep=keep))
    return outs, {i: res[i] - 100 for i in range(len(every))}


def run_tie(run, tier, seed):
    quick = tier == "quick"
    own = corpus()
    cs = own + c01b.corpus()
    every = cs + designs_for(tier, seed)
    outs, code = evaluate(every)
    m = len(every)
    count = lambda c: sum(1 for v in code.values() if v == c)
    feats = {}
    for d in every:
        for f, v in c01b.features(d).items():
            feats[f] = feats.get(f, 0) + int(bool(v))
    inside = count(0) + count(7)
    run.stream("bundle-passes", m, len({json.dumps(d) for d in every if sum(bool(v) for v in c01b.features(d).values()) >= 5}),
               corpus=len(cs), model_pkg_identical_to_impl=count(0), same_nets_and_names_invented_signals_differ=count(7),
               outside_frag_ok2=count(8), passes_result_not_wf=count(9), rejected_by_impl=sum(1 for o in outs if o["pkg"] is None),
               features=feats,
               rule="non-trivial = at least 5 of the bundle-fragment features of harness/vp/c01b.py; distinct by design",
               compared="Coq computes bundle_passes(d) (InstBundleElabPass + BundleFlattener model) and checks: = lower_m fl_impl (ib_design d); "
                        "names_ok_m, orbits computed / on nodes / closed, wf_design / frag_ok2 / xinfo_ok / terminals of the result; "
                        "elab_export_model2 of it: net labels on the mapped terminals = path-based labels of d; terminal names = the "
                        "implementation's; per module: ports (names, order, directions) and instance names equal, flattened signals "
                        "present with their widths; identical = pkg_eqb")
    if inside < (200 if quick else 1000):
        run.violation("C01:coverage:bundle-passes", f"coverage target missed: only {inside} of {m} bundle designs inside the hypotheses of C01G",
                      dict(kind="coverage"), found_input=False)
    order = sorted((i for i, c in code.items() if c not in (0, 7, 8, 9)), key=lambda i: (i >= len(cs), len(json.dumps(every[i]))))
    v1 = [i for i in order if code[i] in (1, 6)]
    for i in v1[:2]:
        what = "valid design rejected" if code[i] == 6 else "exported package differs from the written design (net partition / leaf devices / flattened port names)"
        run.violation("C01:bdesign:" + json.dumps(every[i], sort_keys=True), f"{what}: {json.dumps(outs[i]['err'])[:400]}",
                      dict(kind="impl-violates-spec", stream="bundle-passes", fragment="bundles", case=every[i], impl=outs[i], failing_cases=len(v1),
                           reproducer="build the design with harness/impl/c01b.BBuilder, h.to_proto, compare nets"))
    rest = [i for i in order if code[i] not in (1, 6)]
    for i in rest[:2]:
        c = code[i]
        run.violation(f"C01:bundle-passes:{c}:" + json.dumps(every[i], sort_keys=True), WHAT.get(c, f"code {c}"),
                      dict(kind="tie-broken" if c == 2 else "checker-inconsistency", code=c, stream="bundle-passes", fragment="bundles",
                           case=every[i], impl=outs[i], failing_cases=len(rest)), found_input=False)
    # malformed: what the passes must refuse
    bad_d = malformed()
    bouts = core.run_worker_sharded("c01b", [dict(design=d) for d in bad_d])
    bres = dict(core.coq_eval_cases("C01", "bpasses_bad", IMPORTS, "c01fb_case", [c_case(d, o) for d, o in zip(bad_d, bouts)],
                                    "run_cases (fun c => 100 + chk_c01g_reject c)", chunk=12, timeout=600))
    bcode = {i: bres[i] - 100 for i in range(len(bad_d))}
    run.stream("bundle-passes-malformed", len(bad_d), len({json.dumps(d) for d in bad_d}),
               refused_by_model_and_impl=sum(1 for v in bcode.values() if v == 0), rejected_by_impl=sum(1 for o in bouts if o["pkg"] is None),
               rule="every design has one connection the bundle passes must refuse (extra / missing / no-connect member of an anonymous bundle); distinct by design")
    for i, c in sorted(bcode.items()):
        if c != 0:
            what = ("the implementation exports a package for a connection the bundle passes must refuse (the model refuses it)" if c == 2
                    else "the model of the bundle passes does not refuse a malformed design (harness defect)")
            run.violation(f"C01:bundle-passes-malformed:{c}:" + json.dumps(bad_d[i], sort_keys=True), what,
                          dict(kind="tie-broken" if c == 2 else "harness-inconsistency", code=c, stream="bundle-passes-malformed", fragment="bundles",
                               case=bad_d[i], impl=bouts[i]), found_input=False)
    run.coverage["bundle_passes_tie"] = dict(designs=m, inside=inside, identical=count(0), invented_differ=count(7),
                                             outside_frag_ok2=count(8), not_wf=count(9))


def dev(seed=0, n=None, tier="quick"):
    """development helper: code histogram of the tie"""
    every = corpus() + c01b.corpus() + designs_for(tier, seed)
    if n is not None:
        every = every[:n]
    outs, code = evaluate(every, stream="bpdev")
    hist = {}
    for i, c in code.items():
        hist.setdefault(c, []).append(i)
    for c in sorted(hist):
        print(c, len(hist[c]), hist[c][:12])
    return every, outs, code
