"""C06 — every exported package is closed and self-consistent (DESIGN.md 6.9).

Every package is evaluated inside Coq by Corr/C06.v:chk_c06_full (wf_pkg + instance parameters + what from_proto and the
spice / spectre netlisters answered against Spec/C06Accept.v).  Packages come from
  corpus        fixed witnesses (repaired defects, recorded findings, the shapes past seeded changes needed)
  examples / generators / pdk     as before
  designs       harness/vp/design.py:gen_design, half of them ENRICHED (enrich below): ExternalModules in domains,
                same-named ones in other domains, twin objects of one declaration, dict- and paramclass-typed parameters
                with un-set (None) values, Modules defined in two Python files
  stressed      single-fault mutants, module-name clashes at every depth, conflicting external declarations
  foreign       the design generators of OTHER properties (C01 bundle fragment, C05 adversarial names, C10 bundle trees,
                C15 PDK compilation incl. ASAP7 default sizes, C16 flatten, C19 Series/MosStack/Wrapper) run through their own
                implementation drivers; every package any to_proto call returns there is captured (DESIGN.md 6.9)
  histories     (round 2) export / elaborate / netlist a design, point an instance below the top at a never-elaborated Module, export
                the same top again - on ONE interpreter state; every package returned on the way is judged
  held-names    (round 2) a Module holds an attribute under a name it does not carry (one object under two keys, re-naming); refusal is
                tied to Model/C06Held.v
and the exporter model (Model/C06Export.v) is tied to the implementation on every `designs` / `stressed` / corpus design:
module order, per-module references in instance order, external declarations in order, refusal on name conflicts."""
import json, copy
from . import core, design as D
from .core import cstr, cz, clist

IMPORTS = ("Require Import Hdl21.Base.PyInt Hdl21.Base.Design Hdl21.Base.Package Hdl21.Model.C06Export Hdl21.Model.C06Held Hdl21.Corr.C03 Hdl21.Corr.C06.")
EXAMPLES = ["ro", "rdac", "encoder", "mos_sim", "diff_ota", "idac", "bundles"]
MODEL_TYPES = ["RESISTOR", "CAPACITOR", "MOS", "DIODE", "BIPOLAR", "VSOURCE", "TLINE"]
PRIM_CLASS = {"Mos": "Mos", "R": "IdealResistor", "C": "IdealCapacitor", "Bjt": "Bipolar", "D": "Diode", "Res3": "ThreeTerminalResistor",
              "Vdc": "DcVoltageSource", "Vpulse": "PulseVoltageSource"}
LIBPREFIX = {None: "__main__.", "a": "c06liba.", "b": "c06libb."}     # the builder of harness/impl/c06.py runs as __main__
WHAT = {31: "an instance parameter without a name or a value, or a repeated parameter name",
        41: "from_proto rejects a well-formed package", 42: "a netlister rejects a well-formed package whose flat names are unique",
        50: "the netlisters reject a well-formed package: two of its names fall together in their flat name space",
        51: "the netlisters reject a well-formed package: an instance of a vlsir.primitives element lacks a parameter vlsirtools requires",
        3: "the flat-name-space / required-parameter model of the netlisters (Spec/C06Accept.v) disagrees with the netlisters"}


def short_key(job):
    """canonical JSON of the job; long ones are cut and closed with a digest of the whole"""
    import hashlib
    s = json.dumps(job, sort_keys=True)
    return s if len(s) <= 400 else s[:300] + "#" + hashlib.sha256(s.encode()).hexdigest()[:16]


def deep_nameclash(r, d):
    """Give a module the name of a module at least two instantiation levels below it (or the other way round)."""
    kids = {k: sorted({x["of"][1] for x in md["insts"] if x["of"][0] == "mod"}) for k, md in enumerate(d["mods"])}
    def below(k, depth):
        out, frontier = {}, {k}
        for lv in range(1, depth + 1):
            frontier = {c for f in frontier for c in kids[f]}
            for c in frontier:
                out.setdefault(c, lv)
        return out
    from .c02 import reachable
    pairs = [(a, b) for a in reachable(d) for b, lv in below(a, 6).items() if lv >= 2 and b not in kids[a]]
    if not pairs:
        return None
    a, b = r.choice(pairs)
    if r.random() < 0.5:
        d["mods"][b]["name"] = d["mods"][a]["name"]
    else:
        d["mods"][a]["name"] = d["mods"][b]["name"]
    return d


# ------------------------------------------------------------------------------------------------ enriched designs
PVALS = [None, None, 3, "fast", ["p", "1.5", "MICRO"], ["p", "2", "UNIT"], ["f", (0.25).hex()], ["l", "2*w"]]


def rand_params(r, ptype):
    if ptype == "class":
        d = dict(tag=r.randint(0, 3))
        if r.random() < 0.7:
            d["vt"] = r.choice([None, None, "lvt"])
        if r.random() < 0.6:
            d["m"] = r.choice([None, 2])
        if r.random() < 0.5:
            d["w"] = r.choice([None, ["p", "1.5", "MICRO"], ["l", "2*w"]])
        return d
    keys = r.sample(["tag", "w", "l", "nf", "mult", "model", "vt"], r.randint(1, 5))
    return {k: r.choice(PVALS) for k in keys}


def ext_insts(d, k):
    return [x for md in d["mods"] for x in md["insts"] if x["of"][0] == "ext" and x["of"][1] == k]


def enrich(r, d, conflict=False):
    """ExternalModules in domains; a same-named one in another domain (other netlist name space: the netlisters keep one flat
    space for sub-circuits and one for models); a twin OBJECT of identical declaration; dict / paramclass parameters with un-set
    values; Modules defined in two Python files. `conflict`: a twin whose declaration differs (to_proto must refuse)."""
    d = copy.deepcopy(d)
    exts = d["exts"]
    for x in exts:
        x["domain"] = r.choice([None, "", "libx", "liby"])
        x["ptype"] = r.choice(["dict", "dict", "class"])
        x["spice"] = "SUBCKT"
        x["lib"] = r.choice([None, None, "a"])
    feats = set()
    n0 = len(exts)
    for k in range(n0):
        users = ext_insts(d, k)
        if not users:
            continue
        x = exts[k]
        u = r.random()
        if u < 0.45:
            # same name, other domain, same Python file, identical ports; the other netlist name space
            twin = dict(x, domain=(x["domain"] or "") + "_2", spice=r.choice(MODEL_TYPES))
            feats.add("same_name_other_domain")
        elif u < 0.75:
            twin = copy.deepcopy(x)                     # a second OBJECT of the same declaration
            if conflict:
                if r.random() < 0.5:
                    twin["ports"] = twin["ports"] + [["zz", 1]]
                else:
                    twin["spice"] = r.choice(MODEL_TYPES)
                feats.add("conflicting_twin")
            else:
                feats.add("twin_object")
        else:
            continue
        exts.append(twin)
        moved = [y for y in users if r.random() < 0.5] or [users[-1]]
        if len(moved) == len(users) and len(users) > 1:
            moved = moved[1:]
        for y in moved:
            y["of"][1] = len(exts) - 1
            if "zz" in [p[0] for p in twin["ports"]] and "zz" not in [c[0] for c in y["conns"]]:
                y["conns"].append(["zz", ["sig", None]])      # filled below with a one-bit signal of the module
    for md in d["mods"]:
        one = [n for n, w in md["sigs"] if w == 1] + [n for n, w, _ in md["ports"] if w == 1]
        for y in md["insts"]:
            for c in y["conns"]:
                if c[1] == ["sig", None]:
                    if not one:
                        md["sigs"].append(["zz1", 1])
                        one.append("zz1")
                    c[1] = ["sig", one[0]]
            if y["of"][0] == "ext":
                y["of"][2] = rand_params(r, exts[y["of"][1]]["ptype"])
                if any(v is None for v in y["of"][2].values()):
                    feats.add("unset_" + exts[y["of"][1]]["ptype"] + "_param")
    libs = [r.choice([None, None, "a", "b"]) for _ in d["mods"]]
    for md, l in zip(d["mods"], libs):
        md["lib"] = l
    if len({l for l in libs}) > 1:
        feats.add("two_python_files")
    d["feats"] = sorted(feats)
    return d


# ------------------------------------------------------------------------------------------------ corpus
def _leaf(name="Leaf", lib=None):
    return dict(name=name, lib=lib, ports=[["a", 1, "inout"], ["b", 1, "inout"]], sigs=[],
                insts=[dict(name="r", n=0, of=["prim", "R", 1], conns=[["p", ["sig", "a"]], ["n", ["sig", "b"]]])])


def _ext(name="res", domain=None, ports=("p", "n"), ptype="dict", spice="SUBCKT", lib=None):
    return dict(name=name, domain=domain, ports=[[p, 1] for p in ports], ptype=ptype, spice=spice, lib=lib)


def _xi(name, k, params, ports=("p", "n"), nets=("x", "y", "x")):
    return dict(name=name, n=0, of=["ext", k, params], conns=[[p, ["sig", nets[i]]] for i, p in enumerate(ports)])


def _top(insts, exts, mods=(), name="Top"):
    mods = list(mods)
    return dict(mods=mods + [dict(name=name, ports=[], sigs=[["x", 1], ["y", 1]], insts=insts)], exts=exts, top=len(mods))


def corpus():
    """(label, design, expectation) — expectation: "ok" | "refused" (to_proto must raise) | "finding" (code 50, recorded)"""
    out = []
    # fixes/C06-1: two ExternalModule OBJECTS of one (domain, name) and one declaration were declared twice (from_proto and the
    # netlisters rejected the package); declared once now
    out.append(("twin-external-objects", _top([_xi("r1", 0, {"r": 1}), _xi("r2", 1, {"r": 2})],
                                              [_ext(domain="lib"), _ext(domain="lib")]), "ok"))
    out.append(("twin-external-objects-below", dict(mods=[
        dict(name="A", ports=[["x", 1, "inout"], ["y", 1, "inout"]], sigs=[], insts=[_xi("r1", 0, {"r": 1})]),
        dict(name="B", ports=[["x", 1, "inout"], ["y", 1, "inout"]], sigs=[], insts=[_xi("r1", 1, {"r": 1})]),
        dict(name="Top", ports=[], sigs=[["x", 1], ["y", 1]], insts=[
            dict(name="a", n=0, of=["mod", 0], conns=[["x", ["sig", "x"]], ["y", ["sig", "y"]]]),
            dict(name="b", n=0, of=["mod", 1], conns=[["x", ["sig", "x"]], ["y", ["sig", "y"]]])])],
        exts=[_ext(domain="lib"), _ext(domain="lib")], top=2), "ok"))
    # ... and two objects of one (domain, name) whose declarations differ are refused
    out.append(("conflicting-external-objects", _top([_xi("r1", 0, {"r": 1}), _xi("r2", 1, {"r": 2}, ports=("p", "n", "b"))],
                                                     [_ext(domain="lib"), _ext(domain="lib", ports=("p", "n", "b"))]), "refused"))
    # same name, two domains, one Python file, sub-circuit + model (the netlisters keep the two apart)
    out.append(("same-name-two-domains", dict(mods=[
        dict(name="Divider", ports=[["x", 1, "inout"], ["y", 1, "inout"]], sigs=[], insts=[
            _xi("r1", 0, {"r": 1000}, ports=("p", "n", "sub")), _xi("r2", 1, {"r": 2000})]),
        dict(name="Top", ports=[], sigs=[["x", 1], ["y", 1]], insts=[
            dict(name="d", n=0, of=["mod", 0], conns=[["x", ["sig", "x"]], ["y", ["sig", "y"]]])])],
        exts=[_ext(domain="vendor_lib", ports=("p", "n", "sub")), _ext(domain="foundry", spice="RESISTOR")], top=1), "ok"))
    # dict-typed parameters with un-set entries (what the ASAP7 compiler writes), paramclass with un-set Optional fields
    out.append(("dict-params-unset", _top([_xi("c", 0, {"drive": 2, "vt": None, "w": None, "l": ["p", "20", "NANO"]})],
                                          [_ext(name="cell", domain="lib")]), "ok"))
    out.append(("class-params-unset", _top([_xi("c", 0, {"tag": 2, "vt": None, "m": None, "w": ["p", "1.5", "MICRO"]})],
                                           [_ext(name="cell", domain="lib", ptype="class")]), "ok"))
    # ideal sources whose required parameters are given with the value 0 (a value, not "un-set")
    out.append(("ideal-sources-zero-values", _top([
        dict(name="v0", n=0, of=["prim", "Vdc", 0], conns=[["p", ["sig", "x"]], ["n", ["sig", "y"]]]),
        dict(name="v1", n=0, of=["prim", "Vpulse", 0], conns=[["p", ["sig", "y"]], ["n", ["sig", "x"]]]),
        dict(name="v2", n=0, of=["prim", "Vpulse", 1], conns=[["p", ["sig", "y"]], ["n", ["sig", "x"]]])], []), "ok"))
    # RECORDED FINDINGS: packages that are closed and self-consistent, yet refused by the spice and spectre netlisters because
    # the netlist languages have ONE name space (vlsirtools/netlist/base.py documents the limit)
    out.append(("flat-names-external-subckts", _top([_xi("r1", 0, {"r": 1}), _xi("r2", 1, {"r": 2})],
                                                    [_ext(domain="libA"), _ext(domain="libB")]), "finding"))
    out.append(("flat-names-modules", dict(mods=[_leaf("Inv", "a"), _leaf("Inv", "b"), dict(
        name="Top", ports=[], sigs=[["x", 1], ["y", 1]], insts=[
            dict(name="i1", n=0, of=["mod", 0], conns=[["a", ["sig", "x"]], ["b", ["sig", "y"]]]),
            dict(name="i2", n=0, of=["mod", 1], conns=[["a", ["sig", "x"]], ["b", ["sig", "y"]]])])], exts=[], top=2), "finding"))
    return out


def corpus_driver_jobs():
    """corpus witnesses that need another driver's language: (label, job, expectation)"""
    return [
        # RECORDED FINDING: Hdl21's ideal sources declare every parameter Optional; Vpulse() is exported without the parameters
        # vlsirtools requires of a vpulse, and both netlisters refuse the package ("Required parameter `v1` not specified")
        ("vpulse-without-parameters", dict(source="driver", driver="c19", fn="do",
                                           arg=dict(gen="wrapper", unit=dict(kind="prim", name="PulseVoltageSource"))), "finding"),
        ("vsin-without-parameters", dict(source="driver", driver="c19", fn="do",
                                         arg=dict(gen="wrapper", unit=dict(kind="prim", name="SineVoltageSource"))), "finding"),
    ]


# ------------------------------------------------------------------------------------------------ histories (strengthening round 2)
LATE_FAULTS = ["missing", "width", "extra", "array_width", "array_missing", "width_ref"]
DEVS_RC = [("R", 2), ("C", 2)]


def _copy_late(d, k, subtree):
    """Append a copy of module k (with `subtree`: of everything below it too) under new names; returns {old index: new index}."""
    todo, order = [k], []
    while todo:
        a = todo.pop()
        if a in order:
            continue
        order.append(a)
        if subtree:
            todo += [x["of"][1] for x in d["mods"][a]["insts"] if x["of"][0] == "mod"]
    order.sort()                         # children keep a lower index than their parents
    remap = {}
    for a in order:
        md = copy.deepcopy(d["mods"][a])
        md["name"] = md["name"] + "V2"
        remap[a] = len(d["mods"])
        d["mods"].append(md)
    for a in order:
        for x in d["mods"][remap[a]]["insts"]:
            if x["of"][0] == "mod" and x["of"][1] in remap:
                x["of"][1] = remap[x["of"][1]]
    return remap


def _iface_change(r, md):
    """Another port list for the (otherwise valid) late module: a port added; a port the module does not use dropped or resized."""
    s = json.dumps(md["insts"])
    unused = [p for p in md["ports"] if json.dumps(["sig", p[0]]) not in s]
    u = r.random()
    if unused and u < 0.8:
        p = r.choice(unused)
        if u < 0.25:
            md["ports"].remove(p)
            return "port-dropped"
        p[1] += r.choice([1, 2])
        return "port-resized"
    md["ports"].append(["zq", r.choice([1, 2]), "inout"])
    return "port-added"


def gen_history(r, mode=None):
    """A valid design, exported / elaborated / netlisted; then an instance below the top is pointed at a Module that has never been
    elaborated (a revised copy of its target: the assignment HierarchyWalker, PDK compilation and a designer make); then the same top
    is exported again. mode: same (valid copy) | fault (one connection fault only elaboration reports, in the copy) | subtree-fault
    (copy of the whole sub-hierarchy, fault anywhere in it) | iface (valid copy with another port list: the PARENT no longer fits) |
    none-first (no elaboration before the re-targeting)."""
    from . import c02 as M
    mode = mode or r.choice(["same", "same", "fault", "fault", "subtree-fault", "iface", "none-first"])
    for _ in range(60):
        d = D.gen_design(r, size=r.choice([2, 3]), devs=DEVS_RC, reconnect=r.random() < 0.3)
        reach = sorted(M.reachable(d))
        sites = [(pi, x) for pi in reach for x in d["mods"][pi]["insts"] if x["of"][0] == "mod"]
        if not sites:
            continue
        pi, x = r.choice(sites)
        k = x["of"][1]
        n0 = len(d["mods"])
        remap = _copy_late(d, k, subtree=(mode == "subtree-fault" or r.random() < 0.25))
        L = remap[k]
        late = sorted(remap.values())
        info = dict(mode=mode)
        if mode in ("fault", "subtree-fault"):
            st = [s for s in M.sites(d) if s[0] in late]
            done = None
            for _ in range(12):
                if not st:
                    break
                kind = r.choice(LATE_FAULTS)
                done = M.MUTATORS[kind](r, copy.deepcopy(d), r.choice(st))
                if done is not None:
                    d, info["fault"] = done, kind
                    break
            if done is None:
                continue
        if mode == "iface":
            info["iface"] = _iface_change(r, d["mods"][L])
        top = d["top"]
        first = None if mode == "none-first" else r.choice([["export", top], ["export", top], ["elaborate", top], ["netlist", top, "spice"],
                                                            ["export", pi], ["elaborate", pi], ["export2", pi, top]])
        ops = ([first] if first else []) + [["retarget", pi, k, L, r.choice([None, None, 0, 1])], ["export", top]]
        if r.random() < 0.3:
            ops += [["retarget", pi, L, k, None], ["export", top]]          # and back to the original child
        d["late"] = late if r.random() < 0.7 else []                        # built when first needed / built with the rest
        info["late_arrays"] = int(any(y["n"] > 0 for a in late for y in d["mods"][a]["insts"]))
        info["late_needs_elab"] = int(any(t in json.dumps([d["mods"][a]["insts"] for a in late]) for t in ('"ref"', '"nc"', '"cat"', '"sl"'))
                                      or info["late_arrays"])
        return dict(source="history", design=d, ops=ops, hist=info)
    return None


def _hist_corpus():
    """fixed histories: (label, job)"""
    leaf = dict(name="Leaf", ports=[["a", 1, "inout"], ["b", 2, "inout"]], sigs=[], insts=[
        dict(name="r", n=0, of=["prim", "R", 1], conns=[["p", ["sig", "a"]], ["n", ["sl", ["sig", "b"], ["i", 0]]]])])
    child = lambda name, insts, ports=None: dict(name=name, ports=ports or [["p", 1, "inout"], ["q", 2, "inout"]], sigs=[], insts=insts)
    li = lambda name, conns: dict(name=name, n=0, of=["mod", 0], conns=conns)
    ri = lambda name, conns, n=0: dict(name=name, n=n, of=["prim", "R", 1], conns=conns)
    v1 = child("ChildV1", [li("leaf", [["a", ["sig", "p"]], ["b", ["sig", "q"]]])])
    top = dict(name="Top", ports=[], sigs=[["s", 1], ["t", 2]], insts=[
        dict(name="c", n=0, of=["mod", 1], conns=[["p", ["sig", "s"]], ["q", ["sig", "t"]]])])
    ops = [["export", 2], ["retarget", 2, 1, 3, None], ["export", 2]]
    mk = lambda v2, late=(3,): dict(source="history", design=dict(mods=[leaf, v1, top, v2], exts=[], top=2, late=list(late)), ops=ops)
    out = []
    # the seeded change C06r4-B: the revised child leaves a port of a Module / of a primitive unconnected, feeds a port a wrong width
    out.append(("revised-child-module-port-unconnected", mk(child("ChildV2", [li("leaf1", [["a", ["sig", "p"]]]),
                                                                              li("leaf2", [["a", ["sig", "p"]], ["b", ["sig", "p"]]])]))))
    out.append(("revised-child-primitive-port-unconnected", mk(child("ChildV2", [ri("r1", [["p", ["sig", "p"]]])]))))
    out.append(("revised-child-primitive-wrong-width", mk(child("ChildV2", [ri("r1", [["p", ["sig", "p"]], ["n", ["sig", "q"]]])]))))
    out.append(("revised-child-with-array-and-slices", mk(child("ChildV2", [
        ri("ra", [["p", ["sig", "p"]], ["n", ["sig", "q"]]], n=2), ri("rb", [["p", ["sl", ["sig", "q"], ["i", 1]]], ["n", ["ref", "rc", "p"]]]),
        ri("rc", [["n", ["sig", "p"]]])]))))
    # fixes/C06-2: the revised child is valid but has another port list: the PARENT, elaborated before, no longer fits
    out.append(("revised-child-other-ports", mk(child("ChildV2", [ri("r1", [["p", ["sig", "p"]], ["n", ["sl", ["sig", "q"], ["i", 2]]]])],
                                                      ports=[["p", 1, "inout"], ["q", 3, "inout"], ["r", 1, "inout"]]))))
    out.append(("revised-child-other-width", mk(child("ChildV2", [ri("r1", [["p", ["sig", "p"]], ["n", ["sl", ["sig", "q"], ["i", 2]]]])],
                                                      ports=[["p", 1, "inout"], ["q", 3, "inout"]]))))
    return out


# ------------------------------------------------------------------------------------------------ held names
def held_model(md):
    """The Module's namespace as the model sees it: operations (HSet key obj | HRename obj name) in the order the builder and the
    held-name operations perform them. Objects are numbered in creation order."""
    ops, ns = [], {}
    nxt = [0]
    def new(key):
        ns[key] = nxt[0]
        ops.append(["set", key, nxt[0]])
        nxt[0] += 1
    for p in md["ports"]:
        new(p[0])
    for g in md["sigs"]:
        new(g[0])
    for x in md["insts"]:
        new(x["name"])
    for op in md.get("held", []):
        if op[0] == "alias":
            ns[op[2]] = ns[op[1]]
            ops.append(["set", op[2], ns[op[1]]])
        elif op[0] == "rename":
            ops.append(["ren", ns[op[1]], op[2]])
        elif op[0] == "replace":
            new(op[1])
    if md.get("style") == "classbody":
        # h.module makes a NEW Module and sets every key of the class namespace on it: each object takes (again) the name of the key it
        # is bound to, the last one if it is bound to several; what was re-named before is named by its key again
        ops = [["set", key, o] for key, o in ns.items()]
    return ops


def gen_held(r):
    """A valid design in which ONE module then holds an attribute under a name it does not carry (one object under two keys: chained
    assignment in a class body, m.second = m.first, m.add; or an attribute re-named after it was added) - Orphanage must refuse it,
    the exporter would write the carried name twice - or (valid) has an instance replaced under its own key."""
    from . import c02 as M
    for _ in range(40):
        d = D.gen_design(r, size=r.choice([1, 2, 2]), devs=DEVS_RC, arrays=r.random() < 0.6)
        mi = r.choice(sorted(M.reachable(d)))
        md = d["mods"][mi]
        names = dict(port=[p[0] for p in md["ports"]], sig=[g[0] for g in md["sigs"]],
                     inst=[x["name"] for x in md["insts"] if x["n"] == 0], array=[x["name"] for x in md["insts"] if x["n"] > 0])
        kind = r.choice(["inst", "inst", "inst", "array", "array", "sig", "port"])
        if not names[kind]:
            continue
        old = r.choice(names[kind])
        allnames = [n for v in names.values() for n in v]
        what = r.choice(["alias", "alias", "rename", "rename", "replace"])
        if what == "alias":
            new = r.choice([old + "b", old + "b", r.choice(allnames)])
            if new == old:
                continue
            md["held"] = [["alias", old, new, r.choice(["setattr", "add"])]]
        elif what == "rename":
            new = r.choice([old + "b", r.choice(names[kind]), r.choice(allnames)])
            if new == old:
                continue
            md["held"] = [["rename", old, new]]
        else:
            if kind not in ("inst", "array") or json.dumps(["ref", old])[:-1] in json.dumps(md["insts"]):
                continue
            x = D.find_inst(md, old)
            if any(c[1][0] in ("ref",) for c in x["conns"]):
                continue
            md["held"] = [["replace", old]]
        if md.get("lib") is None and r.random() < 0.4:
            md["style"] = "classbody"
        return dict(source="history", design=d, ops=[["export", d["top"]]], held=dict(mod=mi, kind=kind, what=what, style=md.get("style", "proc")))
    return None


def _held_corpus():
    inv = dict(name="Inv", ports=[["i", 1, "in"], ["o", 1, "out"]], sigs=[], insts=[
        dict(name="r", n=0, of=["prim", "R", 1], conns=[["p", ["sig", "i"]], ["n", ["sig", "o"]]])])
    ii = lambda name, a, b: dict(name=name, n=0, of=["mod", 0], conns=[["i", ["sig", a]], ["o", ["sig", b]]])
    buf = lambda held, style=None, insts=None: dict(name="Buf", ports=[["a", 1, "in"], ["z", 1, "out"]], sigs=[["mid", 1]],
                                                     insts=insts or [ii("first", "a", "mid")], held=held, **({"style": style} if style else {}))
    mk = lambda b: dict(source="history", design=dict(mods=[inv, b], exts=[], top=1), ops=[["export", 1]], held=dict(mod=1, kind="inst", what=b["held"][0][0],
                                                                                                                      style=b.get("style", "proc")))
    return [("chained-assignment-in-class-body", mk(buf([["alias", "first", "second", "setattr"]], style="classbody"))),
            ("one-instance-under-two-names", mk(buf([["alias", "first", "second", "setattr"]]))),
            ("instance-renamed-after-adding", mk(buf([["rename", "first", "second"]], insts=[ii("first", "a", "mid"), ii("second", "mid", "z")]))),
            ("signal-under-two-names", mk(buf([["alias", "mid", "mid2", "setattr"]]))),
            ("instance-replaced-under-its-key", mk(buf([["replace", "first"]])))]


def c_held_case(job, out):
    md = job["design"]["mods"][job["held"]["mod"]]
    hop = lambda o: f"HSet {cstr(o[1])} {o[2]}%nat" if o[0] == "set" else f"HRename {o[1]}%nat {cstr(o[2])}"
    return f"{{| hc_ops := {clist(held_model(md), hop)}; hc_refused := {'false' if out['pkgs'] else 'true'} |}}"


# ------------------------------------------------------------------------------------------------ Coq printers
def c_case(p):
    code = lambda v: 0 if v is None else (2 if isinstance(v, str) and v.startswith("skipped") else 1)
    a = p["accept"]
    return (f"{{| cc_pkg := {D.c_pkg(p['pkg'])};\n   cc_from := {code(a['from_proto'])}; cc_spice := {code(a['spice'])}; "
            f"cc_spectre := {code(a['spectre'])} |}}")


def c_pext_of_design(x):
    return (f"{{| px_domain := {cstr(x.get('domain') or '')}; px_name := {cstr(x['name'])}; "
            f"px_ports := {clist(x['ports'], lambda s: f'({cstr(s[0])}, {cz(s[1])}, 3)')}; px_spicetype := {cstr(x.get('spice') or 'SUBCKT')} |}}")


def c_cref(of):
    if of[0] == "mod":
        return f"CMod {of[1]}"
    if of[0] == "ext":
        return f"CExt {of[1]}"
    return f"CPrim {cstr(PRIM_CLASS[of[1]])}"


def c_cinst(x):
    return "(" + c_cref(x["of"]) + ", " + cz(x["n"]) + ")"


def c_cmod(md):
    return "(" + cstr(LIBPREFIX[md.get("lib")] + md["name"]) + ", " + clist(md["insts"], c_cinst) + ")"


def c_order_case(design, out):
    impl = f"(Some {D.c_pkg(out['pkgs'][0]['pkg'])})" if out["pkgs"] else "None"
    return (f"{{| oc_mods := {clist(design['mods'], c_cmod)};\n   oc_xheap := {clist(design.get('exts', []), c_pext_of_design)}; "
            f"oc_top := {design['top']};\n   oc_impl := {impl} |}}")


def tie_scope(job, out):
    """The exporter model speaks about designs that reach the exporter: exported, or refused BY THE EXPORTER."""
    if job.get("source") != "design" or any(md["name"] is None for md in job["design"]["mods"]):
        return False
    if out["pkgs"]:
        return True
    return out.get("stage") == "export" and (out["err"] or {}).get("cls") == "RuntimeError"


# ------------------------------------------------------------------------------------------------ foreign generators
def flat_clash_features(design):
    """C01-bundle designs: a designer signal named like a flattened bundle member (b_x), its width, whether it is connected."""
    from . import c01b
    f = dict(clash=0, clash_other_width=0, clash_connected=0)
    s_all = json.dumps(design)
    for md in design["mods"]:
        sig = {n: w for n, w in md["sigs"]}
        sig.update({p[0]: p[1] for p in md["ports"]})
        for b in md["bundles"]:
            for path, w in c01b.def_members(design["defs"], b["d"]):
                nm = "_".join([b["n"]] + path)
                if nm in sig:
                    f["clash"] = 1
                    if sig[nm] != w:
                        f["clash_other_width"] = 1
                        if json.dumps(["sig", nm]) in json.dumps(md["insts"]):
                            f["clash_connected"] = 1
    return f


def foreign_jobs(seed, quick):
    """(jobs, measured extras). Each job runs another property's driver on one of its own jobs."""
    from . import c01b, c05, c10, c15, c16, c19
    jobs = []
    J = lambda drv, fn, arg, **kw: jobs.append(dict(source="driver", driver=drv, fn=fn, arg=arg, **kw))
    # C01 bundle fragment
    nb = 150 if quick else 2500
    for d in c01b.corpus():
        J("c01b", "do", dict(design=d))
    k = made = 0
    while made < nb:
        r = core.rng(seed, "C06", "f-c01b", k)
        k += 1
        d = c01b.gen_bdesign(r, size=r.choice([1, 2, 2]))
        if len(json.dumps(d)) > 9000:
            continue
        made += 1
        J("c01b", "do", dict(design=d), feats=flat_clash_features(d))
    # C05 adversarial names
    for d in c05.corpus():
        J("c05", "do_design", dict(kind="design", design=d))
    n5 = 50 if quick else 1200
    k = made = 0
    while made < n5:
        r = core.rng(seed, "C06", "f-c05a", k)
        k += 1
        base = D.gen_design(r, size=r.choice([1, 2, 2]), nested=r.random() < 0.5)
        base["bdefs"] = []
        c05.add_ref_groups(base, r)
        adv, _ = c05.adversarial(base, r)
        made += 1
        J("c05", "do_design", dict(kind="design", design=c05.with_order(adv, bool(made % 2))))
    for k in range(n5):
        r = core.rng(seed, "C06", "f-c05s", k)
        adv, _ = c05.adversarial(c05.gen_structured(r), r, rounds=r.choice([1, 2, 2]))
        J("c05", "do_design", dict(kind="design", design=c05.with_order(adv, bool(k % 2))))
    # C10 bundle trees
    cs = c10.corpus() + [c10.gen_case(core.rng(seed, "C06", "f-c10", k)) for k in range(60 if quick else 1500)]
    for c in cs:
        J("c10", "do_case", c)
    # C16 flatten: the hierarchy and what flatten() returns
    for d in c16.corpus():
        J("c16", "do", dict(design=d))
    for k in range(50 if quick else 1200):
        r = core.rng(seed, "C06", "f-c16", k)
        d = c16.gen_hier(r, size=r.choice([1, 2, 2, 3]))
        if r.random() < 0.35:
            d = c16.adversarial(r, d)
        J("c16", "do", dict(design=d))
    # C19 built-in generators over their parameter ranges
    plist = core.run_worker("c19", dict(kind="list"))["results"]
    prims = {p["name"]: p["ports"] for p in plist}
    prim_units = [dict(kind="prim", name=p["name"]) for p in plist if 2 <= len(p["ports"]) <= 4]
    ns = list(range(1, 5 if quick else 13))
    r = core.rng(seed, "C06", "f-c19")
    pool = (c19.series_jobs(prim_units, prims, ns, ["name", "port"]) +
            c19.series_jobs(c19.EXT_UNITS + c19.MOD_UNITS, prims, ns, ["name", "port", "fresh"], pre_modes=(False, True)))
    pick = r.sample(pool, min(len(pool), 90 if quick else 2500))
    pick += [dict(gen="mosstack", unit=u, nser=n) for u in c19.MOS_UNITS for n in ns[:3] + [None]]
    pick += [dict(gen="wrapper", unit=u) for u in prim_units[:6] + c19.EXT_UNITS + c19.MOD_UNITS]
    for j in c19.corpus_jobs() + pick:
        J("c19", "do", j)
    # C15 PDK compilation: every ASAP7 / sample request of the exhaustive selection (default, given, partial and literal sizes),
    # a sample of the Sky130 / GF180 ones, hierarchies
    tables = core.run_worker("c15", dict(kind="tables"))["results"]
    sel = c15.select_jobs(tables, quick)
    small = [j for j in sel if j["pdk"] in ("asap7", "sample")]
    big = [j for j in sel if j["pdk"] not in ("asap7", "sample")]
    r = core.rng(seed, "C06", "f-c15")
    pj = c15.corpus_jobs() + small + r.sample(big, min(len(big), 60 if quick else 1500))
    pj += [c15.hier_job(core.rng(seed, "C06", "f-c15h", k), tables) for k in range(50 if quick else 1200)]
    for i, j in enumerate(pj):
        j = dict(j, id=i)
        default_sizes = (j["pdk"] == "asap7" and all(it.get("t") != "prim" or ("w" not in it["params"] and "l" not in it["params"])
                                                      for md in j["mods"] for it in md["insts"]))
        J("c15", "do_design", j, feats=dict(pdk=j["pdk"], asap7_default_sizes=int(default_sizes)))
    return jobs


# ------------------------------------------------------------------------------------------------ run
def run(run, tier, seed, replay=None):
    quick = tier == "quick"
    jobs = []
    cp = corpus()
    for label, d, expect in cp:
        jobs.append(dict(source="design", design=d, corpus=label, expect=expect))
    for label, j, expect in corpus_driver_jobs():
        jobs.append(dict(j, corpus=label, expect=expect))
    for ex in EXAMPLES:
        jobs.append(dict(source="example", example=ex, repo=core.REPO))
    for n in range(1, 5 if quick else 13):
        jobs.append(dict(source="generator", gen="MosStack", n=n))
        jobs.append(dict(source="generator", gen="SeriesR", n=n))
        jobs.append(dict(source="generator", gen="SeriesMos", n=n, pair=["g", "b"] if n % 2 else ["d", "s"]))
        jobs.append(dict(source="generator", gen="Wrapper", n=n))
        jobs.append(dict(source="pdk", n=n))
    ndes = 250 if quick else 5000
    for k in range(ndes):
        r = core.rng(seed, "C06", "designs", k)
        d = D.gen_design(r, size=r.choice([1, 2, 3]), devs=[("R", 2), ("C", 2)] if k % 3 else None, reconnect=True)
        if k % 2 and d["exts"]:
            d = enrich(r, d)
            jobs.append(dict(source="design", design=d, enriched=True))
        else:
            jobs.append(dict(source="design", design=d))
    # designs built around external modules (every second gen_design has none): one or two modules, mostly external instances
    for k in range(120 if quick else 2500):
        r = core.rng(seed, "C06", "extdesigns", k)
        d = None
        for _ in range(20):
            d = D.gen_design(r, size=r.choice([1, 2]), devs=[("R", 2), ("C", 2)])
            if sum(len(ext_insts(d, j)) for j in range(len(d["exts"]))) >= 2:
                break
        jobs.append(dict(source="design", design=enrich(r, d), enriched=True))
    # stressed designs: single-fault mutants of valid designs (the C02 mutators), module-name clashes at every depth and
    # conflicting external declarations. Most are rejected by the implementation, which is fine here: whatever package IS
    # returned must be well-formed - and what the exporter refuses, the exporter model must refuse.
    from . import c02 as M
    nstress = 200 if quick else 4000
    k = made = 0
    stress_kinds = {}
    while made < nstress and k < 20 * nstress:
        r = core.rng(seed, "C06", "stress", k)
        k += 1
        base = D.gen_design(r, size=r.choice([2, 3]), devs=[("R", 2), ("C", 2)])
        kind = r.choice(["index", "index", "empty", "nameclash", "deepclash", "deepclash", "width", "array_width", "extra", "missing",
                         "unnamed", "extconflict", "extconflict"])
        if kind == "deepclash":
            mut = deep_nameclash(r, copy.deepcopy(base))
        elif kind == "extconflict":
            mut = enrich(r, base, conflict=True)
            if "conflicting_twin" not in mut["feats"]:
                mut = None
        else:
            st = M.sites(base)
            mut = M.MUTATORS[kind](r, copy.deepcopy(base), r.choice(st)) if st else None
        if mut is None:
            continue
        made += 1
        stress_kinds[kind] = stress_kinds.get(kind, 0) + 1
        jobs.append(dict(source="design", design=mut, stress=kind))
    # histories: a design is exported / elaborated, an instance below the top is pointed at a never-elaborated Module, the top is
    # exported again; and designs in which a Module holds an attribute under a name it does not carry
    for label, j in _hist_corpus() + _held_corpus():
        jobs.append(dict(j, corpus=label, expect="any"))
    for k in range(140 if quick else 3000):
        j = gen_history(core.rng(seed, "C06", "history", k))
        if j is not None:
            jobs.append(j)
    for k in range(90 if quick else 2000):
        j = gen_held(core.rng(seed, "C06", "held", k))
        if j is not None:
            jobs.append(j)
    fj = foreign_jobs(seed, quick)
    jobs += fj
    if replay is not None:
        jobs = [replay["job"]]
    # examples share process-global caches with nothing: one interpreter per example; everything else sharded
    ex_jobs = [j for j in jobs if j["source"] == "example"]
    other = [j for j in jobs if j["source"] != "example"]
    strip = lambda j: {k: v for k, v in j.items() if k not in ("feats", "corpus", "expect", "enriched", "stress", "hist", "held")}
    ex_outs = [core.run_worker("c06", dict(jobs=[strip(j)]), timeout=600)["results"][0] for j in ex_jobs]
    other_outs = core.run_worker_sharded("c06", [strip(j) for j in other])
    jobs = ex_jobs + other
    outs = ex_outs + other_outs
    pk, owner = [], []
    for ji, o in enumerate(outs):
        if o["err"] is not None and jobs[ji]["source"] not in ("design", "driver", "history"):
            run.violation(f"C06:source:{json.dumps(jobs[ji], sort_keys=True)[:200]}", f"package source failed: {o['err']}",
                          dict(kind="source-failed", job=jobs[ji], err=o["err"]), found_input=False)
        if o["err"] is not None and jobs[ji]["source"] == "driver":
            run.violation(f"C06:driver:{jobs[ji]['driver']}", f"driver {jobs[ji]['driver']} could not be run on its own job: {o['err']}",
                          dict(kind="adapter-failed", job=jobs[ji], err=o["err"]), found_input=False)
        for p in o["pkgs"]:
            pk.append(p)
            owner.append(ji)
    key_of = lambda ji: short_key(strip(jobs[ji]))
    # ---- every package: wf_pkg + parameters + the three consumers
    bad = core.coq_eval_cases("C06", "pkgs", IMPORTS, "c06_case", [c_case(p) for p in pk], "run_cases chk_c06_full", chunk=50)
    size = lambda i: len(json.dumps(pk[i]["pkg"]))
    groups = {}
    for i, code in bad:
        groups.setdefault(code, []).append(i)
    from . import c15
    for code, idx in sorted(groups.items()):
        if code in (50, 51):
            # recorded findings are matched by the exact key of their corpus witness (required parameters of an ideal source met in the
            # C19 stream: one key per primitive); any other package of the class is reported too
            def k5(i):
                j = jobs[owner[i]]
                if code == 51 and j["source"] == "driver" and j["driver"] == "c19" and (j["arg"].get("unit") or {}).get("kind") == "prim":
                    return "C06:required-params:prim:" + j["arg"]["unit"]["name"]
                return ("C06:flatnames:" if code == 50 else "C06:required-params:") + key_of(owner[i])
            byk = {}
            for i in idx:
                byk.setdefault(k5(i), []).append(i)
            knownk = {k.get("key") for k in run.known if k.get("status") == "finding"}
            fresh = 0
            for k, ii in sorted(byk.items()):
                if k not in knownk:
                    fresh += 1
                    if fresh > 3:
                        continue
                i = sorted(ii, key=size)[0]
                run.violation(k, WHAT[code], dict(kind="impl-violates-spec", job=strip(jobs[owner[i]]), pkg=pk[i]["pkg"], code=code,
                                                  accept=pk[i]["accept"], failing=len(ii)))
            continue
        rest = []
        if code in (19, 20):
            # PDK devices with a port the generic primitive does not have (recorded findings of C15, C15:ports:* / C15:arity:*): the
            # compiled instance leaves that port unconnected, and to_proto returns the package. One report per (pdk, primitive, model).
            sel = {}
            for i in idx:
                j = jobs[owner[i]]
                if j["source"] == "driver" and j["driver"] == "c15" and c15.is_single(j["arg"]):
                    a = j["arg"]
                    k = (f"C06:pdk-arity:{a['pdk']}:{a['mods'][0]['insts'][0]['prim']}" if a.get("arity") == "cross"
                         else "C06:pdk-ports:" + c15.selector(a))
                    sel.setdefault(k, []).append(i)
                else:
                    rest.append(i)
            for k, ii in sorted(sel.items()):
                i = sorted(ii, key=size)[0]
                run.violation(k, "a PDK-compiled instance does not connect every port of its device (wf_pkg error code 19)" if code == 19
                              else "a PDK-compiled instance connects a port its device does not have (wf_pkg error code 20)",
                              dict(kind="impl-violates-spec", job=strip(jobs[owner[i]]), pkg=pk[i]["pkg"], code=code, failing=len(ii)))
        else:
            rest = idx
        for i in sorted(rest, key=size)[:2]:
            what = WHAT.get(code, f"exported package is not well-formed (wf_pkg error code {code})")
            run.violation(f"C06:{'wf' if code >= 11 and code < 41 else 'accept'}:" + key_of(owner[i]), what,
                          dict(kind="spec-inconsistency" if code == 3 else "impl-violates-spec", job=strip(jobs[owner[i]]), pkg=pk[i]["pkg"],
                               code=code, accept=pk[i]["accept"], failing=len(rest)), found_input=code != 3)
    # ---- corpus expectations
    for ji, j in enumerate(jobs):
        if j.get("expect") == "refused" and outs[ji]["pkgs"]:
            run.violation("C06:corpus:" + j["corpus"], "to_proto returned a package for two ExternalModules of one (domain, name) with different declarations",
                          dict(kind="impl-violates-spec", job=strip(j), pkg=outs[ji]["pkgs"][0]["pkg"]))
        if j.get("expect") in ("ok", "finding") and not outs[ji]["pkgs"]:   # ("any": history / held witnesses - refusing is right too)
            run.violation("C06:corpus:" + j["corpus"], f"corpus design was not exported: {outs[ji]['err']}",
                          dict(kind="source-failed", job=strip(j), err=outs[ji]["err"]), found_input=False)
        if j.get("expect") == "finding" and outs[ji]["pkgs"] and not any(1 for i, c in bad if c in (50, 51) and owner[i] == ji):
            run.violation("C06:corpus-stale:" + j["corpus"], "a recorded finding no longer reproduces (netlisters accept the package): update tools/findings/C06.json",
                          dict(kind="stale-finding", job=strip(j)), found_input=False)
    # ---- tie of the exporter model
    tied = [ji for ji, j in enumerate(jobs) if tie_scope(j, outs[ji])]
    obad = core.coq_eval_cases("C06", "order", IMPORTS, "c06_order_case", [c_order_case(jobs[ji]["design"], outs[ji]) for ji in tied],
                               "run_cases chk_c06_order", chunk=80)
    for i, code in sorted(obad, key=lambda ic: len(json.dumps(jobs[tied[ic[0]]]["design"])))[:2]:
        ji = tied[i]
        run.violation("C06:order-tie:" + key_of(ji),
                      "exporter model and implementation differ (module order / references / external declarations / refusal)" if code == 2
                      else "exporter model could not be evaluated (unknown primitive or fuel)",
                      dict(kind="tie-broken", job=strip(jobs[ji]), impl=outs[ji], code=code, failing=len(obad)), found_input=False)
    # ---- histories and held names: tie of the held-name model; coverage targets (fail closed)
    hj = [ji for ji, j in enumerate(jobs) if j["source"] == "history"]
    for ji in hj:
        if outs[ji]["err"] is not None:         # the builder itself failed: the history was never run
            run.violation("C06:history-build:" + key_of(ji), f"history could not be built: {outs[ji]['err']}",
                          dict(kind="source-failed", job=strip(jobs[ji]), err=outs[ji]["err"]), found_input=False)
    heldj = [ji for ji in hj if jobs[ji].get("held") and outs[ji]["err"] is None]
    hbad = core.coq_eval_cases("C06", "held", IMPORTS, "c06_held_case", [c_held_case(jobs[ji], outs[ji]) for ji in heldj],
                               "run_cases chk_c06_held", chunk=100)
    for i, code in sorted(hbad, key=lambda ic: len(json.dumps(jobs[heldj[ic[0]]]["design"])))[:2]:
        ji = heldj[i]
        run.violation("C06:held-tie:" + key_of(ji),
                      "held-name model and implementation differ: " + ("a Module holding an attribute under a name it does not carry was exported"
                                                                      if outs[ji]["pkgs"] else "a Module whose attributes carry the names they are held under was refused"),
                      dict(kind="tie-broken", job=strip(jobs[ji]), held=jobs[ji]["held"], impl=dict(log=outs[ji].get("log"), pkgs=len(outs[ji]["pkgs"])),
                           code=code, failing=len(hbad)), found_input=bool(outs[ji]["pkgs"]))
    hstat = dict(jobs=0, by_mode={}, exported_after_retarget=0, refused_after_retarget=0, after_elaboration=0,
                 late_needs_elab_exported=0, late_arrays_exported=0, fault_refused=0, fault_exported=0, iface_refused=0, iface_exported=0,
                 back_exported=0, iface_refused_by_kind={})
    for ji in hj:
        info = jobs[ji].get("hist")
        log = outs[ji].get("log")
        if info is None and jobs[ji].get("corpus") and not jobs[ji].get("held"):
            info = dict(mode="corpus")
        if info is None or log is None:
            continue
        hstat["jobs"] += 1
        hstat["by_mode"][info["mode"]] = hstat["by_mode"].get(info["mode"], 0) + 1
        ops = jobs[ji]["ops"]
        first_rt = [i for i, o in enumerate(ops) if o[0] == "retarget"][0]
        elaborated_before = any(l["err"] is None for l in log[:first_rt])
        nxt = log[first_rt + 1]
        moved = log[first_rt].get("moved", 0) > 0
        ok = nxt["err"] is None and nxt.get("pkgs", 0) > 0
        if moved and elaborated_before:
            hstat["after_elaboration"] += 1
            hstat["exported_after_retarget" if ok else "refused_after_retarget"] += 1
            if ok:
                hstat["late_needs_elab_exported"] += info.get("late_needs_elab", 0)
                hstat["late_arrays_exported"] += info.get("late_arrays", 0)
            if info["mode"] in ("fault", "subtree-fault"):
                hstat["fault_exported" if ok else "fault_refused"] += 1
            if info["mode"] == "iface":
                hstat["iface_exported" if ok else "iface_refused"] += 1
                if not ok:
                    hstat["iface_refused_by_kind"][info["iface"]] = hstat["iface_refused_by_kind"].get(info["iface"], 0) + 1
            if len(log) > first_rt + 3 and log[first_rt + 3]["err"] is None:
                hstat["back_exported"] += 1
    hstat["packages"] = sum(1 for i in range(len(pk)) if jobs[owner[i]]["source"] == "history" and not jobs[owner[i]].get("held"))
    run.stream("histories", hstat["jobs"], len({json.dumps(strip(jobs[ji]), sort_keys=True) for ji in hj if jobs[ji].get("hist")
                                                 and jobs[ji]["hist"]["mode"] != "none-first"}), **hstat,
               rule="export / elaborate / netlist, re-target an instance below the top to a never-elaborated Module (valid copy, copy with one "
                    "connection fault, copy of the sub-hierarchy with a fault, valid copy with another port list), export the top again (and back); "
                    "every returned package judged by wf_pkg_full and the consumers; non-trivial = something was elaborated before the re-targeting")
    hk = dict(jobs=len(heldj), refused=0, exported=0, by_what={}, by_kind={}, classbody=0, exported_consistent=0)
    for ji in heldj:
        h_ = jobs[ji]["held"]
        hk["refused" if not outs[ji]["pkgs"] else "exported"] += 1
        hk["by_what"][h_["what"]] = hk["by_what"].get(h_["what"], 0) + 1
        hk["by_kind"][h_["kind"]] = hk["by_kind"].get(h_["kind"], 0) + 1
        hk["classbody"] += int(h_["style"] == "classbody")
        hk["exported_consistent"] += int((h_["what"] == "replace" or (h_["what"], h_["style"]) == ("rename", "classbody")) and bool(outs[ji]["pkgs"]))
    run.stream("held-names", len(heldj), len({json.dumps(strip(jobs[ji]), sort_keys=True) for ji in heldj}), **hk,
               rule="valid designs in which one module then holds an attribute (instance, array, signal, port) under a name it does not carry "
                    "(alias by setattr / add / class body, re-naming) or has an instance replaced under its key (consistent); refusal tied to "
                    "Model/C06Held.v, returned packages judged by wf_pkg_full; all count")
    if replay is None:
        targets = [("history:exported-after-retarget", hstat["exported_after_retarget"], 20), ("history:late-needs-elaboration", hstat["late_needs_elab_exported"], 10),
                   ("history:late-arrays", hstat["late_arrays_exported"], 3), ("history:fault-refused", hstat["fault_refused"], 15),
                   ("history:iface-refused", hstat["iface_refused"], 5), ("history:iface-resized-refused", hstat["iface_refused_by_kind"].get("port-resized", 0), 2),
                   ("history:iface-added-refused", hstat["iface_refused_by_kind"].get("port-added", 0), 1), ("history:back-exported", hstat["back_exported"], 5),
                   ("held:refused", hk["refused"], 30), ("held:alias", hk["by_what"].get("alias", 0), 10), ("held:rename", hk["by_what"].get("rename", 0), 10),
                   ("held:classbody", hk["classbody"], 5), ("held:instances", hk["by_kind"].get("inst", 0), 15),
                   ("held:replace-exported", hk["exported_consistent"], 3)]
        for name, got, need in targets:
            if got < need:
                run.violation("C06:coverage:" + name, f"coverage target missed: {name} = {got} < {need} (fail closed)",
                              dict(kind="coverage", histories=hstat, held=hk), found_input=False)
    # ---- evidence
    by_src = {}
    for ji in owner:
        s = jobs[ji]["source"] if jobs[ji]["source"] != "driver" else "foreign:" + jobs[ji]["driver"]
        by_src[s] = by_src.get(s, 0) + 1
    nontrivial = len({json.dumps(p["pkg"], sort_keys=True) for p in pk if sum(len(m["insts"]) for m in p["pkg"]["mods"]) >= 2})
    netlisted = sum(1 for p in pk if p["accept"]["spice"] is None)
    stressed = [ji for ji, j in enumerate(jobs) if j.get("stress")]
    exported = lambda ji: bool(outs[ji]["pkgs"])
    ncorp = sum(1 for j in jobs if j.get("corpus"))
    run.stream("corpus", ncorp, ncorp, exported=sum(1 for ji, j in enumerate(jobs) if j.get("corpus") and exported(ji)),
               rule="fixed witnesses: repaired defects, recorded findings, shapes earlier seeded changes needed; all count")
    run.stream("stressed-designs", len(stressed), len({json.dumps(jobs[ji]["design"], sort_keys=True) for ji in stressed}),
               by_fault_kind=stress_kinds, accepted_by_impl=sum(1 for ji in stressed if outs[ji]["pkgs"]),
               refused_by_exporter=sum(1 for ji in stressed if not outs[ji]["pkgs"] and outs[ji].get("stage") == "export"),
               rule="single-fault mutants, module-name clashes at depth >= 2, conflicting external declarations; every package the "
                    "implementation still returns is checked like any other")
    enr = [ji for ji, j in enumerate(jobs) if j.get("enriched")]
    feats = {}
    for ji in enr:
        if exported(ji):
            for f in jobs[ji]["design"]["feats"]:
                feats[f] = feats.get(f, 0) + 1
    two_decl_same_name = sum(1 for p in pk if len({x["name"] for x in p["pkg"]["exts"]}) < len(p["pkg"]["exts"]))
    run.stream("enriched-designs", len(enr), len({json.dumps(jobs[ji]["design"], sort_keys=True) for ji in enr if len(jobs[ji]["design"]["feats"]) >= 2}),
               exported=sum(1 for ji in enr if exported(ji)), features_of_exported=feats,
               packages_declaring_one_name_in_two_domains=two_decl_same_name,
               rule="non-trivial = at least two of: same name in another domain, twin object, un-set dict parameter, un-set paramclass "
                    "parameter, modules from two Python files; distinct by design")
    for f in ("same_name_other_domain", "twin_object", "unset_dict_param", "unset_class_param", "two_python_files"):
        if replay is None and feats.get(f, 0) == 0:
            run.violation(f"C06:coverage:enriched:{f}", f"coverage target missed: no exported enriched design with {f} (fail closed)",
                          dict(kind="coverage", features=feats), found_input=False)
    if replay is None and two_decl_same_name == 0:
        run.violation("C06:coverage:two-domains", "coverage target missed: no package declares one external name in two domains",
                      dict(kind="coverage"), found_input=False)
    fstat = {}
    for ji, j in enumerate(jobs):
        if j["source"] != "driver":
            continue
        s = fstat.setdefault(j["driver"], dict(jobs=0, exported=0, packages=0))
        s["jobs"] += 1
        s["exported"] += int(exported(ji))
        s["packages"] += len(outs[ji]["pkgs"])
        for f, v in (j.get("feats") or {}).items():
            if isinstance(v, int):
                s[f] = s.get(f, 0) + (v if exported(ji) else 0)
            elif exported(ji):
                s.setdefault("by_" + f, {})
                s["by_" + f][v] = s["by_" + f].get(v, 0) + 1
    nfj = sum(s["jobs"] for s in fstat.values())
    run.stream("foreign-generators", nfj, len({json.dumps(p["pkg"], sort_keys=True) for i, p in enumerate(pk)
                                                if jobs[owner[i]]["source"] == "driver" and sum(len(m["insts"]) for m in p["pkg"]["mods"]) >= 2}),
               by_driver=fstat,
               rule="jobs of the C01-bundle, C05, C10, C15, C16 and C19 generators run through their own implementation drivers, every exported "
                    "package captured; non-trivial = distinct packages with at least two instances")
    if replay is None:
        need = dict(c01b=("clash_connected", 1), c15=("asap7_default_sizes", 1))
        for drv in ("c01b", "c05", "c10", "c15", "c16", "c19"):
            s = fstat.get(drv, dict(exported=0))
            if s["exported"] < 10:
                run.violation(f"C06:coverage:foreign:{drv}", f"coverage target missed: only {s['exported']} jobs of driver {drv} exported a package",
                              dict(kind="coverage", stats=s), found_input=False)
            if drv in need and s.get(need[drv][0], 0) < need[drv][1]:
                run.violation(f"C06:coverage:foreign:{drv}:{need[drv][0]}", f"coverage target missed: no exported {drv} design with {need[drv][0]}",
                              dict(kind="coverage", stats=s), found_input=False)
        if fstat.get("c15", {}).get("by_pdk", {}).get("asap7", 0) == 0:
            run.violation("C06:coverage:foreign:c15:asap7", "coverage target missed: no ASAP7-compiled package", dict(kind="coverage"), found_input=False)
    run.stream("packages", len(pk), nontrivial, by_source=by_src, netlisted_spice_spectre=netlisted,
               with_physical_primitives_not_netlisted=sum(1 for p in pk if p["accept"]["physical"]),
               with_instance_parameters=sum(1 for p in pk if any(i["params"] for m in p["pkg"]["mods"] for i in m["insts"])),
               with_external_declarations=sum(1 for p in pk if p["pkg"]["exts"]),
               rule="non-trivial = at least two instances in the package; distinct by package content")
    run.stream("exporter-model-tie", len(tied), len({json.dumps(jobs[ji]["design"], sort_keys=True) for ji in tied
                                                     if len(jobs[ji]["design"]["mods"]) >= 2}),
               refused_by_both=sum(1 for ji in tied if not outs[ji]["pkgs"]) - sum(1 for i, c in obad if not outs[tied[i]]["pkgs"]),
               out_of_scope=sum(1 for ji, j in enumerate(jobs) if j["source"] == "design") - len(tied),
               rule="designs that reach the exporter (exported, or refused by it); non-trivial = at least two modules; out of scope = "
                    "rejected while building or elaborating")
    if pk:
        run.sample(dict(source=strip(jobs[owner[0]]), modules=[m["name"] for m in pk[0]["pkg"]["mods"]]))
        last_design = [i for i in range(len(pk)) if jobs[owner[i]].get("enriched")]
        if last_design:
            run.sample(dict(source="enriched design", design=jobs[owner[last_design[-1]]]["design"], pkg=pk[last_design[-1]]["pkg"]))
    run.coverage["traces_validated_against_impl"] = len(pk) + len(tied)
