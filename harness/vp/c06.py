"""C06 — every exported package is closed and self-consistent (DESIGN.md 6.9)."""
import json, copy
from . import core, design as D

IMPORTS = ("Require Import Hdl21.Base.PyInt Hdl21.Base.Design Hdl21.Base.Package Hdl21.Corr.C03 Hdl21.Corr.C06.")
EXAMPLES = ["ro", "rdac", "encoder", "mos_sim", "diff_ota", "idac", "bundles"]


def deep_nameclash(r, d):
    """Give a module the name of a module at least two instantiation levels below it (or the other way round)."""
    kids = {k: sorted({x["of"][1] for x in md["insts"] if x["of"][0] == "mod"}) for k, md in enumerate(d["mods"])}
    def below(k, depth):
        out, frontier = {}, {k}
        for lv in range(1, depth + 1):
            frontier = {c for f in frontier for c in kids[f]}
            for c in frontier:
                out.setdefault(c, lv)
        return out
    from .c02 import reachable
    pairs = [(a, b) for a in reachable(d) for b, lv in below(a, 6).items() if lv >= 2 and b not in kids[a]]
    if not pairs:
        return None
    a, b = r.choice(pairs)
    if r.random() < 0.5:
        d["mods"][b]["name"] = d["mods"][a]["name"]
    else:
        d["mods"][a]["name"] = d["mods"][b]["name"]
    return d


def run(run, tier, seed, replay=None):
    quick = tier == "quick"
    jobs = []
    for ex in EXAMPLES:
        jobs.append(dict(source="example", example=ex, repo=core.REPO))
    for n in range(1, 5 if quick else 13):
        jobs.append(dict(source="generator", gen="MosStack", n=n))
        jobs.append(dict(source="generator", gen="SeriesR", n=n))
        jobs.append(dict(source="generator", gen="SeriesMos", n=n, pair=["g", "b"] if n % 2 else ["d", "s"]))
        jobs.append(dict(source="generator", gen="Wrapper", n=n))
        jobs.append(dict(source="pdk", n=n))
    ndes = 250 if quick else 5000
    for k in range(ndes):
        r = core.rng(seed, "C06", "designs", k)
        jobs.append(dict(source="design", design=D.gen_design(r, size=r.choice([1, 2, 3]), devs=[("R", 2), ("C", 2)] if k % 3 else None, reconnect=True)))
    # stressed designs: single-fault mutants of valid designs (the C02 mutators) and module-name clashes at every depth.
    # Most are rejected by the implementation, which is fine here: whatever package IS returned must be well-formed.
    from . import c02 as M
    nstress = 200 if quick else 4000
    k = made = 0
    stress_kinds = {}
    while made < nstress and k < 20 * nstress:
        r = core.rng(seed, "C06", "stress", k)
        k += 1
        base = D.gen_design(r, size=r.choice([2, 3]), devs=[("R", 2), ("C", 2)])
        kind = r.choice(["index", "index", "empty", "nameclash", "deepclash", "deepclash", "width", "array_width", "extra", "missing", "unnamed"])
        if kind == "deepclash":
            mut = deep_nameclash(r, copy.deepcopy(base))
        else:
            st = M.sites(base)
            mut = M.MUTATORS[kind](r, copy.deepcopy(base), r.choice(st)) if st else None
        if mut is None:
            continue
        made += 1
        stress_kinds[kind] = stress_kinds.get(kind, 0) + 1
        jobs.append(dict(source="design", design=mut, stress=kind))
    if replay is not None:
        jobs = [replay["job"]]
    # examples and generators share process-global caches: one interpreter per example, sharded otherwise
    outs = []
    ex_jobs = [j for j in jobs if j["source"] == "example"]
    other = [j for j in jobs if j["source"] != "example"]
    ex_outs = [core.run_worker("c06", dict(jobs=[j]), timeout=600)["results"][0] for j in ex_jobs]
    other_outs = core.run_worker_sharded("c06", other)
    jobs = ex_jobs + other
    outs = ex_outs + other_outs
    pk, owner = [], []
    for ji, o in enumerate(outs):
        if o["err"] is not None and jobs[ji]["source"] != "design":
            run.violation(f"C06:source:{json.dumps(jobs[ji], sort_keys=True)[:200]}", f"package source failed: {o['err']}",
                          dict(kind="source-failed", job=jobs[ji], err=o["err"]), found_input=False)
        for p in o["pkgs"]:
            pk.append(p)
            owner.append(ji)
    cases = [D.c_pkg(p["pkg"]) for p in pk]
    bad = core.coq_eval_cases("C06", "pkgs", IMPORTS, "package", cases, "run_cases chk_c06", chunk=60)
    by_src = {}
    for ji in owner:
        by_src[jobs[ji]["source"]] = by_src.get(jobs[ji]["source"], 0) + 1
    nontrivial = len({json.dumps(p["pkg"], sort_keys=True) for p in pk
                      if sum(len(m["insts"]) for m in p["pkg"]["mods"]) >= 2})
    netlisted = sum(1 for p in pk if p["accept"]["spice"] is None)
    stressed = [ji for ji, j in enumerate(jobs) if j.get("stress")]
    run.stream("stressed-designs", len(stressed), len({json.dumps(jobs[ji]["design"], sort_keys=True) for ji in stressed}),
               by_fault_kind=stress_kinds, accepted_by_impl=sum(1 for ji in stressed if outs[ji]["pkgs"]),
               rule="single-fault mutants and module-name clashes at depth >= 2; every package the implementation still returns is checked like any other")
    run.stream("packages", len(pk), nontrivial, by_source=by_src, netlisted_spice_spectre=netlisted,
               with_physical_primitives_not_netlisted=sum(1 for p in pk if p["accept"]["physical"]),
               rule="non-trivial = at least two instances in the package; distinct by package content")
    size = lambda i: len(json.dumps(pk[i]["pkg"]))
    for i, code in sorted(bad, key=lambda ic: size(ic[0]))[:2]:
        run.violation("C06:wf:" + json.dumps(jobs[owner[i]], sort_keys=True)[:400], f"exported package is not well-formed (wf_pkg error code {code})",
                      dict(kind="impl-violates-spec", job=jobs[owner[i]], pkg=pk[i]["pkg"], code=code, failing=len(bad)))
    for i, p in enumerate(pk):
        for who in ("from_proto", "spice", "spectre"):
            v = p["accept"][who]
            if v is not None and not (isinstance(v, str) and v.startswith("skipped")):
                run.violation(f"C06:{who}:" + json.dumps(jobs[owner[i]], sort_keys=True)[:400], f"{who} rejects an exported package: {v}",
                              dict(kind="impl-violates-spec", job=jobs[owner[i]], pkg=p["pkg"], who=who, err=v))
                break
    if pk:
        run.sample(dict(source=jobs[owner[0]], modules=[m["name"] for m in pk[0]["pkg"]["mods"]]))
        run.sample(dict(source="design", pkg=pk[-1]["pkg"]))
    run.coverage["traces_validated_against_impl"] = len(pk)
