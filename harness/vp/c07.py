"""C07 — elaboration results do not depend on elaboration history (DESIGN.md 6.10, C07 half).

A case is a design DAG (module i instantiates the modules of a list of lower ids, with repetitions; every module has
scalar and bundle-valued ports, bundle references, sibling port references, optionally an instance array) and a history
of elaborate / to_proto / netlist calls, new parents created after elaboration and add() attempts.  Every history runs
in its OWN interpreter (harness/impl/c07.py; `direct`: a new `python` process, `fork`: a child forked right after
`import hdl21`, before any hdl21 object exists).  Observed per call: exception or not, sha256 of the deterministic
serialisation of the package / of the netlist, the (pass entry, module) visit log recorded by logging subclasses of
the default passes (public custom-Elaborator API), public io before/after each pass body.  The reference for each
output is a process that builds the same design and makes ONLY that call, under the DEFAULT elaborator.
Coq (Corr/C07.v) replays the history through the pass-manager model (Model/C07PassMgr.v) and returns per case
0 | code + 10*(call+1).

Strengthening round: modules may hold names that flattened bundle ports have to dodge (flavour bits 32/64/128) and may be
NAMESAKES of other modules (flav >> 8); `ADDX` = add()/setattr variants that re-use names, a refused attempt must leave the
module unchanged; per bundle-flattening visit the module before / after the body is compared with the flattening-names
model (Model/C07FlatNames.v); coverage targets are measured from the implementation's reports and fail closed.
"""
import json, itertools, subprocess
from concurrent.futures import ThreadPoolExecutor
from . import core
from .core import clist, cbool

IMPORTS = ("Require Import Hdl21.Base.PyInt Hdl21.Model.C07PassMgr Hdl21.Model.C07FlatNames Hdl21.Corr.C03 Hdl21.Corr.C07.\n"
           "From Coq Require Import String.\nOpen Scope string_scope.")
CALLS = ("E", "E1", "P", "N")
ADD_VARIANTS = 12      # harness/impl/c07.py:add_variant


# ------------------------------------------------------------------------------------------ designs and histories
def all_kid_lists(i, maxkids):
    out = [[]]
    for n in range(1, maxkids + 1):
        out += [list(t) for t in itertools.product(range(i), repeat=n)]
    return out


def all_designs(nmod, maxkids):
    """Every DAG on modules 0..nmod-1 with ordered child lists (repetitions allowed) of length <= maxkids."""
    per = [all_kid_lists(i, maxkids) for i in range(nmod)]
    return [list(t) for t in itertools.product(*per)]


HI = (0, 32, 64, 96, 128, 160, 192, 224)      # names that make flattened bundle ports dodge: see harness/impl/c07.py


def with_flavours(kidlists, salt):
    """Attach a flavour to every module: bit0 array for the first child, bit1 rotated bundle-connection styles,
    bit2 wide array data, bit3 NoConn on the bq/q ports of an only child, bit4 no primitive instances; bits 5-7 (strengthening
    round): a scalar port `bp_x`, an internal signal `bq_sub_z`, internal signals `bp_y` and `bp_y_` - names the flattened
    members of the bundle ports bp / bq have to dodge.  Deterministic in (design, salt)."""
    out = []
    for i, ks in enumerate(kidlists):
        f = (salt * 5 + i * 3 + len(ks)) % 32
        if not ks:
            f &= 18
        # half of the modules carry colliding names; which ones rotates with the case index
        hi = HI[(salt // 2 + i * 3) % 8] if (salt + i) % 2 == 0 else 0
        out.append([ks, f | hi])
    return out


def groupings(mods):
    """Every sequence of disjoint non-empty lists over every non-empty subset of `mods` (orders and groupings)."""
    out = []
    for r in range(1, len(mods) + 1):
        for perm in itertools.permutations(mods, r):
            for cuts in itertools.product([0, 1], repeat=r - 1):
                groups, cur = [], [perm[0]]
                for x, c in zip(perm[1:], cuts):
                    if c:
                        groups.append(cur)
                        cur = [x]
                    else:
                        cur.append(x)
                groups.append(cur)
                out.append(groups)
    return out


def kinds_for(groups, salt):
    """A call kind for each group; over consecutive salts every kind meets every position."""
    ks = []
    for i, g in enumerate(groups):
        k = CALLS[(salt + i * (1 + salt // 4)) % 4]
        if k == "E1" and len(g) != 1:
            k = "E"
        ks.append(k)
    return ks


def mk_ops(groups, kinds):
    return [[k, g[0] if k == "E1" else list(g)] for g, k in zip(groups, kinds)]


def reach(design, tops):
    seen = set()
    def go(m):
        if m in seen:
            return
        seen.add(m)
        for c in design[m][0]:
            go(c)
    for t in tops:
        go(t)
    return seen


def add_target(op):
    return op[1] if op[0] == "ADD" else op[1][0]


def op_tops(op):
    if op[0] in ("E", "P", "N"):
        return list(op[1])
    if op[0] == "E1":
        return [op[1]]
    return []


def full_design(job):
    d = [list(x) for x in job["design"]]
    for op in job["ops"]:
        if op[0] == "NP":
            d.append(list(op[1]))
    return d


def nontrivial(job):
    """Some module is reached by two different calls of the history proper, i.e. the second meets cached state."""
    d = full_design(job)
    cnt = {}
    n = len(job["design"])
    for op in job["ops"]:
        if op[0] == "NP":
            n += 1
            continue
        for m in reach(d[:n], op_tops(op)):
            cnt[m] = cnt.get(m, 0) + 1
    return any(v >= 2 for v in cnt.values())


def mk_job(design, ops, final=None, log=True):
    d = full_design(dict(design=design, ops=ops))
    return dict(design=design, ops=ops, final=list(range(len(d))) if final is None else final, log=log)


# ------------------------------------------------------------------------------------------ running the implementation
def run_jobs(jobs, mode):
    if not jobs:
        return []
    if mode == "fork":
        return core.run_worker_sharded("c07", jobs, common=dict(mode="fork"))
    with ThreadPoolExecutor(max_workers=core.NPROC) as ex:
        return list(ex.map(lambda j: core.run_worker("c07", dict(mode="direct", jobs=[j]))["results"][0], jobs))


def ref_key(design, kind, arg):
    return json.dumps([design, kind, arg])


class Refs:
    """Outputs of fresh processes that build a design and make ONE call, under the default elaborator."""
    def __init__(self):
        self.h = {}

    def need(self, jobs):
        want = {}
        for j in jobs:
            d = full_design(j)
            n = len(j["design"])
            for op in j["ops"]:
                if op[0] == "NP":
                    n += 1
                elif op[0] in ("P", "N"):
                    k = ref_key(d[:n], op[0], list(op[1]))
                    if k not in self.h:
                        want[k] = dict(design=d[:n], ops=[[op[0], list(op[1])]], final=[], log=False)
            for m in j["final"]:
                k = ref_key(d, "P1", m)
                if k not in self.h:
                    want[k] = dict(design=d, ops=[], final=[m], log=False)
        keys = list(want)
        outs = run_jobs([want[k] for k in keys], "fork")
        for k, o in zip(keys, outs):
            rec = (o["calls"] + o["final"])[0] if "crash" not in o else dict(ok=False, err=o)
            if not rec.get("ok"):
                raise RuntimeError(f"reference call failed in a fresh process (generator produced an invalid design?): {k}: {rec.get('err')}")
            self.h[k] = rec["hash"]

    def get(self, design, kind, arg):
        return self.h[ref_key(design, kind, arg)]


# ------------------------------------------------------------------------------------------ Coq printing
def c_nats(l):
    return clist(l, str)


def c_op(op):
    k, a = op
    if k == "E":
        return f"Elaborate {c_nats(a)}"
    if k == "E1":
        return f"Elaborate [{a}]"
    if k == "P":
        return f"Export {c_nats(a)}"
    if k == "P1":
        return f"Export [{a}]"
    if k == "N":
        return f"Netlist {c_nats(a)}"
    if k == "NP":
        return f"NewParent {c_nats(a[0])}"
    if k == "ADD":
        return f"Add {a} 100"
    if k == "ADDX":
        return f"Add {a[0]} {a[1]}"
    raise ValueError(k)


def c_strs(l):
    return clist(l, core.cstr)


def c_insts(l):
    return clist(l, lambda i: f"({i[0]}, {c_strs(i[1])})")


def c_cmod(pre):
    """The module as the implementation showed it right before (with bundles) / right after its flattening body."""
    bundles = clist(pre.get("bundles", []), lambda b: f"CB {core.cstr(b[0])} {cbool(b[1])} {c_strs(b[2])}")
    return f"(CM {c_strs(pre['ns'])} {c_strs(pre['ports'])} {bundles} {c_insts(pre['insts'])} [])"


def c_obs(rec, same, logged=True):
    acc = bool(rec.get("ok")) and rec.get("same", True)
    log = clist(rec.get("frames", []), lambda e: f"({e[0]},{e[1]},{cbool(e[2])})")
    flat = clist(rec.get("flat", []), lambda f: f"({f[0]}, {c_cmod(f[2])})")
    return f"IObs {cbool(acc)} {cbool(logged)} {log} {same} {flat}"


def model_kids(spec):
    """Children in the order elaborate_module_base (and the exporter) walks them: `module.instances` first, then
    `module.instarrays`; flavour bit0 makes the first child an InstanceArray (later replaced by instances added at the end)."""
    ks, flav = spec
    return ks[1:] + ks[:1] if (flav & 1 and ks) else list(ks)


def c_case(job, out, refs):
    d = full_design(job)
    n = len(job["design"])
    steps = []
    for op, rec in zip(job["ops"], out["calls"]):
        same = 2
        if op[0] == "NP":
            n += 1
            op = ["NP", [model_kids(op[1]), op[1][1]]]
        elif op[0] in ("P", "N"):
            same = 1 if rec.get("ok") and rec["hash"] == refs.get(d[:n], op[0], list(op[1])) else 0
        elif op[0] in ("ADD", "ADDX"):
            same = 2 if rec.get("unchanged", True) else 0
        steps.append(f"({c_op(op)}, {c_obs(rec, same, job['log'])})")
    for m, rec in zip(job["final"], out["final"]):
        same = 1 if rec.get("ok") and rec["hash"] == refs.get(d, "P1", m) else 0
        steps.append(f"({c_op(['P1', m])}, {c_obs(rec, same, job['log'])})")
    kl = clist([c_nats(model_kids(x)) for x in job["design"]])
    pre = {}
    for rec in out["calls"] + out["final"]:
        for m, before, _after in rec.get("flat", []):
            pre.setdefault(m, before)
    inits = clist([c_cmod(pre[m]) if m in pre else "cm_empty" for m in range(len(d))])
    return f"({kl}, {inits}, {clist(steps)})%nat"


# ------------------------------------------------------------------------------------------ evaluation and reporting
TIMES = {}


def evaluate(tag, jobs, refs, mode, chunk=150):
    import time
    t0 = time.time()
    refs.need(jobs)
    t1 = time.time()
    outs = run_jobs(jobs, mode)
    t2 = time.time()
    crashed = [i for i, o in enumerate(outs) if "crash" in o]
    if crashed:
        raise RuntimeError(f"history process crashed: {outs[crashed[0]]} on {json.dumps(jobs[crashed[0]])}")
    cases = [c_case(j, o, refs) for j, o in zip(jobs, outs)]
    chunk = max(12, min(chunk, -(-len(cases) // core.NPROC)))       # spread the cases over the cores
    bad = core.coq_eval_cases("C07", tag, IMPORTS, "c07case", cases, "run_cases chk_c07", chunk=chunk)
    TIMES[tag] = dict(references_s=round(t1 - t0, 1), histories_s=round(t2 - t1, 1), coq_s=round(time.time() - t2, 1))
    return outs, {i: (r % 10, r // 10 - 1) for i, r in bad}


def case_key(job):
    return "C07:" + json.dumps(dict(design=job["design"], ops=job["ops"], final=job["final"]), sort_keys=True)


def py_repro(job, step):
    return ("cd harness/impl && echo '" + json.dumps(dict(mode="direct", jobs=[dict(job, dump=True)])) +
            f"' | PYTHONPATH=$VERIF_REPO /venv/bin/python c07.py   # call {step}: compare with the same call made first in a fresh process")


def valid_case(job):
    """add() is only ever attempted on modules an earlier call has elaborated (otherwise it edits the design)."""
    d = full_design(job)
    n = len(job["design"])
    done = set()
    for op in job["ops"]:
        if op[0] == "NP":
            n += 1
        elif op[0] in ("ADD", "ADDX"):
            if add_target(op) not in done:
                return False
        else:
            done |= reach(d[:n], op_tops(op))
    return True


def shrink(job, refs, mode):
    """Greedy deletion of single calls / final exports while the case keeps a code-1 verdict."""
    cur = job
    for _ in range(4):
        cands = []
        for k in range(len(cur["ops"])):
            if cur["ops"][k][0] == "NP":
                continue
            cands.append(dict(cur, ops=cur["ops"][:k] + cur["ops"][k + 1:]))
        for k in range(len(cur["final"])):
            cands.append(dict(cur, final=cur["final"][:k] + cur["final"][k + 1:]))
        cands = [c for c in cands if valid_case(c)]
        if not cands:
            break
        _, res = evaluate("shrink", cands, refs, mode)
        better = [i for i, (c, st) in res.items() if c == 1]
        if not better:
            break
        cur = cands[min(better, key=lambda i: len(json.dumps(cands[i])))]
    return cur


def report(run, stream, jobs, outs, res, refs, mode, limit=2):
    size = lambda i: (len(jobs[i]["design"]), len(jobs[i]["ops"]), len(json.dumps(jobs[i])))
    v1 = sorted([i for i, (c, st) in res.items() if c == 1], key=size)
    v2 = sorted([i for i, (c, st) in res.items() if c in (2, 3)], key=size)
    for i in v1[:limit]:
        job = jobs[i]
        try:
            job = shrink(job, refs, mode)
        except Exception as e:
            core.log(f"  (shrink failed: {e})")
        st, out_i = res[i][1], outs[i]
        if job is not jobs[i]:
            try:        # the observations of the SHRUNK history
                o2, r2 = evaluate("shrink", [job], refs, mode)
                if r2.get(0, (0, -1))[0] == 1:
                    st, out_i = r2[0][1], o2[0]
            except Exception as e:
                core.log(f"  (re-run of the shrunk case failed: {e})")
        allops = job["ops"] + [["P1", m] for m in job["final"]]
        run.violation(case_key(job),
                      f"design {json.dumps(job['design'])}, history {json.dumps(allops)}: a call is refused or its output differs "
                      "from the output of the same call made first in a fresh process (or add() after elaboration is accepted, or a refused add() changed the module)",
                      dict(kind="impl-violates-spec", stream=stream, case=job, failing_call=st, mode=mode,
                           impl=[{k: v for k, v in c.items() if k in ("ok", "err", "hash", "unchanged")} for c in out_i["calls"] + out_i["final"]],
                           reproducer=py_repro(job, st), failing_cases=len(v1)))
    if v2 and not v1:
        i = v2[0]
        c, st = res[i]
        calls = outs[i]["calls"] + outs[i]["final"]
        what = ("malformed case" if c == 3 else
                "the implementation's (pass entry, module) visit log or io frame differs from the pass-manager model")
        run.violation(f"C07:{stream}:tie", f"{what} at call {st} of design {json.dumps(jobs[i]['design'])}, history {json.dumps(jobs[i]['ops'])} "
                      "(every output equals its fresh-process reference on every explored history)",
                      dict(kind="correspondence-broken", stream=stream, case=jobs[i], failing_call=st, mode=mode,
                           impl=calls[min(st, len(calls) - 1)] if calls else None, disagreeing_cases=len(v2),
                           reproducer=py_repro(jobs[i], st), theorem="C07 correspondence stream " + stream), found_input=False)


# ------------------------------------------------------------------------------------------ streams
def corpus():
    """Orders fixed by the pinned tests and their neighbours; new parents of elaborated modules; add() after elaboration."""
    D2 = [[[], 0], [[0], 0]]
    D3 = [[[], 2], [[0, 0], 1], [[0, 1], 2]]
    D3b = [[[], 0], [[0, 0, 0], 5], [[1, 0], 3]]
    jobs = [
        # test_re_elab_bundle_port: elaborate a parent, then a NEW parent of the same (now flattened) child
        mk_job(D2, [["E1", 1], ["NP", [[0], 0]], ["E1", 2]]),
        mk_job(D2, [["E1", 0], ["NP", [[0, 0], 1]], ["P", [2]], ["ADD", 0], ["ADD", 2]]),
        # test_re_elab_generator_with_bundle_portref: sibling bundle port reference, elaborated twice
        mk_job(D3, [["E1", 1], ["E1", 1]]),
        mk_job(D3, [["E1", 0], ["E1", 2]]),
        mk_job(D3, [["E1", 2], ["E1", 0], ["E1", 1]]),
        mk_job(D3, [["P", [0]], ["N", [1]], ["P", [2]]]),
        mk_job(D3, [["N", [2]], ["P", [1]], ["E", [0]]]),
        mk_job(D3, [["E", [0, 1, 2]]]),
        mk_job(D3, [["E", [2, 1, 0]]]),
        mk_job(D3, [["P", [1, 2]], ["N", [2, 0]]]),
        mk_job(D3, [["E", [1, 1]], ["E", []], ["P", [2, 2]]]),
        mk_job(D3b, [["E1", 1], ["N", [2]], ["NP", [[2, 0, 1], 7]], ["N", [3]], ["ADD", 1], ["ADD", 3]]),
        mk_job(D3b, [["P", [0]], ["NP", [[0, 0], 1]], ["NP", [[3, 1], 2]], ["E1", 4], ["P", [2, 4]]]),
        mk_job(D3b, [], None),
        # an only child with unconnected (NoConn) bundle and scalar ports, child elaborated first / new parent afterwards
        mk_job([[[], 0], [[0], 8], [[1], 9]], [["E1", 0], ["P", [2]], ["NP", [[1], 8]], ["N", [3]]]),
        mk_job([[[], 2], [[0], 12]], [["N", [0]], ["E1", 1], ["NP", [[0], 9]], ["P", [2, 1]]]),
        # modules without any instance of their own (true leaves), add() after elaboration
        mk_job([[[], 16], [[0, 0], 17], [[], 18]], [["P", [1]], ["ADD", 0], ["ADD", 1], ["E1", 2], ["ADD", 2], ["NP", [[2, 0], 16]], ["N", [3]], ["ADD", 3]]),
    ]
    # ---- strengthening round (seeded changes C07-B, C07-D and their neighbours)
    # a child whose flattened bundle ports had to dodge names (scalar port bp_x / internal signals bq_sub_z, bp_y, bp_y_),
    # flattened by an EARLIER call - alone, exported, in a list, under another parent, netlisted - than a parent
    # that connects a bundle to that port; shared below two parents; new parents afterwards
    DB = [[[], 32], [[0], 0], [[1, 0, 0], 0]]
    DBi = [[[], 64 + 128], [[0], 2], [[1, 0, 0], 32]]
    DBa = [[[], 32 + 64 + 128 + 16], [[0, 0], 1 + 4], [[0], 8 + 32], [[1, 2, 0], 2 + 64]]
    jobs += [
        mk_job(DB, [["E1", 0], ["P", [2]]]),
        mk_job(DB, [["P", [0]], ["P", [2]]]),
        mk_job(DB, [["E", [1, 0]], ["P", [2]]]),
        mk_job(DB, [["N", [1]], ["P", [2]]]),
        mk_job(DBi, [["E1", 0], ["N", [2]], ["NP", [[0, 2], 34]], ["P", [3]]]),
        mk_job(DBi, [["N", [1]], ["P", [2, 1]], ["NP", [[0], 8]], ["E1", 3]]),
        mk_job(DBa, [["E1", 0], ["E1", 2], ["E1", 1], ["P", [3]]]),
        mk_job(DBa, [["P", [1]], ["N", [2]], ["NP", [[0, 0], 1 + 32]], ["P", [3]], ["N", [4]]]),
        mk_job(DBa, [["N", [3]], ["NP", [[0, 3], 128]], ["P", [4]]]),
    ]
    # refused add() / setattr on elaborated modules that RE-USE a name held by an attribute of another kind, followed
    # by exporting again and by a new parent of the module
    DD = [[[], 0], [[0, 0], 0]]
    for v in range(1, ADD_VARIANTS):
        t = v % 2
        jobs.append(mk_job(DD if v % 3 else DBi[:2], [["P", [1]], ["ADDX", [t, v]], ["P", [1]], ["NP", [[t, 0], 2]], ["P", [2]]]))
    jobs.append(mk_job(DD, [["E1", 1]] + [["ADDX", [v % 2, v]] for v in range(ADD_VARIANTS)] + [["N", [1]], ["NP", [[1, 0], 0]], ["N", [2]]]))
    return jobs


def exhaustive(nmod, maxkids, stride=1, offset=0):
    jobs = []
    n = 0
    for di, kl in enumerate(all_designs(nmod, maxkids)):
        for gi, groups in enumerate(groupings(list(range(nmod)))):
            n += 1
            if (n + offset) % stride:
                continue
            design = with_flavours(kl, di + gi)
            jobs.append(mk_job(design, mk_ops(groups, kinds_for(groups, di + gi))))
    return jobs


def dodged_box():
    """Two modules, the parent instantiating the child once or twice: every set of colliding names in the child x
    {none, bp_x, bq_sub_z+bp_y} in the parent x every order and grouping of calls; the parent's connection styles rotate."""
    jobs = []
    n = 0
    for ks in ([0], [0, 0]):
        for hc in HI:
            for hp in (0, 32, 192):
                for gi, groups in enumerate(groupings([0, 1])):
                    n += 1
                    low = (0, 1, 2, 8, 5, 3)[n % 6]
                    if len(ks) != 1:
                        low &= ~8
                    design = [[[], hc | (n % 2) * 16 | (n // 2 % 2) * 2], [ks, hp | low]]
                    ops = mk_ops(groups, kinds_for(groups, n))
                    if n % 4 == 0:
                        ops += [["NP", [[0, 1][: 1 + n // 4 % 2], hp ^ 32]], ["PN"[n // 8 % 2], [2]]]
                    jobs.append(mk_job(design, ops))
    return jobs


def refused_add_box():
    """Every add()/setattr variant on the child and on the parent of the two-module designs, after a call that
    elaborated the module, followed by exporting again and by a new parent of the module."""
    jobs = []
    n = 0
    for ks in ([0], [0, 0]):
        for v in range(ADD_VARIANTS):
            for t in (0, 1):
                n += 1
                first = [["P", [1]], ["E1", 1], ["N", [1]], ["E", [t]]][n % 4]
                design = [[[], (0, 32, 16, 192)[n % 4]], [ks, (0, 2, 1, 8 if len(ks) == 1 else 4)[n // 4 % 4]]]
                if first[1] == [0] and t == 0:
                    ops = [first, ["ADDX", [0, v]], ["P", [1]], ["NP", [[0], 0]], ["P", [2]]]
                else:
                    ops = [first, ["ADDX", [t, v]], ["PN"[n // 2 % 2], [1]], ["NP", [[t] + ks[1:], 2 * (n % 2)]], ["P", [2]]]
                jobs.append(mk_job(design, ops))
    return jobs


def co_reached(job):
    """Pairs of modules that some call of the history (or a final single-module export) reaches together."""
    d = full_design(job)
    n = len(job["design"])
    pairs = set()
    calls = []
    for op in job["ops"]:
        if op[0] == "NP":
            n += 1
        elif op[0] in CALLS:
            calls.append(reach(d[:n], op_tops(op)))
    calls += [reach(d, [m]) for m in job["final"]]
    for c in calls:
        for a in c:
            for b in c:
                pairs.add((a, b))
    return pairs


def assign_namesakes(job, r, p=0.5):
    """Give some NEW modules (created by NP) the NAME of an existing module that no call reaches together with it:
    two different objects with one name.  Caches keyed by object identity cannot tell; caches keyed by name can."""
    co = co_reached(job)
    n = len(job["design"])
    taken = set()
    ops = []
    for op in job["ops"]:
        if op[0] == "NP":
            cands = [t for t in range(n) if (n, t) not in co and (t, n) not in co and t not in taken]
            if cands and r.random() < p:
                t = r.choice(cands)
                taken.add(t)
                taken.add(n)
                op = ["NP", [list(op[1][0]), (op[1][1] & 255) | ((t + 1) << 8)]]
            n += 1
        ops.append(op)
    return dict(job, ops=ops)


def namesake_box():
    """A leaf 0 (with / without dodged names) below a parent 1; after a call, a NEW leaf with the NAME of module 0 but
    other colliding names, a new parent of the new leaf, and a new parent of the old leaf; every order of exporting them."""
    jobs = []
    n = 0
    for h0 in (0, 32, 64, 128, 224):
        for h2 in (0, 32, 192):
            if h0 == h2:
                continue
            for first in (["E1", 0], ["P", [1]], ["N", [1, 0]]):
                for order in ((3, 4), (4, 3)):
                    n += 1
                    leaf2 = ["NP", [[], h2 | (1 << 8) | (n % 2) * 16]]           # module 2: named M0
                    par2 = ["NP", [[2] * (1 + n % 2), (0, 2, 1)[n % 3]]]          # module 3: parent of the namesake
                    par0 = ["NP", [[0] * (1 + n // 2 % 2), (0, 2, 8)[n % 3] if n // 2 % 2 == 0 else (0, 2, 1)[n % 3]]]   # module 4
                    ops = [first, leaf2, par2, par0] + [["PN"[(n + i) % 2], [t]] for i, t in enumerate(order)]
                    if n % 3 == 0:
                        ops.insert(2, ["E1", 2])
                    # both leaves are elaborated by now: each refuses additions
                    ops += [["ADDX", [2, n % ADD_VARIANTS]], ["ADDX", [0, (n + 5) % ADD_VARIANTS]], ["ADD", 3 + n % 2]]
                    jobs.append(mk_job([[[], h0], [[0], 0]], ops, final=[1, 3, 4]))
    return jobs


def gen_random(r, nmod, maxkids, p_np=0.4):
    kl = [[]]
    for i in range(1, nmod):
        k = r.randint(0, maxkids) if i < nmod - 1 else r.randint(1, maxkids)
        # mostly connected designs: prefer recent modules as children
        kl.append([r.choice(range(max(0, i - 2), i)) if r.random() < 0.7 else r.randrange(i) for _ in range(k)])
    hi = lambda: sum(b for b in (32, 64, 128) if r.random() < 0.3)
    design = [[ks, (r.randrange(32) if ks else r.choice([0, 2, 16, 18])) | hi()] for ks in kl]
    ops = []
    n = nmod
    elaborated = set()
    full = [list(x) for x in design]
    for _ in range(r.randint(2, 6)):
        u = r.random()
        if u < p_np * 0.5 and n < nmod + 2:
            k = r.randint(0, maxkids)          # k = 0: a new leaf
            spec = [[r.randrange(n) for _ in range(k)], (r.randrange(32) if k else r.choice([0, 2, 16, 18])) | hi()]
            ops.append(["NP", spec])
            full.append(spec)
            n += 1
        elif u < p_np * 0.5 + 0.17 and elaborated:
            m = r.choice(sorted(elaborated))
            ops.append(["ADD", m] if r.random() < 0.3 else ["ADDX", [m, r.randrange(ADD_VARIANTS)]])
        else:
            k = r.choice(CALLS)
            tops = [r.randrange(n) for _ in range(r.choice([1, 1, 2, 3]))]
            if r.random() < 0.8:
                tops = list(dict.fromkeys(tops))
            ops.append([k, tops[0]] if k == "E1" else [k, tops])
            elaborated |= reach(full, tops[:1] if k == "E1" else tops)
    return assign_namesakes(mk_job(design, ops), r)


def malformed(seed, n):
    """Rejected forms: add() on elaborated modules of every depth, empty and repeated top lists, a top below another top."""
    jobs = []
    for k in range(n):
        r = core.rng(seed, "C07", "malformed", k)
        j = gen_random(r, r.choice([2, 3]), 2, p_np=0.3)
        d = full_design(j)
        tops = [r.randrange(len(j["design"]))]
        first = [[r.choice(["E", "P", "N"]), tops + tops]]
        # add() to every module the first call reached; they are all elaborated by then
        adds = [(["ADD", m] if (k + m) % 3 == 0 else ["ADDX", [m, r.randrange(ADD_VARIANTS)]])
                for m in sorted(reach(d[:len(j["design"])], tops))]
        rest = list(j["ops"])
        rest.insert(r.randint(0, len(rest)), ["E", []])
        ops = first + adds + rest
        jobs.append(mk_job(j["design"], ops))
    return jobs


# ------------------------------------------------------------------------------------------ coverage targets
TARGETS = (["dodged_child_flattened_by_earlier_call:" + h for h in ("alone", "in_list", "under_parent")] +
           ["dodged_child_then_new_parent", "name_dodged_for_internal_signal_then_later_parent",
            "refused_reuse_add_then_reexport", "refused_reuse_add_then_new_parent_export",
            "namesake_modules_flattened_then_parent_of_one_flattened"] +
           [f"refused_add_variant_{v}" for v in range(ADD_VARIANTS)])


def coverage_of(job, out):
    """Which of the strengthening-round targets this history meets, MEASURED on what the implementation did: the
    bundle-flattening visits it reported (module, instances, port names after the body) and the refused add() calls."""
    hit = set()
    d = full_design(job)
    n0 = len(job["design"])
    ops = job["ops"] + [["P1", m] for m in job["final"]]
    recs = out["calls"] + out["final"]
    flat_at, dodged = {}, {}
    name_of = lambda m: (d[m][1] >> 8) - 1 if d[m][1] >> 8 else m
    for i, (op, rec) in enumerate(zip(ops, recs)):
        for m, pre, post in rec.get("flat", []):
            for c, _conns in pre["insts"]:
                if c in flat_at and flat_at[c] < i and any(x != c and name_of(x) == name_of(c) and flat_at[x] < i for x in flat_at):
                    hit.add("namesake_modules_flattened_then_parent_of_one_flattened")
            for c, _conns in pre["insts"]:
                if c in flat_at and flat_at[c] < i and dodged.get(c):
                    tops = op_tops(ops[flat_at[c]]) if ops[flat_at[c]][0] != "P1" else [ops[flat_at[c]][1]]
                    how = "under_parent" if c not in tops else ("alone" if len(set(tops)) == 1 else "in_list")
                    hit.add("dodged_child_flattened_by_earlier_call:" + how)
                    if m >= n0:
                        hit.add("dodged_child_then_new_parent")
                    if d[c][1] & (64 | 128):
                        hit.add("name_dodged_for_internal_signal_then_later_parent")
            flat_at[m] = i
            dodged[m] = any(p.endswith("_") for p in post["ports"])
    n = n0
    for i, (op, rec) in enumerate(zip(ops, recs)):
        if op[0] == "NP":
            n += 1
        if op[0] == "ADDX" and not rec.get("ok"):
            m, v = op[1]
            hit.add(f"refused_add_variant_{v}")
            if v in (0, 7):
                continue
            nn, parents = n, set()
            for op2, rec2 in zip(ops[i + 1:], recs[i + 1:]):
                if op2[0] == "NP":
                    if m in op2[1][0]:
                        parents.add(nn)
                    nn += 1
                elif op2[0] in ("P", "N", "P1"):
                    tops = [op2[1]] if op2[0] == "P1" else list(op2[1])
                    below = reach(d[:nn], tops)
                    if m in below:
                        hit.add("refused_reuse_add_then_reexport")
                    if parents & below:
                        hit.add("refused_reuse_add_then_new_parent_export")
    return hit


# ------------------------------------------------------------------------------------------ run
def own_closure_builds(run):
    """When the project-wide build fails in ANOTHER property's file (e.g. a table-driven theorem of that property on a tree
    with that property's defect), C07's obligations are still decided by C07's own closure: build exactly that."""
    if getattr(run, "build_ok", True):
        return
    p = subprocess.run(["timeout", "1500", "make", "theories/Props/C07.vo", "theories/Corr/C07.vo"], cwd=core.COQDIR,
                       capture_output=True, text=True)
    names, current = core.props_obligations("C07")
    if p.returncode == 0 and current:
        run.build_ok = True
        run.coverage["discharged"] = len(names)
        run.notes.append("the project-wide Coq build fails in another property's file on this tree; C07's own closure "
                         "(Props/C07.vo, Corr/C07.vo and everything they import) builds and is what this run uses")


def run(run, tier, seed, replay=None):
    quick = tier == "quick"
    refs = Refs()
    own_closure_builds(run)
    if replay is not None:
        job = replay.get("case")
        mode = replay.get("mode", "direct")
        outs, res = evaluate("replay", [job], refs, mode)
        report(run, "replay", [job], outs, res, refs, mode)
        run.stream("replay", 1, 1 if nontrivial(job) else 0, rule="the replayed history")
        run.sample(dict(stream="replay", case=job, verdict=res.get(0, (0, -1))))
        return

    cover = {t: 0 for t in TARGETS}
    rule = "non-trivial = some module is reached by at least two calls of the history (the later call meets cached state); distinct by (design, history)"
    total = 0

    def do(stream, jobs, mode, **extra):
        nonlocal total
        outs, res = evaluate(stream.replace("-", "_"), jobs, refs, mode)
        ncalls = sum(len(o["calls"]) + len(o["final"]) for o in outs)
        nvis = sum(len(c["log"]) for o in outs for c in o["calls"] + o["final"])
        run.stream(stream, len(jobs), len({case_key(j) for j in jobs if nontrivial(j)}), calls=ncalls, pass_body_visits=nvis,
                   interpreter=("new python process per history" if mode == "direct" else "child forked after `import hdl21` per history"),
                   rule=rule, **extra)
        hits = {}
        for j, o in zip(jobs, outs):
            for t in coverage_of(j, o):
                hits[t] = hits.get(t, 0) + 1
                cover[t] += 1
        run.coverage["streams"][stream]["strengthening_targets_met"] = hits
        run.coverage["streams"][stream]["wall"] = TIMES.get(stream.replace("-", "_"))
        report(run, stream, jobs, outs, res, refs, mode)
        total += len(jobs)
        return outs, res

    # ---------------------------------------------------------------- static: the regenerated pass table
    tb = core.coq_eval_cases("C07", "table", IMPORTS, "bool", ["table_distinct"],
                             "(fun l => run_cases (fun b : bool => if b then 0 else 1) l)")
    run.coverage["pass_list_classes_distinct"] = not tb
    if tb:
        run.notes.append("the default pass list repeats a pass class (shared class-level cache): the repeated entries never run a "
                         "body (`eff` = false in Model/C07PassMgr.v); the theorems of Props/C07.v cover such lists")

    # ---------------------------------------------------------------- corpus (new interpreter per history)
    jobs = corpus()
    outs, res = do("corpus", jobs, "direct")
    run.sample(dict(stream="corpus", case=jobs[0], calls=[{k: v for k, v in c.items() if k in ("ok", "hash")} for c in outs[0]["calls"] + outs[0]["final"]],
                    passes=outs[0]["passes"]))

    # ---------------------------------------------------------------- exhaustive-small
    if quick:
        spec = [(2, 2, 1, "fork"), (3, 2, 3, "fork")]
    else:
        spec = [(2, 3, 1, "fork"), (3, 2, 1, "fork"), (4, 2, 11, "fork")]
    for nmod, maxkids, stride, mode in spec:
        jobs = exhaustive(nmod, maxkids, stride, offset=seed)
        ndes = len(all_designs(nmod, maxkids))
        ngrp = len(groupings(list(range(nmod))))
        do(f"exhaustive-small-{nmod}", jobs, mode, exhaustive=(stride == 1), designs=ndes, orders_and_groupings_per_design=ngrp,
           box=f"every DAG on {nmod} modules with ordered child lists of length <= {maxkids} x every sequence of disjoint top lists over every "
               f"subset of the modules" + ("" if stride == 1 else f", every {stride}th (design, grouping) pair (offset = seed)") +
               "; call kinds E/E1/P/N rotate with the case index; every module is exported alone at the end")
    run.sample(dict(stream="exhaustive-small", case=jobs[len(jobs) // 2]))
    # a slice of the same box in brand-new interpreters
    jobs = exhaustive(3, 2, 41 if quick else 11, offset=seed + 1)
    do("exhaustive-small-3-new-interpreter", jobs, "direct", exhaustive=False,
       box="every 41st (quick) / 11th (thorough) case of the 3-module box, each in a new python process")
    # ... and histories under the DEFAULT elaborator (no logging subclasses): outputs and add() only
    jobs = [dict(j, log=False) for j in exhaustive(3, 2, 37 if quick else 5, offset=seed + 2)] + [dict(j, log=False) for j in corpus()]
    do("default-elaborator", jobs, "fork", exhaustive=False,
       box="every 37th (quick) / 5th (thorough) case of the 3-module box and the corpus, under the default elaborator (no visit log)")

    # ---------------------------------------------------------------- strengthening round: dodged flat names, re-used names
    jobs = dodged_box()
    do("exhaustive-dodged-names-2", jobs, "fork", exhaustive=True,
       box="two modules, child instantiated once or twice x every subset of the colliding names {scalar port bp_x, internal signal "
           "bq_sub_z, internal signals bp_y + bp_y_} in the child x {none, bp_x, bq_sub_z + bp_y + bp_y_} in the parent x every order and "
           "grouping of calls; every 4th case adds a new parent and exports it")
    run.sample(dict(stream="exhaustive-dodged-names-2", case=jobs[len(jobs) // 3]))
    jobs = refused_add_box()
    do("exhaustive-refused-add", jobs, "fork", exhaustive=True, add_variants=ADD_VARIANTS,
       box="two modules x every add()/setattr variant (new name; signal over port, port over signal, instance over signal / port, "
           "bundle over port, signal over instance, same kind, over a flattened port / signal, array over signal) x target child / parent, "
           "after a call that elaborated the target; then export again, create a new parent of the target, export it")
    run.sample(dict(stream="exhaustive-refused-add", case=jobs[5]))

    jobs = namesake_box()
    do("exhaustive-namesakes", jobs, "fork", exhaustive=True,
       box="a leaf below a parent, a call, then a NEW leaf carrying the leaf's NAME (another object, other colliding names), a new "
           "parent of each; colliding names of the two leaves x first call x order of the exports")
    run.sample(dict(stream="exhaustive-namesakes", case=jobs[7]))

    # ---------------------------------------------------------------- structured random
    n_rand = 150 if quick else 1500
    for nmod in ((4,) if quick else (4, 5)):
        jobs = [gen_random(core.rng(seed, "C07", f"random-{nmod}", k), nmod, 3) for k in range(n_rand)]
        outs, res = do(f"random-{nmod}", jobs, "fork", modules=nmod,
                       with_new_parent=sum(1 for j in jobs if any(o[0] == "NP" for o in j["ops"])),
                       with_add=sum(1 for j in jobs if any(o[0] in ("ADD", "ADDX") for o in j["ops"])), rejected_fraction=0.0,
                       box="random DAGs (child lists <= 3, mostly recent modules), 2-6 calls with repeated tops, new parents of elaborated "
                           "modules, add() on elaborated modules; every module exported alone at the end")
        run.sample(dict(stream=f"random-{nmod}", case=jobs[1]))

    # ---------------------------------------------------------------- malformed
    jobs = malformed(seed, 40 if quick else 400)
    outs, res = do("malformed", jobs, "fork",
                   refused_adds=0, box="add() on every module reached by the first call, empty top list, repeated tops")
    nref = sum(1 for j, o in zip(jobs, outs) for op, c in zip(j["ops"], o["calls"]) if op[0] in ("ADD", "ADDX") and not c["ok"])
    run.coverage["streams"]["malformed"]["refused_adds"] = nref
    run.sample(dict(stream="malformed", case=jobs[0]))
    run.coverage["traces_validated_against_impl"] = total
    run.coverage["strengthening_targets"] = cover
    for t, cnt in cover.items():
        if cnt == 0:
            run.violation(f"C07:coverage:{t}", f"generator coverage target missed: no history with {t}", dict(kind="coverage"),
                          found_input=False)
    # C07E: the concrete pass manager (coq Model/C07EConcrete.v: the machine above with the per-module pass models of C01E / C02E as
    # bodies) against the implementation, per call history over core-fragment designs (append-only hook)
    from . import c07e
    c07e.run_tie(run, tier, seed)
