"""C02E — tie of the checked pipeline model (coq Model/C02EPipeline.v: checked_run) to the implementation.

Called from the END of harness/vp/c02.py:run().  On every core base design of the C02 stream and on every single-fault
mutant of it (the same mutators, the same random streams: the mutants are re-derived here, the hook is append-only)
Coq computes the model's verdict and the stage that rejected, and compares with the implementation:
to_proto raising or not, elaborate raising or not, and the ElabPass class (or the exporter) the error came from.
Codes: Corr/C02E.v (0 agree, 1 implementation violates the specification, 2 tie broken, 4 model contradicts its theorems,
5 both reject but in different passes)."""
import json, copy
from . import core, design as D, c01e
from .core import cstr

IMPORTS = ("Require Import Hdl21.Base.PyInt Hdl21.Spec.PySlice Hdl21.Model.Slice Hdl21.Model.Resolve Hdl21.Base.Design "
           "Hdl21.Spec.WfDesign Hdl21.Base.Package Hdl21.Corr.C03 Hdl21.Model.C01EElab Hdl21.Model.C02EPipeline Hdl21.Corr.C02E.")

STAGES = {0: "accepted", 1: "Orphanage", 2: "ResolvePortRefs", 3: "ConnTypes", 4: "ArrayFlattener", 5: "SliceResolver",
          6: "PostFlattenConnTypes", 7: "PostFlattenOrphanage", 8: "MarkModules", 9: "export"}


def named(design):
    """the design with '' for a missing module name (as the Coq printer of c02.py writes it)"""
    d = copy.deepcopy(design)
    for md in d["mods"]:
        if md["name"] is None:
            md["name"] = ""
    return d


def c_case(c02, design, out):
    el, pr = out["elaborate"], out["to_proto"]
    return (f"{{| e_design := {c02.c_design(design)};\n  e_xinfo := {c01e.c_xinfo(named(design))};\n"
            f"  e_elab := {core.cbool(el[0] == 'accepted')}; e_proto := {core.cbool(pr[0] == 'accepted')}; "
            f"e_where := {cstr(pr[1] or '')} |}}")


def core_mutants(c02, seed, bases, per_class):
    """exactly the mutants of c02.run()'s `single-fault-mutants` stream (same rng streams, same order)"""
    return c02.gen_mutants(seed, bases, per_class)


def corpus():
    """non-vacuity witnesses of Props/C02E.v as designs: references, no-connects, arrays beside each other;
    a no-connect that is also referenced through a chain; a reference to a missing port of an unconnected chain end"""
    inner = c01e.inner(1)
    def top(insts, sigs):
        return dict(mods=[copy.deepcopy(inner), dict(name="Top", ports=[], sigs=sigs, insts=insts)], exts=[], top=1)
    i = lambda name, conns, n=0: dict(name=name, n=n, of=["mod", 0], conns=conns)
    return [
        ("valid", top([i("i0", []), i("i1", [["a", ["ref", "i0", "a"]]]), i("i2", [["a", ["nc", 1, None]]]),
                       i("a0", [["a", ["sig", "b"]]], n=2), i("a1", [["a", ["ref", "i0", "a"]]], n=3)], [["b", 2]])),
        ("nc_ref", top([i("i0", [["a", ["nc", 1, None]]]), i("i1", [["a", ["ref", "i0", "a"]]]),
                        i("i2", [["a", ["ref", "i1", "a"]]])], [["s", 1]])),
        ("badref", top([i("i0", []), i("i1", [["a", ["ref", "i0", "nosuch"]]])], [["s", 1]])),
        ("missing", top([i("i0", []), i("i1", [["a", ["sig", "s"]]])], [["s", 1]])),
        ("array_missing", top([i("a0", [], n=2)], [["s", 1]])),
        ("width_ref", dict(mods=[copy.deepcopy(inner), c01e.inner(2),
                                 dict(name="Top", ports=[], sigs=[["s", 1]],
                                      insts=[dict(name="i0", n=0, of=["mod", 1], conns=[]),
                                             dict(name="i1", n=0, of=["mod", 0], conns=[["a", ["ref", "i0", "a"]]])])],
                           exts=[], top=2)),
    ]


def run_tie(run, tier, seed, bases, per_class):
    from . import c02
    muts, meta = core_mutants(c02, seed, bases, per_class)
    corp = corpus()
    designs = [d for _, d in corp] + list(bases) + muts
    metas = ([dict(cls="corpus:" + c, base=-1, top=True) for c, _ in corp] +
             [dict(cls="base", base=k, top=True) for k in range(len(bases))] + meta)
    outs = core.run_worker_sharded("c02e", [dict(design=m) for m in designs])
    cases = [c_case(c02, d, o) for d, o in zip(designs, outs)]
    pairs = dict(core.coq_eval_cases("C02", "pipeline", IMPORTS, "c02e_case", cases, "all_c02e", chunk=50))
    n = len(designs)
    code = {i: pairs.get(i, 0) // 1000 for i in range(n)}
    stage = {i: pairs.get(i, 0) % 1000 // 10 for i in range(n)}
    scope = {i: pairs.get(i, 0) % 10 for i in range(n)}
    per, passes = {}, {}
    for i, mt in enumerate(metas):
        e = per.setdefault(mt["cls"], dict(cases=0, agree=0, model_rejects=0, impl_rejects=0, in_theorem_scope=0, stages={}))
        e["cases"] += 1
        e["agree"] += int(code[i] == 0)
        e["model_rejects"] += int(stage[i] != 0)
        e["impl_rejects"] += int(outs[i]["to_proto"][0] != "accepted")
        e["in_theorem_scope"] += scope[i]
        st = STAGES[stage[i]]
        e["stages"][st] = e["stages"].get(st, 0) + 1
        if stage[i] != 0 and outs[i]["to_proto"][0] != "accepted":
            k = f"{st}|{outs[i]['to_proto'][1]}"
            passes[k] = passes.get(k, 0) + 1
    run.stream("pipeline-model", n, len({json.dumps(d, sort_keys=True) for d in designs}),
               verdict_agrees=sum(1 for i in range(n) if code[i] not in (1, 2, 4)),
               verdict_and_pass_agree=sum(1 for i in range(n) if code[i] == 0),
               both_reject=sum(1 for i in range(n) if stage[i] != 0 and outs[i]["to_proto"][0] != "accepted"),
               both_accept=sum(1 for i in range(n) if stage[i] == 0 and outs[i]["to_proto"][0] == "accepted"),
               in_theorem_scope=sum(scope.values()), model_stage_vs_impl_pass=passes, per_class=per,
               rule="every case is a core base design of the C02 stream, a single-fault mutant of one, or a corpus design; "
                    "distinct by design; non-trivial = has at least one instance connection (all do); the model's verdict, "
                    "its rejecting stage and the implementation's verdict / rejecting pass are compared inside Coq (Corr/C02E.v)")
    order = sorted(range(n), key=lambda i: len(json.dumps(designs[i])))
    any1 = any(code[i] == 1 for i in range(n))
    seen = set()
    for i in order:
        c = code[i]
        if c == 0 or (c, metas[i]["cls"]) in seen or len([1 for x in seen if x[0] == c]) >= 3:
            continue
        seen.add((c, metas[i]["cls"]))
        what = {1: "the implementation's verdict differs from the checked pipeline model and the specification sides with the model",
                2: "the checked pipeline model (Model/C02EPipeline.v) and the implementation disagree on accept/reject (tie broken)",
                4: "the checked pipeline model contradicts Props/C02E.v on a design inside the hypotheses (checker defect)",
                5: "model and implementation reject in different passes (tie broken on the rejecting pass)"}[c]
        run.violation(f"C02E:{c}:{metas[i]['cls']}:" + json.dumps(designs[i], sort_keys=True),
                      f"{what}: model stage {STAGES[stage[i]]}, implementation {json.dumps(outs[i])[:300]}",
                      dict(kind="impl-violates-spec" if c == 1 else "tie-broken", stream="pipeline-model", cls=metas[i]["cls"],
                           case=designs[i], impl=outs[i], model_stage=STAGES[stage[i]],
                           count=sum(1 for j in range(n) if code[j] == c)),
                      found_input=(c == 1) or any1)
    run.coverage["pipeline_model_tie"] = dict(cases=n, agree=sum(1 for i in range(n) if code[i] == 0))
    run.coverage["traces_validated_against_impl"] = run.coverage.get("traces_validated_against_impl", 0) + n
