"""C15 — PDK compilation swaps device targets and nothing else (DESIGN.md 6.14)."""
import json, itertools, os
from concurrent.futures import ThreadPoolExecutor
from . import core
from .core import cz, clist, cstr, cbool

IMPORTS = ("From Coq Require Import String.\n"
           "Require Import Hdl21.Base.PyInt Hdl21.Spec.PdkSpec Hdl21.Model.PdkSelect Hdl21.Model.Walker Hdl21.Model.PdkRegistry "
           "Hdl21.Model.C15Store Hdl21.Corr.C03 Hdl21.Corr.C15 Hdl21.Corr.C15Hist.\n"
           "Require Import Hdl21Gen.PdkTables_sky130 Hdl21Gen.PdkTables_gf180 Hdl21Gen.PdkTables_asap7 Hdl21Gen.PdkTables_sample.\n"
           "Open Scope string_scope.\nOpen Scope list_scope.")

PDK_C = dict(sample="Sample", sky130="Sky130", gf180="Gf180", asap7="Asap7")
PRIM_C = dict(Mos="Mos", PhysicalResistor="PRes", ThreeTerminalResistor="TRes", PhysicalCapacitor="PCap",
              ThreeTerminalCapacitor="TCap", Diode="Diode", Bipolar="Bipolar")
PRIM_PORTS = dict(Mos="dgsb", PhysicalResistor="pn", ThreeTerminalResistor="pnb", PhysicalCapacitor="pn",
                  ThreeTerminalCapacitor="pnb", Diode="pn", Bipolar="cbe")
CODE_CLASS = {11: "changed", 12: "device", 13: "size", 14: "mult", 15: "ports", 16: "samecall", 17: "netlist",
              18: "error", 19: "escape"}


# ---------------------------------------------------------------------------------------------- Coq printers
def c_pv(v):
    if v is None:
        return "PNone"
    if v[0] == "n":
        return f"(PNum {cz(v[1])} {cz(v[2])})"
    if v[0] == "l":
        return f"(PLit {cstr(v[1])})"
    return f"(PStr {cstr(v[1])})"


def c_opv(v, intstr=False):
    if v is None:
        return "None"
    if intstr and v[0] == "s" and v[1].lstrip("-").isdigit():      # PhysicalCapacitorParams.mult is a str
        v = ["n", int(v[1]), 1]
    return f"(Some {c_pv(v)})"


def c_params(p, prim):
    m = "None" if p["model"] is None else f"(Some {cstr(p['model'])})"
    cap = prim in ("PhysicalCapacitor", "ThreeTerminalCapacitor")
    return (f"{{| pm_model := {m}; pm_tp := {cstr(p['tp'])}; pm_fam := {cstr(p['fam'])}; pm_vth := {cstr(p['vth'])}; "
            f"pm_w := {c_opv(p['w'])}; pm_l := {c_opv(p['l'])}; pm_nf := {c_opv(p['nf'])}; pm_mult := {c_opv(p['mult'], cap)} |}}")


def c_conns(cs):
    return clist(cs, lambda c: f"({cstr(c[0])}, {cstr(c[1])})")


def c_target(t):
    k = t[0]
    if k == "mod":
        return f"(JMod {max(t[1], 0)})" if t[1] >= 0 else "JOther"
    if k == "prim":
        if t[1] in PRIM_C:
            return f"(JPrim {PRIM_C[t[1]]} {c_params(t[2], t[1])})"
        return f"(JPrim (POther {cstr(t[1])}) {c_params(t[2], t[1])})"
    if k == "call":
        fields = clist(sorted(t[5].items()), lambda kv: f"({cstr(kv[0])}, {c_pv(kv[1])})")
        return f"(JCall {t[1]} {cstr(t[2])} {clist(t[3], cstr)} {cstr(t[4])} {fields})"
    if k == "ext":
        return f"(JExt {cstr(t[1])})"
    return "JOther"


def c_inst(i):
    return "(" + cstr(i["n"]) + ", " + c_conns(i["conns"]) + ", " + c_target(i["of"]) + ")"


def c_design(d):
    # module names carry a per-job/copy tag on the implementation side
    return clist(d, lambda m: "(" + cstr(m["name"].rsplit("_", 1)[0]) + ", " + clist(m["insts"], c_inst) + ")")


def c_dcase(job, out):
    err = 0 if out["err"] is None else (1 if out["err"].get("desc") else 2)
    nl = out["netlist"] is not None and all(v[0] == "ok" for v in out["netlist"].values())
    pre = out["pre"] or []
    post = out["post"] or pre
    return (f"(DCase {PDK_C[job['pdk']]} {job['top']} {clist(pre, c_design)} {clist(post, c_design)} {err} {cbool(nl or err != 0)})")


# ---------------------------------------------------------------------------------------------- case generators
def inst(n, prim, params, nets=None):
    ports = PRIM_PORTS[prim]
    nets = nets or ["a", "b", "c", "d"]
    return dict(n=n, t="prim", prim=prim, params={k: v for k, v in params.items() if v is not None},
                conns={p: nets[i % len(nets)] for i, p in enumerate(ports)})


def single(pdk, prim, params, **kw):
    return dict(pdk=pdk, via=kw.get("via", "direct"), top=0, copies=kw.get("copies", 1), times=kw.get("times", 1),
                mods=[dict(name="T", insts=[inst("x", prim, params)])])


W1, L1, W2 = ["p", "1.5", "MICRO"], ["p", "0.5", "MICRO"], ["p", "2", "MICRO"]
SIZES = [dict(), dict(w=W1, l=L1), dict(w=W2), dict(l=["l", "lx"]), dict(w=["l", "w0 + dw"], l=["l", "(lx - dl) * 2"])]
SIZES_NUM = [dict(), dict(w=W1, l=L1), dict(w=W2)]


def arity_prim(kind, nports):
    if kind == "ress":
        return "PhysicalResistor" if nports == 2 else "ThreeTerminalResistor"
    if kind == "caps":
        return "PhysicalCapacitor" if nports == 2 else "ThreeTerminalCapacitor"
    return dict(diodes="Diode", bjts="Bipolar", xtors="Mos")[kind]


def select_jobs(tables, quick):
    jobs = []
    en = tables["enums"]
    for pdk in ("sky130", "gf180"):
        for e in tables[pdk + "_xtors"]:
            for sz in SIZES:
                for mult in (None, ["i", 2]):
                    jobs.append(single(pdk, "Mos", dict(model=e[0][0], mult=mult, **sz)))
            jobs.append(single(pdk, "Mos", dict(model=e[0][0], nf=["i", 4], w=W1)))
        for tp, fam, vth in itertools.product(en["tp"], en["fam"], en["vth"]):
            jobs.append(single(pdk, "Mos", dict(tp=tp, fam=fam, vth=vth)))
            jobs.append(single(pdk, "Mos", dict(tp=tp, fam=fam, vth=vth, w=W1, l=L1, mult=["i", 3])))
        for kind in ("ress", "caps", "diodes", "bjts"):
            for e in tables[f"{pdk}_{kind}"]:
                prim = arity_prim(kind, len(e[1][1]))
                szs = SIZES_NUM if kind in ("diodes", "bjts") else SIZES
                for sz in szs:
                    mults = [None]
                    if kind == "caps":
                        mults = [None, ["s", "2"]]
                    if kind == "bjts":
                        mults = [None, ["i", 2]]
                    for mult in mults:
                        jobs.append(single(pdk, prim, dict(model=e[0][0], mult=mult, **sz)))
                if kind in ("ress", "caps"):
                    # the table is shared by the two- and the three-terminal primitive: request the model through the
                    # primitive of the OTHER arity (2 -> 3 leaves `b` unconnected: recorded finding per (pdk, primitive);
                    # 3 -> 2 keeps every device port connected)
                    j = single(pdk, arity_prim(kind, 5 - len(e[1][1])), dict(model=e[0][0]))
                    j["arity"] = "cross"
                    jobs.append(j)
    for tp, vth in itertools.product(en["tp"], en["vth"]):
        for sz in SIZES:
            jobs.append(single("asap7", "Mos", dict(tp=tp, vth=vth, **sz)))
    jobs.append(single("asap7", "Mos", dict(tp="NMOS", vth="STD", model="anything", mult=["i", 2], nf=["i", 2])))
    for tp in en["tp"]:
        for sz in SIZES:
            for mult in (None, ["i", 2]):
                jobs.append(single("sample", "Mos", dict(tp=tp, mult=mult, **sz)))
        jobs.append(single("sample", "Mos", dict(tp=tp, vth="LOW", fam="IO", nf=["i", 2])))
    return jobs


def corpus_jobs():
    two_bjt = dict(pdk="gf180", via="direct", top=0, copies=1, times=1, mods=[dict(name="T", insts=[
        inst("q0", "Bipolar", dict(model="PNP_10p0x0p42")), inst("q1", "Bipolar", dict(model="PNP_10p0x0p42"))])])
    return [
        single("gf180", "Mos", dict(tp="NMOS", fam="CORE")),                        # pinned: StopIteration (every triple)
        single("gf180", "Mos", dict(tp="PMOS", fam="IO", vth="STD", w=W1)),
        single("sample", "Mos", dict(tp="PMOS"), via="module"),                     # pinned: AttributeError _mgr.register
        single("sky130", "Mos", dict(model="NMOS_1p8V_STD"), via="module"),
        two_bjt,                                                                    # pinned: two calls (diode cache consulted)
        single("sky130", "Mos", dict(tp="NMOS", fam="CORE", vth="HIGH")),           # pinned: StopIteration (no NMOS HVT)
        single("sky130", "Diode", dict(model="PWND_5p5V", w=W1)),                   # pinned: TypeError (l is None)
        single("sky130", "Mos", dict(model="NMOS_ISO_20p0V")),                      # 5-terminal device: port `sub` unconnected
        single("sky130", "Bipolar", dict(model="NPN_5p0V_1x2")),                    # 4-terminal device: port `s` unconnected
        single("gf180", "Bipolar", dict(model="NPN_5p0x5p0")),
        single("sky130", "PhysicalResistor", dict(model="GEN_ND")),                 # 3-terminal device from a 2-terminal primitive
        single("sky130", "ThreeTerminalResistor", dict(model="PP_PREC_0p35", l=L1)),  # given length ignored
        single("asap7", "Mos", dict(tp="PMOS", vth="LOW", w=W1), via="name"),
        single("sky130", "Diode", dict(model="PWND_5p5V", w=["l", "a"], l=["l", "b"])),   # Literal sizes: TypeError escapes (finding)
        single("gf180", "Diode", dict(model="ND2PS_3p3V", w=["l", "a"], l=["l", "b"])),
        single("sky130", "Mos", dict(tp="PMOS", fam="CORE", vth="LOW"), copies=2, times=2, via="default"),
        single("sample", "Mos", dict(tp="NMOS", l=["l", "lx"])),                    # before C15-7: TypeError (Literal <= 0) escapes
        single("asap7", "Mos", dict(tp="NMOS", vth="STD", l=["l", "lx"])),          # before C15-8: Literal became a dict, export fails
    ]


def malformed_jobs(tables):
    jobs = []
    for pdk in ("sky130", "gf180"):
        jobs.append(single(pdk, "Mos", dict(model="NO_SUCH_MODEL")))
        for prim in ("PhysicalResistor", "ThreeTerminalResistor", "PhysicalCapacitor", "ThreeTerminalCapacitor", "Diode", "Bipolar"):
            jobs.append(single(pdk, prim, dict(model="NO_SUCH_MODEL")))
            jobs.append(single(pdk, prim, dict()))                                   # model-only tables, no model given
            jobs.append(single(pdk, prim, dict(model="MosType.NMOS")))
        jobs.append(single(pdk, "Mos", dict(model="MosType.NMOS")))                 # an enum's rendering is not a model name
    jobs.append(single("sky130", "PhysicalCapacitor", dict(model="MIM_M3", mult=["s", "two"])))
    jobs.append(single("sample", "Mos", dict(tp="NMOS", w=["p", "-1", "MICRO"])))
    jobs.append(single("sample", "Mos", dict(tp="PMOS", l=["p", "0", "UNIT"])))
    jobs.append(single("asap7", "Mos", dict(tp="NMOS", vth="HIGH")))
    jobs.append(single("asap7", "Mos", dict(tp="PMOS", vth="NATIVE", fam="IO")))
    return jobs


def rand_params(r, tables, pdk):
    """(prim, params) — about 90% satisfiable requests"""
    en = tables["enums"]
    sz = r.choice(SIZES_NUM + [dict(w=W1, l=L1)])
    if pdk in ("sample", "asap7"):
        sz = r.choice(SIZES + [dict(w=W1, l=L1)])
        vth = r.choice(["STD", "LOW"]) if pdk == "asap7" or r.random() < 0.9 else r.choice(en["vth"])
        return "Mos", dict(tp=r.choice(en["tp"]), vth=vth, mult=r.choice([None, ["i", 2]]), **sz)
    kind = r.choice(["xtors", "xtors", "xtors", "ress", "caps", "diodes", "bjts"])
    tbl = tables[f"{pdk}_{kind}"]
    e = r.choice(tbl)
    if kind == "xtors":
        if r.random() < 0.5:
            return "Mos", dict(model=e[0][0], mult=r.choice([None, ["i", 2]]), **r.choice(SIZES))
        key = e[0]
        if r.random() < 0.1:
            return "Mos", dict(tp=r.choice(en["tp"]), fam=r.choice(en["fam"]), vth=r.choice(en["vth"]), **sz)
        get = lambda pre: [x.split(".")[1] for x in key if x.startswith(pre)]
        return "Mos", dict(tp=get("MosType.")[0], fam=get("MosFamily.")[0], vth=(get("MosVth.") or ["STD"])[0], **sz)
    prim = arity_prim(kind, len(e[1][1]))
    if kind == "bjts" and len(e[1][1]) != 3:
        e = [x for x in tbl if len(x[1][1]) == 3][0]
    model = e[0][0] if r.random() < 0.95 else "NO_SUCH_MODEL"
    return prim, dict(model=model, **sz)


def hier_job(r, tables):
    pdk = r.choice(["sky130", "sky130", "gf180", "gf180", "sample", "asap7"])
    nmods = r.choice([1, 2, 2, 3, 3, 4])
    pool = [rand_params(r, tables, pdk) for _ in range(r.choice([1, 2, 3]))]      # few distinct parameter sets: cache hits
    mods = []
    for k in range(nmods):
        insts = []
        for i in range(r.randint(1, 4)):
            u = r.random()
            nets = [r.choice("abcd") for _ in range(4)]
            if k > 0 and u < 0.45:
                insts.append(dict(n=f"i{i}", t="mod", ref=r.randrange(k), conns=dict(a=nets[0], b=nets[1])))
            elif u < 0.85:
                prim, params = r.choice(pool) if r.random() < 0.7 else rand_params(r, tables, pdk)
                if params.get("model") in ("NMOS_ISO_20p0V",):
                    params = dict(params, model="NMOS_20p0V_STD")                  # the known 5-terminal finding stays in its own stream
                if "_PREC_" in (params.get("model") or ""):
                    params = {k: v for k, v in params.items() if k != "l"}         # so does "precision resistors ignore a given length"
                insts.append(inst(f"i{i}", prim, params, nets))
            elif u < 0.93:
                insts.append(dict(n=f"i{i}", t="ext", conns=dict(a=nets[0], b=nets[1])))
            else:
                insts.append(dict(n=f"i{i}", t="ideal", conns=dict(p=nets[0], n=nets[1])))
        mods.append(dict(name=f"M{k}", insts=insts))
    top = nmods - 1 if r.random() < 0.9 else r.randrange(nmods)
    return dict(pdk=pdk, via=r.choice(["direct", "direct", "name", "module", "default"]), top=top,
                copies=r.choice([1, 1, 2]), times=r.choice([1, 2]), mods=mods)


def late_job(r, tables):
    """elaborate; re-target an instance of the elaborated top at a never-elaborated module holding instance arrays; compile"""
    pdk = r.choice(["sky130", "gf180", "sample", "asap7"])
    def prim_inst(n, arr):
        prim, params = rand_params(r, tables, pdk)
        if params.get("model") in ("NMOS_ISO_20p0V",):
            params = dict(params, model="NMOS_20p0V_STD")
        if "_PREC_" in (params.get("model") or ""):
            params = {k: v for k, v in params.items() if k != "l"}
        it = inst(n, prim, params, [r.choice("abcd") for _ in range(4)])
        if arr:
            it["arr"] = arr
        return it
    leaf = dict(name="M0", insts=[prim_inst("i0", 0)])
    top = dict(name="M1", insts=[dict(n="s0", t="mod", ref=0, conns=dict(a=r.choice("abcd"), b=r.choice("abcd"))), prim_inst("i1", 0)]
               + ([dict(n="s1", t="mod", ref=0, conns=dict(a="a", b="c"))] if r.random() < 0.5 else []))
    late = dict(name="L", insts=[prim_inst("p", r.choice([2, 2, 3])), prim_inst("n", r.choice([0, 0, 2]))])
    return dict(pdk=pdk, via=r.choice(["direct", "direct", "name", "module", "default"]), top=1, copies=1, times=r.choice([1, 2]),
                mods=[leaf, top], late=dict(inst="s0", mod=late))


def job_size(j):
    return (sum(len(m["insts"]) for m in j["mods"]), j.get("copies", 1), j.get("times", 1), len(json.dumps(j)))


def canon_job(j):
    j = {k: v for k, v in j.items() if k != "id"}
    return json.dumps(j, sort_keys=True, separators=(",", ":"))


def selector(j):
    it = j["mods"][0]["insts"][0]
    p = it.get("params", {})
    sel = p.get("model") or "/".join(str(p.get(k)) for k in ("tp", "fam", "vth"))
    if it.get("prim") == "Diode" and any((p.get(k) or [""])[0] == "l" for k in ("w", "l")):
        sel += ":literal"                                  # Literal diode sizes are their own (recorded) failure class
    return f"{j['pdk']}:{it.get('prim')}:{sel}"


def is_single(j):
    return len(j["mods"]) == 1 and len(j["mods"][0]["insts"]) == 1 and j["mods"][0]["insts"][0]["t"] == "prim"


def report_designs(run, stream, bad, jobs, outs):
    """one violation per (class, pdk, primitive, selector) for single-instance cases (smallest parameter set),
    the two smallest cases otherwise; code 2 only when no code-1x case exists in the stream"""
    groups = {}
    for i, code in bad:
        if code >= 11:
            cls = CODE_CLASS.get(code, str(code))
            j = jobs[i]
            gk = (cls, selector(j)) if is_single(j) else (cls, "design")
            if cls == "ports" and j.get("arity") == "cross" and is_single(j):
                # one group per (pdk, primitive): the exact member list is theorem C15_ports_covered
                gk = ("arity", f"{j['pdk']}:{j['mods'][0]['insts'][0]['prim']}")
            groups.setdefault(gk, []).append(i)
    known = {k.get("key") for k in run.known if k.get("status") == "finding"}
    fresh = {}          # (class, pdk, primitive) -> number of not-known violations already reported
    order = sorted(groups.items(), key=lambda kv: min(job_size(jobs[i]) for i in kv[1]) + (kv[0][1],))
    for (cls, sel), idxs in order:
        idxs.sort(key=lambda i: job_size(jobs[i]))
        for i in idxs[:1 if sel != "design" else 2]:
            j = jobs[i]
            key = f"C15:{cls}:{sel}" if sel != "design" else f"C15:{cls}:{canon_job(j)}"
            if key not in known:
                fk = (cls, j["pdk"], sel.split(":")[1] if sel != "design" else "design", sel if cls == "arity" else "")
                fresh[fk] = fresh.get(fk, 0) + 1
                if fresh[fk] > 2:       # the two smallest new failing cases per (class, PDK, primitive); known findings all
                    continue
            o = outs[i]
            what = (f"PDK compilation violates the property ({cls}) on {sel if sel != 'design' else 'a hierarchical design'}: "
                    f"err={json.dumps(o['err'])} netlist={json.dumps(o['netlist'])}")
            run.violation(key, what, dict(kind="impl-violates-spec", stream=stream, violation_class=cls, case=j,
                                          impl=dict(err=o["err"], netlist=o["netlist"], post=o["post"]),
                                          reproducer="harness/impl/c15.py kind=design with this job (PYTHONPATH=<repo>)",
                                          failing_cases=len(idxs), failing_groups_in_stream=len(groups)))
    ties = sorted([i for i, c in bad if c == 2], key=lambda i: job_size(jobs[i]))
    # a model/implementation disagreement is reported unless the stream already reports a NEW spec violation
    # (recorded findings do not hide it)
    if ties and not fresh:
        i = ties[0]
        run.violation(f"C15:{stream}:tie", f"model and implementation differ on {canon_job(jobs[i])[:300]} (property holds on every explored input)",
                      dict(kind="correspondence-broken", stream=stream, case=jobs[i], impl=outs[i], disagreeing_cases=len(ties),
                           theorem="C15 correspondence stream " + stream), found_input=False)
    return len(groups), len(ties)


def run_designs(run, stream, jobs, nontrivial, rule, **extra):
    for i, j in enumerate(jobs):
        j["id"] = i
    outs = core.run_worker_sharded("c15", jobs, common=dict(kind="design"))
    built = [(j, o) for j, o in zip(jobs, outs) if o["pre"] is not None]
    cases = [c_dcase(j, o) for j, o in built]
    bad = core.coq_eval_cases("C15", stream.replace("-", "_"), IMPORTS, "dcase", cases, "run_cases chk_design", chunk=60)
    bj, bo = [j for j, _ in built], [o for _, o in built]
    nviol, nties = report_designs(run, stream, bad, bj, bo)
    run.stream(stream, len(cases), len({canon_job(j) for j in bj if nontrivial(j)}),
               rejected_by_impl=sum(1 for o in bo if o["err"] is not None),
               rejected_fraction=round(sum(1 for o in bo if o["err"] is not None) / max(1, len(bo)), 3),
               build_failures=len(jobs) - len(built), spec_violation_groups=nviol, model_disagreements=nties,
               rule=rule, **extra)
    if built:
        j, o = built[len(built) // 2]
        run.sample(dict(stream=stream, case={k: v for k, v in j.items()}, impl=dict(err=o["err"], netlist=o["netlist"])))
    return bj, bo


# ---------------------------------------------------------------------------------------------- histories
# One module table whose shared sub-modules are shared OBJECTS, compiled several times, to one or several PDKs, entered
# at the top or at a sub-module; compilations may raise (a request the PDK has no device for) or map only some
# primitive kinds (sample PDK, ASAP7: Mos only).  The table is observed after EVERY compilation.
PDKS = ["sample", "sky130", "gf180", "asap7"]
VIAS = ["direct", "direct", "name", "module", "default"]


def leaf_mid_top(prims):
    """the smallest hierarchy with a shared sub-module below two parents"""
    return [dict(name="Leaf", insts=prims),
            dict(name="Mid", insts=[dict(n="l0", t="mod", ref=0, conns=dict(a="a", b="b"))]),
            dict(name="Top", insts=[dict(n="mid", t="mod", ref=1, conns=dict(a="a", b="b")),
                                    dict(n="l1", t="mod", ref=0, conns=dict(a="b", b="a"))])]


def hist_corpus():
    lvt = dict(tp="NMOS", fam="CORE", vth="LOW")                  # Sky130 has it (nfet_01v8_lvt), GF180 has no such device
    mr = lambda: [inst("m", "Mos", dict(lvt)), inst("r", "PhysicalResistor", dict(model="GEN_PO"))]
    return [
        # an earlier compilation to a PDK lacking the device raises; the same hierarchy is then compiled to Sky130
        dict(mods=leaf_mid_top(mr()), ops=[["gf180", "direct", 2], ["sky130", "direct", 2]]),
        # the sample PDK maps the Mos alone; Sky130 then maps the rest
        dict(mods=leaf_mid_top(mr()), ops=[["sample", "direct", 2], ["sky130", "direct", 2]]),
        # a sub-module first, then the top; then the top again
        dict(mods=leaf_mid_top(mr()), ops=[["sky130", "module", 0], ["sky130", "name", 2], ["sky130", "default", 2]]),
        # raises twice, for the same reason: the second walk must not return silently
        dict(mods=leaf_mid_top(mr()), ops=[["gf180", "direct", 2], ["gf180", "direct", 2], ["asap7", "direct", 1], ["gf180", "direct", 0]]),
        # the failing request comes AFTER instances that are rewritten: the store keeps the partial result
        dict(mods=leaf_mid_top([inst("r", "PhysicalResistor", dict(model="RM1")), inst("m", "Mos", dict(lvt)),
                                inst("q", "Diode", dict(model="ND2PS_3p3V"))]),
             ops=[["gf180", "direct", 1], ["gf180", "direct", 2], ["sky130", "direct", 2]]),
        # independent hierarchies in one process, each compiled to its own PDK, equal requests in all of them:
        # every PDK selects its own device, whatever the others built for the same parameters before
        dict(mods=[dict(name=nm, insts=[inst("m", "Mos", dict(tp="NMOS", fam="CORE", vth="STD")), inst("n", "Mos", dict(tp="NMOS", fam="CORE", vth="STD"))])
                   for nm in ("A", "B", "C", "D")],
             ops=[["sample", "direct", 0], ["sky130", "name", 1], ["gf180", "name", 2], ["asap7", "name", 3], ["gf180", "direct", 0], ["sky130", "direct", 0]]),
    ]


def hist_job(r, tables):
    home = r.choice(["sky130", "sky130", "sky130", "gf180", "gf180", "gf180", "sample", "asap7"])
    others = [p for p in PDKS if p != home]
    nmods = r.choice([2, 3, 3, 4, 4, 5])
    pool = [rand_params(r, tables, home) for _ in range(r.choice([1, 2, 3]))]
    # requests by (type, family, threshold): satisfiable by several PDKs, or by one only
    en = tables["enums"]
    pool.append(("Mos", dict(tp=r.choice(en["tp"]), fam=r.choice(["CORE", "CORE", "IO", "NONE"]), vth=r.choice(["STD", "STD", "LOW", "HIGH"]))))
    if r.random() < 0.25:
        pool.append(rand_params(r, tables, r.choice(others)))              # a request of another PDK: fails for `home`
    mods = []
    for k in range(nmods):
        insts = []
        for i in range(r.randint(1, 4)):
            u = r.random()
            nets = [r.choice("abcd") for _ in range(4)]
            if k > 0 and u < 0.5:
                insts.append(dict(n=f"i{i}", t="mod", ref=r.randrange(k), conns=dict(a=nets[0], b=nets[1])))
            elif u < 0.9 or k == 0:
                prim, params = r.choice(pool)
                if params.get("model") in ("NMOS_ISO_20p0V",):
                    params = dict(params, model="NMOS_20p0V_STD")
                if "_PREC_" in (params.get("model") or ""):
                    params = {kk: v for kk, v in params.items() if kk != "l"}
                insts.append(inst(f"i{i}", prim, params, nets))
            elif u < 0.95:
                insts.append(dict(n=f"i{i}", t="ext", conns=dict(a=nets[0], b=nets[1])))
            else:
                insts.append(dict(n=f"i{i}", t="ideal", conns=dict(p=nets[0], n=nets[1])))
        mods.append(dict(name=f"M{k}", insts=insts))
    top = nmods - 1
    sub = r.randrange(nmods)
    other = r.choice(others)
    part = r.choice(["sample", "asap7"]) if home in ("sky130", "gf180") else r.choice(["sky130", "gf180"])
    pat = r.choice(["other-home", "other-home", "part-home", "part-home", "sub-top", "othersub-home", "again", "random", "random"])
    if pat == "other-home":
        seq = [(other, top), (home, top)]
    elif pat == "part-home":
        seq = [(part, top), (home, top)]
    elif pat == "sub-top":
        seq = [(home, sub), (home, top)]
    elif pat == "othersub-home":
        seq = [(other, sub), (home, top), (home, top)]
    elif pat == "again":
        seq = [(other, top), (other, top), (home, top), (other, top)]
    else:
        seq = [(r.choice(PDKS), r.choice([top, top, r.randrange(nmods)])) for _ in range(r.randint(2, 4))]
    return dict(mods=mods, ops=[[pk, r.choice(VIAS), tp] for pk, tp in seq], pattern=pat)


def hjob_size(j):
    return (sum(len(m["insts"]) for m in j["mods"]), len(j["ops"]), len(json.dumps(j)))


def canon_hjob(j):
    return json.dumps({k: v for k, v in j.items() if k in ("mods", "ops")}, sort_keys=True, separators=(",", ":"))


def c_hcase(job, out):
    steps = []
    for (pdk, via, top), st in zip(job["ops"], out["steps"]):
        e = 0 if st["err"] is None else (1 if st["err"].get("desc") else 2)
        nl = 2 if st["netlist"] is None else (1 if all(v[0] == "ok" for v in st["netlist"].values()) else 0)
        steps.append(f"(HStep {PDK_C[pdk]} {top} {c_design(st['post'])} {e} {nl})")
    return f"(HCase {c_design(out['pre'])} {clist(steps)})"


def hist_reach(job, top):
    seen, todo = set(), [top]
    while todo:
        k = todo.pop()
        if k in seen:
            continue
        seen.add(k)
        todo.extend(it["ref"] for it in job["mods"][k]["insts"] if it["t"] == "mod")
    return seen


def hist_features(job, out):
    """what the history exercised, read off the implementation's observations"""
    f = set()
    nm = len(job["mods"])
    refs = [sum(1 for md in job["mods"] for it in md["insts"] if it["t"] == "mod" and it["ref"] == k) for k in range(nm)]
    if len({op[0] for op in job["ops"]}) >= 2:
        f.add("several_pdks")
    prev = out["pre"]
    entered = []           # (reachable set, raised?) of the earlier compilations
    for (pdk, via, top), st in zip(job["ops"], out["steps"]):
        swapped = {k for k in range(nm) for a, b in zip(prev[k]["insts"], st["post"][k]["insts"]) if a["of"][0] == "prim" and b["of"][0] == "call"}
        rs = hist_reach(job, top)
        if st["err"] is not None:
            f.add("raised")
            if swapped:
                f.add("raised_after_rewriting")
        else:
            for rs0, raised0 in entered:
                hit = swapped & rs0
                if hit:
                    f.add("swap_after_raise" if raised0 else "swap_after_return")
                    if any(refs[k] >= 2 for k in hit):
                        f.add(("swap_after_raise" if raised0 else "swap_after_return") + "_shared")
            if not swapped and any(rs0 >= rs and not raised0 for rs0, raised0 in entered):
                f.add("recompiled_unchanged")
        if any(rs > rs0 and top not in rs0 for rs0, _ in entered):
            f.add("sub_then_parent")
        entered.append((rs, st["err"] is not None))
        prev = st["post"]
    return f


HIST_TARGETS = ["several_pdks", "raised", "raised_after_rewriting", "swap_after_raise", "swap_after_raise_shared",
                "swap_after_return", "swap_after_return_shared", "recompiled_unchanged", "sub_then_parent"]


def run_histories(run, stream, jobs, check_targets=True):
    for i, j in enumerate(jobs):
        j["id"] = i
    outs = core.run_worker_sharded("c15", jobs, common=dict(kind="history"))
    built = [(j, o) for j, o in zip(jobs, outs) if o["pre"] is not None]
    cases = [c_hcase(j, o) for j, o in built]
    bad = core.coq_eval_cases("C15", stream, IMPORTS, "hcase", cases, "run_cases chk_hist", chunk=40)
    bj, bo = [j for j, _ in built], [o for _, o in built]
    groups = {}
    for i, code in bad:
        if code >= 11:
            groups.setdefault(CODE_CLASS.get(code, str(code)), []).append(i)
    for cls, idxs in sorted(groups.items()):
        idxs.sort(key=lambda i: hjob_size(bj[i]))
        for i in idxs[:2]:
            j, o = bj[i], bo[i]
            obs = [dict(err=s["err"], netlist=s["netlist"]) for s in o["steps"]]
            run.violation(f"C15:{cls}:history:{canon_hjob(j)}",
                          f"a history of PDK compilations violates the property ({cls}): ops={json.dumps(j['ops'])} outcomes={json.dumps(obs)}",
                          dict(kind="impl-violates-spec", stream="histories", violation_class=cls,
                               case={k: v for k, v in j.items() if k in ("mods", "ops")},
                               impl=dict(pre=o["pre"], steps=o["steps"]), failing_cases=len(idxs),
                               reproducer="harness/impl/c15.py kind=history with this job (PYTHONPATH=<repo>): build the module table once, "
                                          "run the compilations in order, look at Instance.of of every instance after each"))
    ties = sorted([i for i, c in bad if c == 2], key=lambda i: hjob_size(bj[i]))
    if ties and not groups:
        i = ties[0]
        run.violation(f"C15:{stream}:tie", f"store model and implementation differ on history {canon_hjob(bj[i])[:300]} (property holds on every explored history)",
                      dict(kind="correspondence-broken", stream="histories", case={k: v for k, v in bj[i].items() if k in ("mods", "ops")},
                           impl=bo[i], disagreeing_cases=len(ties), theorem="C15 correspondence stream histories (Model/C15Store.v hrun)"),
                      found_input=False)
    feats = {}
    for j, o in built:
        for f in hist_features(j, o):
            feats[f] = feats.get(f, 0) + 1
    # the features are read off the implementation's observations: when the stream reports a violation of the property
    # they say nothing about the generator, and the check fails anyway
    if check_targets and not groups:
        for tname in HIST_TARGETS:
            if not feats.get(tname):
                run.violation(f"C15:coverage:histories:{tname}", f"coverage target missed: no history with {tname} (fail closed)",
                              dict(kind="coverage", stream="histories", measured=feats), found_input=False)
    steps = [s for o in bo for s in o["steps"]]
    run.stream(stream, len(cases), len({canon_hjob(j) for j in bj if len(j["ops"]) >= 2 and len(j["mods"]) >= 2}),
               compilations=len(steps), raised=sum(1 for s in steps if s["err"] is not None),
               raised_fraction=round(sum(1 for s in steps if s["err"] is not None) / max(1, len(steps)), 3),
               build_failures=len(jobs) - len(built), spec_violation_groups=len(groups), model_disagreements=len(ties),
               features=feats, patterns={p: sum(1 for j in bj if j.get("pattern", "corpus") == p) for p in sorted({j.get("pattern", "corpus") for j in bj})},
               pdk_sequences=len({tuple(op[0] for op in j["ops"]) for j in bj}),
               rule="non-trivial = at least 2 modules and 2 compilations; distinct by (module table, compilations)")
    if built:
        j, o = built[0]
        run.sample(dict(stream=stream, case={k: v for k, v in j.items() if k in ("mods", "ops")},
                        impl=[dict(err=s["err"], netlist=s["netlist"]) for s in o["steps"]]))
    return feats


# ---------------------------------------------------------------------------------------------- registry
def registry_history(r):
    kinds = ["ok", "ok", "ok", "ok", "nocompile", "twoargs", "badann", "badret"]
    mods = [["pdk_a", "ok"], ["pdk_b", "ok"], ["pdk_a", "ok"], ["pdk_c", r.choice(kinds)], ["pdk_d", r.choice(kinds[4:])]]
    ops = []
    for _ in range(r.randint(3, 9)):
        u = r.random()
        k = r.randrange(len(mods))
        name = r.choice(["pdk_a", "pdk_b", "pdk_c", "pdk_d", "nope"])
        if u < 0.25:
            ops.append(["register", k])
        elif u < 0.35:
            ops.append(["set_default", "module", k])
        elif u < 0.42:
            ops.append(["set_default_name", name])
        elif u < 0.5:
            ops.append(["default"])
        elif u < 0.65:
            ops.append(["compile", "default"])
        elif u < 0.8:
            ops.append(["compile", "name", name])
        else:
            ops.append(["compile", "module", k])
    return dict(modules=mods, ops=ops)


REG_CORPUS = [
    dict(modules=[["pdk_a", "ok"]], ops=[["compile", "module", 0], ["compile", "name", "pdk_a"], ["compile", "default"]]),   # pinned: AttributeError
    dict(modules=[["pdk_a", "ok"], ["pdk_b", "ok"]], ops=[["register", 0], ["compile", "default"], ["register", 1], ["compile", "default"],
                                                         ["set_default", "module", 1], ["compile", "default"], ["default"]]),
    dict(modules=[["pdk_a", "ok"], ["pdk_b", "nocompile"]], ops=[["register", 1], ["compile", "module", 1], ["compile", "name", "pdk_b"],
                                                                ["set_default", "module", 0], ["set_default_name", "nope"], ["compile", "default"]]),
]


def c_rop(op, res):
    if op[0] == "register":
        o = f"ORegister {op[1]}%N"
    elif op[0] == "set_default":
        o = f"OSetDefaultMod {op[2]}%N"
    elif op[0] == "set_default_name":
        o = f"OSetDefaultName {cstr(op[1])}"
    elif op[0] == "default":
        o = "ODefault"
    elif op[1] == "default":
        o = "OCompileDefault"
    elif op[1] == "name":
        o = f"OCompileName {cstr(op[2])}"
    else:
        o = f"OCompileMod {op[2]}%N"
    if res[0] == "ok":
        r = "IOk None" if res[1] is None else f"IOk (Some {cz(res[1])})"
    else:
        r = "IRej" if res[0] == "rej" else "IEsc"
    return f"({o}, {r})"


def run_registry(run, seed, n):
    hs = list(REG_CORPUS)
    k = 0
    while len(hs) < n:
        hs.append(registry_history(core.rng(seed, "C15", "registry", k)))
        k += 1
    with ThreadPoolExecutor(max_workers=core.NPROC) as ex:
        outs = list(ex.map(lambda hh: core.run_worker("c15", dict(kind="registry", **hh))["results"], hs))
    def c_minfo(m):
        return "(" + cstr(m[0]) + ", " + cbool(m[1] == "ok") + ")"
    cases = ["(" + clist(hh["modules"], c_minfo) + ", " + clist(list(zip(hh["ops"], o)), lambda x: c_rop(x[0], x[1])) + ")"
             for hh, o in zip(hs, outs)]
    bad = core.coq_eval_cases("C15", "registry", IMPORTS, "rcase", cases, "run_cases chk_registry", chunk=100)
    v1 = sorted([i for i, c in bad if c >= 11], key=lambda i: len(hs[i]["ops"]))
    for i in v1[:1]:
        # shrink: shortest failing prefix is already what the evaluator flags first; report the history
        run.violation("C15:registry:" + json.dumps(hs[i], sort_keys=True, separators=(",", ":")),
                      f"hdl21.pdk registry violates the property on history {json.dumps(hs[i]['ops'])}: {json.dumps(outs[i])}",
                      dict(kind="impl-violates-spec", stream="registry", case=hs[i], impl=outs[i], failing_cases=len(v1),
                           reproducer="harness/impl/c15.py kind=registry with this history (fresh interpreter)"))
    v2 = [i for i, c in bad if c == 2]
    if v2 and not v1:
        i = v2[0]
        run.violation("C15:registry:tie", f"registry model and implementation differ on {json.dumps(hs[i])}",
                      dict(kind="correspondence-broken", stream="registry", case=hs[i], impl=outs[i], disagreeing_cases=len(v2),
                           theorem="C15 correspondence stream registry"), found_input=False)
    run.stream("registry-histories", len(cases), len({json.dumps(hh) for hh in hs if len(hh["ops"]) >= 3}),
               fresh_interpreter_per_history=True, rejections=sum(1 for o in outs for x in o if x[0] != "ok"),
               operations=sum(len(o) for o in outs), rule="non-trivial = at least 3 registry operations; distinct by history")
    run.sample(dict(stream="registry", case=hs[1], impl=outs[1]))


# ---------------------------------------------------------------------------------------------- logic cells
def run_cells(run, seed, quick):
    lst = core.run_worker("c15", dict(kind="cells_list"))["results"]
    idx = list(range(len(lst)))
    if quick:
        r = core.rng(seed, "C15", "cells")
        # always include the cells with bracketed port names, then a seeded sample
        special = [i for i in idx if "mux" in lst[i][1] and "b" in lst[i][1]][:10]
        idx = sorted(set(special + r.sample(idx, 150)))
    outs = core.run_worker_sharded("c15", idx, common=dict(kind="cell"), nproc=min(core.NPROC, 8 if quick else 16))

    def ok_ascii(s):
        return all(32 <= ord(ch) < 127 for ch in s)

    def oc(l):
        return "None" if l is None else f"(Some {clist(l, cstr)})"
    cases = [f"({cstr(o['name'])}, {clist(o['ports'], cstr)}, {clist(o['nets'] or [], cstr)}, {oc(o['spice'])}, {oc(o['spectre'])}, {cbool(o['err'] is not None)})"
             for o in outs]
    bad = core.coq_eval_cases("C15", "cells", IMPORTS, "ccase", cases, "run_cases chk_cell", chunk=200)
    for i, code in sorted(bad, key=lambda x: len(outs[x[0]]["ports"]))[:3]:
        o = outs[i]
        run.violation(f"C15:cell:{o['lib']}:{o['attr']}", f"logic cell {o['name']} cannot be instantiated with all ports connected and netlisted: "
                      f"err={json.dumps(o['err'])} spice={o['spice']} spectre={o['spectre']}",
                      dict(kind="impl-violates-spec", stream="cells", case=dict(lib=o["lib"], cell=o["attr"]), impl=o, failing_cases=len(bad),
                           reproducer=f"instantiate {o['lib']}.{o['attr']}()(**all ports) in a module; h.netlist(spice, spectre)"))
    run.stream("logic-cells", len(cases), len({o["name"] for o in outs if len(o["ports"]) >= 5}), library_cells=len(lst),
               exhaustive=not quick, rule="non-trivial = at least 5 ports; distinct by cell name")
    run.sample(dict(stream="cells", case=outs[0]["name"], spice=outs[0]["spice"]))


# ---------------------------------------------------------------------------------------------- entries
def run_entries(run, tables):
    tref = {"sky130_xtors": "table Sky130 GMos", "sky130_ress": "table Sky130 GRes", "sky130_caps": "table Sky130 GCap",
            "sky130_diodes": "table Sky130 GDiode", "sky130_bjts": "table Sky130 GBjt", "sky130_vpps": "sky130_vpps",
            "gf180_xtors": "table Gf180 GMos", "gf180_ress": "table Gf180 GRes", "gf180_caps": "table Gf180 GCap",
            "gf180_diodes": "table Gf180 GDiode", "gf180_bjts": "table Gf180 GBjt",
            "asap7_mos_modules": "table Asap7 GMos", "sample_mos_modules": "table Sample GMos"}
    ents = [(t, k, e) for t in tref for k, e in enumerate(tables[t])]
    cases = [f"({tref[t]}, {k}%nat, ({clist(e[0], cstr)}, ({cstr(e[1][0])}, {clist(e[1][1], cstr)}, {cstr(e[1][2])})))" for t, k, e in ents]
    prelude = ("Definition chk_live (c : list entry * nat * entry) : Z := let '(t, k, e) := c in\n"
               "  match nth_error t k with\n"
               "  | Some g => if strs_eqb (fst g) (fst e) && String.eqb (dev_name (snd g)) (dev_name (snd e)) && strs_eqb (dev_ports (snd g)) (dev_ports (snd e))\n"
               "                 && String.eqb (dev_class (snd g)) (dev_class (snd e)) then chk_entry e else 2\n"
               "  | None => 2 end.\n")
    bad = core.coq_eval_cases("C15", "entries", IMPORTS, "list entry * nat * entry", cases, "run_cases chk_live", chunk=150, prelude=prelude)
    for i, code in bad:
        t, k, e = ents[i]
        if code == 2:
            run.violation("C15:entries:tie", f"generated table {t} differs from the live table at entry {k}",
                          dict(kind="correspondence-broken", stream="entries", case=[t, k, e], theorem="translator cross-check"), found_input=False)
            break
    for i, code in [b for b in bad if b[1] != 2][:3]:
        t, k, e = ents[i]
        run.violation(f"C15:device:{t}:{e[0][0]}", f"device table {t}: entry {e[0]} names the device {e[1][0]!r}, which is not a netlist identifier (or has duplicate ports)",
                      dict(kind="impl-violates-spec", stream="entries", case=[t, e], failing_cases=len([b for b in bad if b[1] != 2]),
                           reproducer=f"{t}[{e[0]}].name"))
    run.stream("table-entries", len(cases), len(cases), exhaustive=True, tables={t: len(tables[t]) for t in tref},
               rule="every entry of every device table; all count (device name, ports, parameter class)")


def run(run, tier, seed, replay=None):
    quick = tier == "quick"
    if replay is not None and replay.get("case") is not None and replay.get("stream") == "histories":
        run_histories(run, "histories", [dict(replay["case"])], check_targets=False)
        return
    if replay is not None and replay.get("case") is not None and replay.get("stream") not in ("registry", "cells", "entries"):
        run_designs(run, "replay", [dict(replay["case"])], lambda j: True, "replayed case")
        return
    tables = core.run_worker("c15", dict(kind="tables"))["results"]
    run_entries(run, tables)
    single_nt = lambda j: True
    run_designs(run, "corpus", corpus_jobs(), single_nt, "pinned-tree witnesses and representative requests; all count")
    sj = select_jobs(tables, quick)
    bj, bo = run_designs(run, "select-exhaustive", sj,
                         lambda j: j["mods"][0]["insts"][0]["params"].get("model") is not None or len(j["mods"][0]["insts"][0]["params"]) >= 3,
                         "non-trivial = selected by model name, or by a full (type, family, threshold) triple; distinct by job",
                         exhaustive_over="every entry of every mapped device table x sizes given/defaulted/partial/literal x multiplier; every (type, family, threshold) triple")
    n_h = 250 if quick else 4000
    hj = [hier_job(core.rng(seed, "C15", "hier", k), tables) for k in range(n_h)]
    run_designs(run, "hierarchy", hj, lambda j: len(j["mods"]) >= 2 and sum(len(m["insts"]) for m in j["mods"]) >= 4,
                "non-trivial = at least 2 modules and 4 instances; distinct by job",
                shared_submodule=sum(1 for j in hj if any(sum(1 for m in j["mods"] for it in m["insts"] if it["t"] == "mod" and it["ref"] == k) >= 2 for k in range(len(j["mods"])))),
                two_copies=sum(1 for j in hj if j["copies"] == 2), compiled_twice=sum(1 for j in hj if j["times"] == 2),
                via={v: sum(1 for j in hj if j["via"] == v) for v in ("direct", "name", "module", "default")})
    lj = [late_job(core.rng(seed, "C15", "late", k), tables) for k in range(24 if quick else 400)]
    run_designs(run, "retarget", lj, lambda j: True,
                "elaborate, re-target an instance of the elaborated top at a never-elaborated module with instance arrays, compile; all count",
                arrays=sum(1 for j in lj for it in j["late"]["mod"]["insts"] if it.get("arr")))
    n_hist = 160 if quick else 2500
    run_histories(run, "histories", hist_corpus() + [hist_job(core.rng(seed, "C15", "hist", k), tables) for k in range(n_hist)])
    run_designs(run, "malformed", malformed_jobs(tables), lambda j: True, "requests no device satisfies / rejected parameter values; all count")
    run_registry(run, seed, 24 if quick else 240)
    run_cells(run, seed, quick)
    run.coverage["traces_validated_against_impl"] = run.coverage["evaluations"]
