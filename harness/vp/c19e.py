"""C19E — tie of the written design of the generated module (coq Model/C19EDesign.v: series_design / wrapper_design) and the
pipeline model (Model/C01FElab.v: elab_export_model2) to the implementation.

Called from the END of harness/vp/c19.py:run() with the streams of C19.  For every call of Series / MosStack / Wrapper of
those streams whose unit is a leaf (a primitive or an external module: signal-valued ports only, nothing inside) - stacks over
one-bit and over bus-valued series pairs alike (fixes/C19W-1) - the implementation is run again (harness/impl/c19.py, the same driver) and Coq
(Corr/C19E.v:chk_c19e) computes the package the pipeline model exports for the design and compares it with the
implementation's package: external declarations, module name, signals, ports, directions, the flattened instances
units_0..units_{n-1} with their invented names, references, parameters and every connection target - up to the order of
the connections inside one instance.  Codes: 0 equal, 2 differ (tie broken), 3 harness, 4 model contradicts Props/C19E.v.
The module name, the unit's identity (domain, name, parameter strings, declaration) and the port directions are read
from the implementation's package: they are inputs of the exporter the generators do not decide.
"""
import json, os, subprocess
from concurrent.futures import ThreadPoolExecutor
from . import core, design as D
from .core import cz, cstr, clist

IMPORTS = ("Require Import Hdl21.Base.PyInt Hdl21.Base.Design Hdl21.Base.Package Hdl21.Model.C01EElab "
           "Hdl21.Corr.C03 Hdl21.Corr.C19E.\nOpen Scope string_scope.")

WIDE_TARGET = 10        # bus-valued series pairs with n >= 2 the tie must have compared (fail closed)


def _limits():
    import resource
    resource.setrlimit(resource.RLIMIT_AS, (4 << 30, 4 << 30))


def run_isolated(jobs, timeout=40):
    """One fresh interpreter per job (with its `after` history), memory- and time-limited: a call that makes the implementation
    hang, die or eat memory is a rejected call (stage `crash`), not a failure of the check."""
    path = os.path.join(core.VERIF, "harness", "impl", "c19e.py")

    def one(j):
        try:
            p = subprocess.run([core.PY, path], input=json.dumps(dict(jobs=[j])), capture_output=True, text=True,
                               env=core.impl_env("0"), timeout=timeout, cwd="/", preexec_fn=_limits)
            if p.returncode != 0:
                raise RuntimeError(f"worker died rc={p.returncode}: " + (p.stderr.strip().splitlines() or [""])[-1][:160])
            return json.loads(p.stdout.strip().splitlines()[-1])["results"][0]
        except subprocess.TimeoutExpired:
            return dict(pkg=None, err=dict(cls="WorkerDied", msg=f"no answer within {timeout} s"), stage="crash")
        except Exception as e:
            return dict(pkg=None, err=dict(cls="WorkerDied", msg=str(e)[:200]), stage="crash")
    with ThreadPoolExecutor(max_workers=core.NPROC) as ex:
        return list(ex.map(one, jobs))


def leaf_case(c19, job, prims):
    """(gen code, io, a, b, n) of a C19 job the design model covers, else None."""
    u = job.get("unit") or dict(kind="prim", name="Mos")
    if u["kind"] not in ("prim", "ext") or job.get("pre"):
        return None
    io = [(n, w) for n, w, _ in c19.unit_sigs(u, prims)]
    names = [n for n, _ in io]
    g = job["gen"]
    if g == "wrapper":
        return (2, io, "", "", 1)
    if g == "mosstack":
        a, b, n = "d", "s", job.get("nser")
        n = 1 if n is None else n
    else:
        conns = job.get("conns") or [None, None]
        a, b, n = c19.conn_name(conns[0]), c19.conn_name(conns[1]), job.get("nser")
    if not isinstance(n, int) or n < 1:
        return None
    if n == 1:
        return (GENCODE[g], io, "", "", 1)
    if a is None or b is None or a == b or a not in names or b not in names:
        return None
    if dict(io)[a] != dict(io)[b]:
        return None
    return (GENCODE[g], io, a, b, n)


GENCODE = {"series": 0, "mosstack": 1, "wrapper": 2}


def dev_of(job, out):
    """(dom, name, params, ext decl | None) of the unit as the exporter writes it."""
    pkg = out["pkg"]
    if pkg is not None and pkg["mods"] and pkg["mods"][-1]["insts"]:
        i0 = pkg["mods"][-1]["insts"][0]
        if i0["ref"][0] == "ext":
            dom, nm = i0["ref"][1], i0["ref"][2]
            decl = next((x for x in pkg["exts"] if x["domain"] == dom and x["name"] == nm), None)
            return dom, nm, [tuple(kv) for kv in i0["params"]], decl
    u = job.get("unit")
    if u is not None and u["kind"] == "ext":
        return "", u["name"], [("tag", f"int:{u.get('tag', 1)}")], dict(domain="", name=u["name"], ports=[[n, w, 3] for n, w in u["ports"]])
    return None


def c_case(job, out, lc):
    gen, io, a, b, n = lc
    dev = dev_of(job, out)
    if dev is None:
        return None
    dom, nm, params, decl = dev
    if decl is None:
        e = "None"
    else:
        ports = clist(decl["ports"], lambda p: f"({cstr(p[0])}, {cz(p[1])}, {cz(p[2])})")
        e = (f"(Some {{| px_domain := {cstr(decl['domain'])}; px_name := {cstr(decl['name'])}; px_ports := {ports}; "
             f"px_spicetype := \"SUBCKT\" |}})")
    dv = (f"{{| dv_dom := {cstr(dom)}; dv_name := {cstr(nm)}; "
          f"dv_params := {clist(params, lambda kv: f'({cstr(kv[0])}, {cstr(kv[1])})')}; dv_ext := {e} |}}")
    pkg = out["pkg"]
    if pkg is not None:
        top = pkg["mods"][-1]
        mod, dirs = top["name"], [(p[0], p[1]) for p in top["ports"]]
    else:
        mod, dirs = "Series", [(p, 3) for p, _ in io]
    pk = "None" if pkg is None else f"(Some {D.c_pkg(pkg)})"
    return (f"{{| e_gen := {gen}; e_io := {clist(io, lambda p: f'({cstr(p[0])}, {cz(p[1])})')}; e_a := {cstr(a)}; e_b := {cstr(b)}; "
            f"e_n := {cz(n)};\n  e_mod := {cstr(mod)}; e_dev := {dv};\n  e_dirs := {clist(dirs, lambda p: f'({cstr(p[0])}, {cz(p[1])})')};\n"
            f"  e_pkg := {pk} |}}")


def run_tie(run, tier, seed, streams, prims):
    from . import c19
    quick = tier == "quick"
    jobs, lcs, seen = [], [], set()
    shapes = shape_jobs()
    shape_outs = run_isolated(shapes)
    from_shape = {}
    for name, sj, _ in list(streams) + [("shapes", shapes, "")]:
        for pos, j in enumerate(sj):
            lc = leaf_case(c19, j, prims)
            if lc is None:
                continue
            key = json.dumps([lc[0] if lc[4] == 1 else 0, j.get("unit"), lc[2], lc[3], lc[4]], sort_keys=True)
            if key in seen:
                continue                      # the same call given by name / by the unit's port / by an unrelated Signal
            seen.add(key)
            if not quick and lc[4] > 8 and len(seen) % 4 != 0:
                continue                      # thorough tier: every n <= 8, every fourth of the larger stacks
            if name == "shapes":
                from_shape[len(jobs)] = pos
            jobs.append(j)
            lcs.append(lc)
    plain = [k for k in range(len(jobs)) if k not in from_shape]
    plain_outs = core.run_worker_sharded("c19", [jobs[k] for k in plain])
    outs = [None] * len(jobs)
    for k, o in zip(plain, plain_outs):
        outs[k] = o
    for k, pos in from_shape.items():
        outs[k] = shape_outs[pos]            # run once, with their history, each in a process of its own
    cases, idx, early = [], [], []
    for k, (j, o, lc) in enumerate(zip(jobs, outs, lcs)):
        c = c_case(j, o, lc)
        dev = dev_of(j, o)
        other_unit = dev is not None and dev[3] is not None and [(q[0], q[1]) for q in dev[3]["ports"]] != [tuple(q) for q in lc[1]]
        if c is None or other_unit or o["pkg"] is None:
            early.append(k)                   # a call the design model accepts, rejected by the implementation
            continue
        cases.append(c)
        idx.append(k)
    bad = core.coq_eval_cases("C19", "pipeline_tie", IMPORTS, "c19e_case", cases, "run_cases chk_c19e", chunk=40)
    code = {idx[i]: c for i, c in bad}
    for k in early:
        code[k] = 2
    n = len(jobs)
    nclass = lambda v: "n=1" if v == 1 else "n=2" if v == 2 else "n=3" if v == 3 else "n>=4"
    by_n = {}
    for lc in lcs:
        by_n[nclass(lc[4])] = by_n.get(nclass(lc[4]), 0) + 1
    is_wide = lambda lc: lc[4] >= 2 and dict(lc[1])[lc[2]] > 1
    wide_n = sum(1 for lc in lcs if is_wide(lc))
    wide_equal = sum(1 for k, lc in enumerate(lcs) if is_wide(lc) and code.get(k, 0) == 0)
    ports3 = sum(1 for lc in lcs if len(lc[1]) >= 3)
    bus_par = sum(1 for lc in lcs if lc[4] >= 2 and any(w > 1 for p, w in lc[1] if p not in (lc[2], lc[3])))
    run.stream("pipeline-tie", n, len({json.dumps(j, sort_keys=True) for j, lc in zip(jobs, lcs) if lc[4] >= 2 or lc[0] == 2}),
               equal_packages=sum(1 for k in range(n) if code.get(k, 0) == 0), differ=sum(1 for k in range(n) if code.get(k, 0) == 2),
               rejected_by_impl=sum(1 for o in outs if o["pkg"] is None), by_n=by_n, bus_valued_series_ports=wide_n,
               bus_valued_series_ports_equal_packages=wide_equal,
               units_with_3_or_more_ports=ports3, stacks_with_bus_valued_parallel_port=bus_par,
               units=len({json.dumps(j.get("unit"), sort_keys=True) for j in jobs}),
               rule="every case is a call of Series / MosStack / Wrapper of the C19 streams on a primitive or an external module "
                    "(one per unit, ordered pair - one-bit or bus-valued - and n); non-trivial = nser >= 2 or "
                    "Wrapper; compared inside Coq: package of elab_export_model2 (series_design ..) = the implementation's package")
    missing = [c for c in ("n=1", "n=2", "n=3", "n>=4") if by_n.get(c, 0) == 0]
    if missing or wide_n < WIDE_TARGET or ports3 == 0:
        run.violation("C19E:coverage", f"the pipeline tie did not reach its coverage targets: missing {missing}, "
                      f"bus-valued series ports {wide_n} (target >= {WIDE_TARGET}), units with >= 3 ports {ports3}", dict(kind="harness-coverage"), found_input=False)
    order = sorted((k for k in range(n) if code.get(k, 0) != 0), key=lambda k: c19.job_size(jobs[k]))
    shown = set()
    for k in order:
        c = code[k]
        grp = (c, jobs[k]["gen"], (jobs[k].get("nser") or 1) >= 2)
        if grp in shown or len(shown) >= 4:
            continue
        shown.add(grp)
        what = {2: "the package the pipeline model exports for the written design of the generated module (Model/C19EDesign.v) and the "
                   "implementation's package differ (tie broken; if the package declares another unit than the one given: see stream unit-shapes)"
                   if outs[k]["pkg"] is not None else
                   "the implementation's verdict differs from the design model's: " + json.dumps(outs[k]["err"])[:200],
                3: "case outside the hypotheses of Props/C19E.v (harness defect)",
                4: "the pipeline model contradicts Props/C19E.v on this design (checker defect)"}.get(c, f"code {c}")
        run.violation(f"C19E:{c}:" + c19.job_key(jobs[k]), f"{c19.describe(jobs[k])}: {what}",
                      dict(kind="tie-broken" if c == 2 else "harness-inconsistency", stream="pipeline-tie", case=jobs[k], impl=outs[k],
                           count=sum(1 for x in code.values() if x == c),
                           theorem="Props/C19E.v:C19E_exported_topology; Corr/C19E.v:chk_c19e"), found_input=False)
    run.coverage["pipeline_tie"] = dict(cases=n, equal=sum(1 for k in range(n) if code.get(k, 0) == 0))
    run.coverage["traces_validated_against_impl"] = run.coverage.get("traces_validated_against_impl", 0) + n
    run_shapes(run, tier, seed, shapes, shape_outs, prims)


# ------------------------------------------------------------------------------------------ more unit shapes (stream `unit-shapes`)
def shape_jobs():
    """Unit cells the C19 streams do not have:
    A. NAMESAKES: two different units with one (qualified) name and different port lists, stacked one after the other in ONE
       process with the same conns and nser (`after` = the earlier call; generator results are cached per process);
    B. a bundle-valued port `b` with member `x` NEXT TO a scalar port `b_x`: the flattened member is called `b_x_`;
    C. port names with a leading underscore and the names an Instance treats specially as attributes (`of`, `conns`,
       `connect`) - those the library accepts as port names of a Module (`name` is refused by Module itself)."""
    from .c19 import ext, mod
    jobs = []
    S = lambda u, a, b, n, **kw: dict(gen="series", unit=u, conns=[["name", a], ["name", b]], nser=n, **kw)
    # A
    pairs = [(mod("Unit", [["a", 1, "inout"], ["b", 1, "inout"], ["ctrl", 2, "in"]]),
              mod("Unit", [["a", 1, "inout"], ["b", 1, "inout"], ["ctrl", 4, "in"]])),
             (mod("Unit2", [["a", 1, "inout"], ["b", 1, "inout"]]),
              mod("Unit2", [["a", 1, "inout"], ["b", 1, "inout"], ["en", 1, "in"]], [["bb", [["p", 1]]]])),
             (ext("Enk", [["a", 1], ["b", 1], ["c", 1]]), ext("Enk", [["a", 1], ["b", 1], ["c", 3]])),
             (ext("Enk2", [["a", 1], ["b", 1]]), ext("Enk2", [["a", 1], ["b", 1], ["k", 1]]))]
    for u1, u2 in pairs:
        for n in (1, 2, 3):
            jobs.append(S(u2, "a", "b", n, after=[S(u1, "a", "b", n)]))
            jobs.append(S(u1, "a", "b", n, after=[S(u2, "a", "b", n)]))
    for u1, u2 in ((ext("Emk", [["d", 1], ["g", 1], ["s", 1]]), ext("Emk", [["d", 1], ["g", 2], ["s", 1], ["b", 1]])),):
        for n in (1, 3):
            jobs.append(dict(gen="mosstack", unit=u2, nser=n, after=[dict(gen="mosstack", unit=u1, nser=n)]))
    # B
    ubx = mod("Ubx", [["a", 1, "inout"], ["c", 1, "inout"], ["b_x", 1, "inout"]], [["b", [["x", 1], ["y", 1]]]])
    ubx2 = mod("Ubx2", [["b_x", 1, "in"], ["b_x_", 1, "out"], ["s", 2, "inout"]], [["b", [["x", 1]]]])
    for u, a, b in ((ubx, "a", "c"), (ubx, "b_x", "a"), (ubx2, "b_x", "b_x_")):
        jobs.append(dict(gen="wrapper", unit=u))
        jobs.append(dict(gen="wrapper", unit=u, pre=True))
        for n in (1, 2, 3):
            jobs.append(S(u, a, b, n))
    # C
    for nm in ("_sub", "_in", "of", "conns", "connect", "__x"):
        e = ext("Ec" + nm.strip("_"), [["p", 1], ["n", 1], [nm, 1]])
        jobs.append(dict(gen="wrapper", unit=e))
        for n in (1, 2, 4):
            jobs.append(S(e, "p", "n", n))             # the special name in parallel
            jobs.append(S(e, nm, "p", n))              # ... and in the series pair
        jobs.append(dict(gen="series", unit=e, conns=[["port", "n"], ["port", nm]], nser=3))
    um = mod("Uc", [["a", 1, "inout"], ["b", 1, "inout"], ["_bias", 3, "in"], ["of", 1, "in"]])
    jobs.append(dict(gen="wrapper", unit=um))
    for n in (1, 3):
        jobs.append(S(um, "a", "b", n))
        jobs.append(S(um, "of", "a", n))
    jobs.append(dict(gen="mosstack", unit=ext("Emu", [["d", 1], ["g", 1], ["s", 1], ["_b", 1]]), nser=3))
    return jobs


def effective_unit(u):
    """The unit as Coq is told about it: bundle members under the names flattening gives them (<bundle>_<member>, with
    underscores appended while the name is taken - the rule C10 is about), so that Spec/C19Topology.v:unit_io lists the
    leaf-level ports the exported unit has."""
    if u is None or u["kind"] != "mod" or not u["buns"]:
        return u
    taken = {s[0] for s in u["sigs"]} | {b[0] for b in u["buns"]}
    buns = []
    for bn, members in u["buns"]:
        ms = []
        for m, w in members:
            name = f"{bn}_{m}"
            while name in taken:
                name += "_"
            taken.add(name)
            ms.append([name[len(bn) + 1:], w])
        buns.append([bn, ms])
    return dict(u, buns=buns)


def run_shapes(run, tier, seed, jobs, outs, prims):
    from . import c19
    cases = []
    for j, o in zip(jobs, outs):
        jc = {k: v for k, v in j.items() if k != "after"}
        jc["unit"] = effective_unit(jc["unit"])
        cases.append(c19.c_case(jc, o, prims))
    bad = core.coq_eval_cases("C19", "unit_shapes", c19.IMPORTS, "c19_case", cases, "run_cases chk_c19", chunk=40)
    n = len(jobs)
    run.stream("unit-shapes", n, len({c19.job_key(j) for j in jobs if c19.nontrivial(j)}),
               rejected_by_impl=sum(1 for o in outs if o["pkg"] is None),
               with_history=sum(1 for j in jobs if j.get("after")),
               renamed_flattened_members=sum(1 for j in jobs if effective_unit(j["unit"]) != j["unit"]),
               rule="non-trivial = nser >= 2 or Wrapper; namesake units (same qualified name, different ports) stacked one after the "
                    "other in one process; a bundle member whose flattened name is taken by another port; port names with a leading "
                    "underscore / special attribute names of Instance; judged by Corr/C19.v:chk_c19 like every C19 stream")
    order = sorted(bad, key=lambda ic: c19.job_size(jobs[ic[0]]))
    any1 = any(c == 1 for _, c in order)
    shown = set()
    for i, c in order:
        j, o = jobs[i], outs[i]
        grp = (c, j["gen"], json.dumps(j["unit"], sort_keys=True))
        if grp in shown or len(shown) >= 4:
            continue
        shown.add(grp)
        if c == 1:
            what = (f"valid call rejected at stage {o['stage']}: {o['err']['cls']}: {o['err']['msg']}" if o["pkg"] is None else
                    "exported module is not the documented topology for the unit it was given (ports / unit instances / net partition)")
        elif c == 2:
            what = "model and implementation differ (property holds)"
        else:
            what = "generated unit cell is not well-formed (harness defect)"
        hist = f" after {len(j['after'])} earlier call(s) in the same process" if j.get("after") else ""
        run.violation(f"C19E:shape:{c}:" + c19.job_key(j), f"{c19.describe(j)}{hist}: {what}",
                      dict(kind="impl-violates-spec" if c == 1 else "correspondence-broken", stream="unit-shapes", case=j, impl=o,
                           count=sum(1 for _, x in bad if x == c),
                           reproducer="echo '{\"jobs\": [<case>]}' | PYTHONPATH=<repo>:harness/impl /venv/bin/python harness/impl/c19e.py "
                                      "(runs the `after` calls first, in the same process); compare with the chain statement"),
                      found_input=(c == 1) or any1)
    run.coverage["traces_validated_against_impl"] = run.coverage.get("traces_validated_against_impl", 0) + n
