"""C01F — tie of the extended pipeline model (coq Model/C01FElab.v: references nested in slices / concatenations,
update_ref_deps) to the implementation, and the C01 property itself on designs whose reference groups depend on one
another in a loop.

Called from the END of harness/vp/c01.py:run().  Designs: a corpus (the loop `i1=W(a=Concat(i2.a[0],s)); i2=W(a=Concat(i1.a[0],s))`,
a group-level loop without a bit-level loop, one-part concatenations in a ring, a port that refers to itself, a port only
referred to inside a slice, a nested reference into a ring of whole-connection references, a three-level chain, an array that
takes a nested reference) and structured-random designs of the shared generator in which signal leaves are replaced by
references - `i.p`, `i.p[a:b:c]`, one-part `Concat(i.p)` - inside slices and concatenations and as whole connections.
For every design Coq (Corr/C01F.v) evaluates the specification, the implementation's package, the model's package:
  0 identical package, 7 same nets, 8 outside frag_ok2 (a loop of sources) but the implementation's package has the written nets,
  1/6 the implementation violates the property, 2 tie broken, 4/5 the model contradicts its theorems, 3 harness.
"""
import json
from . import core, design as D, c01e

IMPORTS = c01e.IMPORTS + "\nRequire Import Hdl21.Model.C01FElab Hdl21.Spec.C01FNets Hdl21.Corr.C01F."


def has_nested(d):
    """a reference below a slice or a concatenation somewhere"""
    def below(e, inside):
        if e[0] == "ref":
            return inside
        if e[0] == "sl":
            return below(e[1], True)
        if e[0] == "cat":
            return any(below(p, True) for p in e[1])
        return False
    return any(below(c[1], False) for m in d["mods"] for x in m["insts"] for c in x["conns"])


def W(w, name=None):
    """a module with one w-bit port `a` whose bits go to resistors (so that every bit is a terminal)"""
    return dict(name=name or f"W{w}", ports=[["a", w, "inout"]], sigs=[],
                insts=[dict(name=f"r{k}", n=0, of=["prim", "R", 1],
                            conns=[["p", ["sl", ["sig", "a"], ["i", k]] if w > 1 else ["sig", "a"]],
                                   ["n", ["sl", ["sig", "a"], ["i", (k + 1) % w]] if w > 1 else ["sig", "a"]]])
                       for k in range(w)])


def corpus():
    def top(insts, sigs, ports=()):
        return dict(mods=[W(1), W(2), W(3), dict(name="Top", ports=list(ports), sigs=sigs, insts=insts)], exts=[], top=3)
    i = lambda name, w, e, n=0: dict(name=name, n=n, of=["mod", w - 1], conns=[] if e is None else [["a", e]])
    ref = lambda y: ["ref", y, "a"]
    bit = lambda e, k: ["sl", e, ["i", k]]
    rng_ = lambda e, a, b, st=None: ["sl", e, ["s", a, b, st]]
    return [
        # THE loop of the C01E notes: two groups whose sources slice one another; bit 0 of both ports is a floating net
        top([i("i1", 2, ["cat", [bit(ref("i2"), 0), ["sig", "s"]]]), i("i2", 2, ["cat", [bit(ref("i1"), 0), ["sig", "s"]]])], [["s", 1]]),
        # a loop between the groups, none between the bits: i1.a = (i2.a[0:2], s), i2.a = (t, i1.a[0:2]) - everything ends on t or s
        top([i("i1", 3, ["cat", [rng_(ref("i2"), 0, 2), ["sig", "s"]]]), i("i2", 3, ["cat", [["sig", "t"], rng_(ref("i1"), 0, 2)]])],
            [["s", 1], ["t", 1]]),
        # one-part concatenations in a ring: no slice anywhere on the loop
        top([i("i1", 2, ["cat", [ref("i2")]]), i("i2", 2, ["cat", [ref("i1")]]), i("i3", 2, ref("i1"))], [["s", 1]]),
        # a port whose connection mentions the port itself
        top([i("i1", 2, ["cat", [bit(ref("i1"), 1), ["sig", "s"]]])], [["s", 1]]),
        # a port connected to nothing and only ever referred to inside a slice: it names the implicit signal
        top([i("i1", 2, None), i("i2", 1, bit(ref("i1"), 1)), i("i3", 1, bit(ref("i1"), 0))], [["s", 1]]),
        # a nested reference into a ring of whole-connection references (the ring gets one implicit signal)
        top([i("i1", 2, ref("i2")), i("i2", 2, ref("i1")), i("i3", 3, ["cat", [["sig", "s"], rng_(ref("i2"), None, None, -1)]])], [["s", 1]]),
        # a chain three groups deep, with a reversal and a stride on the way
        top([i("i1", 3, ["cat", [["sig", "s"], ["sig", "b"]]]), i("i2", 2, rng_(ref("i1"), None, None, 2)),
             i("i3", 2, rng_(ref("i2"), None, None, -1)), i("i4", 1, bit(["cat", [ref("i3"), ["sig", "s"]]], 1))], [["s", 1], ["b", 2]]),
        # an array wired per element from a concatenation that mentions a reference, and by broadcast from a slice of one
        top([i("i1", 2, ["sig", "b"]), i("a0", 1, ["cat", [["sig", "s"], bit(ref("i1"), 0)]], n=2), i("a1", 1, bit(ref("i1"), 1), n=3)],
            [["s", 1], ["b", 2]]),
        # the same reference whole and nested; the whole one comes second
        top([i("i1", 2, ["sig", "b"]), i("i2", 1, bit(ref("i1"), 1)), i("i3", 2, ref("i1"))], [["b", 2]], ports=[["p", 1, "in"]]),
    ]


def nest_refs(r, d, forward):
    """Replace signal leaves of the connections by references of the same width: `i.p`, a slice of a wider `i.p`, a one-part
    concatenation.  forward = only ports of instances that come earlier in the module (fewer loops)."""
    changed = False
    for md in d["mods"]:
        order = {x["name"]: k for k, x in enumerate(md["insts"])}
        ncp = {(x["name"], c[0]) for x in md["insts"] for c in x["conns"] if c[1][0] == "nc"}
        ports = [(x["name"], q, qw) for x in md["insts"] if x["n"] == 0 for q, qw in D.target_ports(d, x["of"]) if (x["name"], q) not in ncp]

        def new_leaf(xname, w):
            cands = [(y, q, qw) for y, q, qw in ports if qw >= w and (not forward or order[y] < order[xname])]
            if not cands:
                return None
            y, q, qw = r.choice(cands)
            e = ["ref", y, q]
            if qw > w:
                return ["sl", e, D.rand_slice(r, qw, w)]
            u = r.random()
            if u < 0.15:
                return ["cat", [e]]
            if u < 0.3 and w >= 2:
                return ["sl", e, ["s", None, None, -1]]
            return e

        def walk(xname, e, top):
            nonlocal changed
            if e[0] == "sig":
                w = D.sig_width(md, e[1])
                if r.random() < (0.12 if top else 0.4):
                    n = new_leaf(xname, w)
                    if n is not None and not (top and n[0] == "ref" and r.random() < 0.5):
                        changed = True
                        return n
                return e
            if e[0] == "sl":
                return ["sl", walk(xname, e[1], False), e[2]]
            if e[0] == "cat":
                return ["cat", [walk(xname, p, False) for p in e[1]]]
            return e
        for x in md["insts"]:
            for c in x["conns"]:
                c[1] = walk(x["name"], c[1], True)
    return changed


def nested_designs(seed, n):
    out, k, tried = [], 0, 0
    while len(out) < n and tried < 60 * n:
        r = core.rng(seed, "C01", "nested", k)
        k += 1
        tried += 1
        d = D.gen_design(r, size=r.choice([1, 2, 2, 3]))
        if not nest_refs(r, d, forward=r.random() < 0.7):
            continue
        if not has_nested(d) or len(D.terminals(d)[0]) > 100:
            continue
        out.append(d)
    return out


WHAT = {2: "the extended pipeline model rejects a frag_ok2 design on which the implementation satisfies the property (tie broken)",
        4: "the model's package contradicts C01F_end_to_end / C06F_export_wf (checker defect)",
        5: "on a frag_ok design the extended model and the C01E model disagree (contradicts C01F_agrees_with_C01E)",
        3: "generated design is not valid by Spec/WfDesign, outside xinfo_ok, or terminal list inconsistent (harness defect)"}


def run_tie(run, tier, seed, replay=None):
    quick = tier == "quick"
    corp = corpus()
    designs = corp + nested_designs(seed, 110 if quick else 700)
    outs = core.run_worker_sharded("c01", [dict(design=d, spice=False) for d in designs])
    cases = [c01e.c_case(d, o, None) for d, o in zip(designs, outs)]
    res = dict(core.coq_eval_cases("C01", "nested", IMPORTS, "c01e_case", cases,
                                   "run_cases (fun c => 100 + 10 * c01f_shape c + chk_c01f c)", chunk=20, timeout=1500))
    n = len(designs)
    code = {i: (res[i] - 100) % 10 for i in range(n)}
    shape = {i: (res[i] - 100) // 10 for i in range(n)}
    nested = [i for i in range(n) if has_nested(designs[i])]
    acyclic_nested = [i for i in nested if shape[i] & 2]
    loops = [i for i in range(n) if not (shape[i] & 2)]
    feats = {}
    for d in designs:
        for f, v in D.features(d).items():
            feats[f] = feats.get(f, 0) + int(v)
    run.stream("nested", n, len({json.dumps(designs[i]) for i in nested}),
               corpus=len(corp), nested_reference_designs=len(nested), acyclic_nested=len(acyclic_nested),
               loops_between_groups=len(loops), loops_elaborated_with_the_written_nets=sum(1 for i in loops if code[i] == 8),
               model_pkg_identical_to_impl=sum(1 for i in range(n) if code[i] == 0),
               model_nets_equal_impl=sum(1 for i in range(n) if code[i] in (0, 7)),
               rejected_by_impl=sum(1 for o in outs if o["pkg"] is None), features=feats,
               rule="non-trivial = a port reference below a slice or a concatenation; distinct by design",
               compared="Coq computes elab_export_model2(design) and compares with the implementation's package: net labels on all "
                        "terminals, leaf devices, wf_pkg of the model's package, agreement with the C01E model on frag_ok designs; "
                        "designs outside frag_ok2 (loops): implementation's package against the specification only")
    if len(acyclic_nested) < (40 if quick else 400) or not loops:
        run.violation("C01:coverage:nested", f"generator coverage target missed: {len(acyclic_nested)} acyclic nested designs, {len(loops)} loops",
                      dict(kind="coverage"), found_input=False)
    # corpus witnesses first (the loop of fixes/C01F-1 is corpus design 0), then the smallest generated designs
    order = sorted((i for i in range(n) if code[i] not in (0, 7, 8)), key=lambda i: (i >= len(corp), i if i < len(corp) else len(json.dumps(designs[i]))))
    v1 = [i for i in order if code[i] in (1, 6)]
    for i in v1[:3]:
        what = ("valid design rejected" if code[i] == 6 else
                "exported package differs from the written design (net partition / leaf devices)")
        run.violation("C01:design:" + json.dumps(designs[i], sort_keys=True), f"{what}: {json.dumps(outs[i]['err'])[:400]}",
                      dict(kind="impl-violates-spec", stream="nested", case=designs[i], impl=outs[i], failing_cases=len(v1),
                           reproducer="build the design with harness/impl/designlib.Builder, h.to_proto, compare nets"))
    rest = [i for i in order if code[i] not in (1, 6)]
    for i in rest[:2]:
        c = code[i]
        run.violation(f"C01:model2:{c}:" + json.dumps(designs[i], sort_keys=True), WHAT.get(c, f"code {c}"),
                      dict(kind="tie-broken" if c == 2 else "checker-inconsistency", code=c, stream="nested", case=designs[i],
                           impl=outs[i], failing_cases=len(rest)), found_input=False)
    run.sample(dict(stream="nested", design=designs[len(corp) + (n - len(corp)) // 2] if n > len(corp) else designs[0]))
    run.coverage["model2_tie"] = dict(designs=n, nested=len(nested), acyclic_nested=len(acyclic_nested), loops=len(loops),
                                      identical=sum(1 for i in range(n) if code[i] == 0))
    run_bundle_tie(run, tier, seed)


# ---------------------------------------------------------------------------------------------
# bundles end to end: the pipeline model on the member-wise lowering of a bundle design (Corr/C01FB.v)
# ---------------------------------------------------------------------------------------------
BIMPORTS = None


def run_bundle_tie(run, tier, seed):
    """The modelling assumption of C01F_bundles_end_to_end_partial on the designs of the bundle streams (the corpus of
    harness/vp/c01b.py and a prefix of its generated designs, same random keys): Coq computes elab_export_model2 on
    `lower dot_name d` and compares the net labels of the model's package with the path-based labels of the written design;
    chk_c01b compares the implementation's package with the same labels."""
    from . import c01b
    global BIMPORTS
    BIMPORTS = (c01b.IMPORTS + "\nRequire Import Hdl21.Model.C01EElab Hdl21.Model.C01FElab Hdl21.Spec.C01FNets Hdl21.Corr.C01FB.")
    quick = tier == "quick"
    cs = c01b.corpus()
    n = 260 if quick else 1500
    designs, k = [], 0
    while len(designs) < n:
        r = core.rng(seed, "C01", "bdesigns", k)
        k += 1
        d = c01b.gen_bdesign(r, size=r.choice([1, 2, 2]) if quick else r.choice([1, 2, 3]))
        if len(c01b.terminals(d)) > (110 if quick else 150):
            continue
        designs.append(d)
    every = cs + designs
    outs = core.run_worker_sharded("c01b", [dict(design=d) for d in every])
    cases = [f"{{| fb_case := {c01b.c_case(d, o)};\n  fb_xinfo := {c01e.c_xinfo(d)} |}}" for d, o in zip(every, outs)]
    bad = dict(core.coq_eval_cases("C01", "bundles_e2e", BIMPORTS, "c01fb_case", cases, "run_cases chk_c01fb", chunk=15, timeout=1500))
    m = len(every)
    count = lambda c: sum(1 for v in bad.values() if v == c)
    run.stream("bundles-end-to-end", m, len({json.dumps(d) for d in every}),
               corpus=len(cs), model_nets_equal_impl_and_spec=m - len(bad), lowered_design_outside_frag_ok2=count(8),
               lowered_design_not_wf=count(9), rejected_by_impl=sum(1 for o in outs if o["pkg"] is None),
               rule="every bundle design of the corpus and of a prefix of the bundle-designs stream; distinct by design",
               compared="hypotheses of C01F_bundles_end_to_end_partial (names_ok, pairs_ok, orbits computed, on nodes of the design and closed; "
                        "wf_design / frag_ok2 / xinfo_ok / terminals of the lowered design); net labels of elab_export_model2(lower d) on the mapped "
                        "terminals against the path-based labels; implementation's package against the same labels (chk_c01b)")
    inside = m - count(3) - count(8) - count(9)      # whatever the implementation did with them
    if inside < (200 if quick else 1000):
        run.violation("C01:coverage:bundles-e2e", f"coverage target missed: only {inside} of {m} bundle designs inside the hypotheses of the corollary",
                      dict(kind="coverage"), found_input=False)
    order = sorted((i for i, c in bad.items() if c not in (8, 9)), key=lambda i: len(json.dumps(every[i])))
    v1 = [i for i in order if bad[i] in (1, 6)]
    for i in v1[:2]:
        what = "valid design rejected" if bad[i] == 6 else "exported package differs from the written design (net partition / leaf devices / flattened port names)"
        run.violation("C01:bdesign:" + json.dumps(every[i], sort_keys=True), f"{what}: {json.dumps(outs[i]['err'])[:400]}",
                      dict(kind="impl-violates-spec", stream="bundles-end-to-end", fragment="bundles", case=every[i], impl=outs[i], failing_cases=len(v1),
                           reproducer="build the design with harness/impl/c01b.BBuilder, h.to_proto, compare nets"))
    rest = [i for i in order if bad[i] not in (1, 6)]
    for i in rest[:2]:
        c = bad[i]
        what = {2: "the pipeline model rejects the lowering of a bundle design although all hypotheses of the corollary hold (tie broken)",
                4: "the model's package on the lowered design does not have the nets of the bundle design (contradicts C01F_bundles_end_to_end_partial)",
                3: "a decidable hypothesis of the lowering lemma / of the corollary fails on a generated bundle design (harness or spec defect)"}.get(c, f"code {c}")
        run.violation(f"C01:bundles-e2e:{c}:" + json.dumps(every[i], sort_keys=True), what,
                      dict(kind="tie-broken" if c == 2 else "checker-inconsistency", code=c, stream="bundles-end-to-end", fragment="bundles",
                           case=every[i], impl=outs[i], failing_cases=len(rest)), found_input=False)
    run.coverage["bundles_e2e_tie"] = dict(designs=m, inside=inside, all_equal=m - len(bad), outside_frag_ok2=count(8), lowered_not_wf=count(9))
