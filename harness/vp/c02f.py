"""C02F — tie of the checked pipeline with NESTED references (coq Model/C02FPipeline.v:checked_run2) and of the checked pipeline
WITH BUNDLES (coq Model/C02FBundles.v:checked_bundle_run) to the implementation.

Called from the END of harness/vp/c02.py:run().

Stream `pipeline-model-nested`: designs with port references INSIDE slices and concatenations (the generator of harness/vp/c01f.py:
signal leaves of the shared generator's designs replaced by `i.p`, `i.p[a:b:c]`, `Concat(i.p)`), every single-fault mutant of them
(the 16 mutators of harness/vp/c02.py) and five mutators that plant the fault BEHIND a nested reference (n_badref, n_width_ref,
n_index, n_nc_ref, n_orphan), a corpus (the non-vacuity shapes of Props/C02F.v), and those mutants of the C02 core stream that
already carry a nested reference (nc_ref plants them).  Per case Coq (Corr/C02F.v) compares verdict for to_proto, verdict for
elaborate and the rejecting pass; it also says whether the case is inside the scope of the C02F theorems and whether it was
inside the scope of C02E (frag_e) - the difference is what this extension added.

Stream `pipeline-model-bundles`: bundle designs of harness/vp/c01b.py / c01g.py (corpus + generator) and single-fault mutants of
them on bundle / anonymous-bundle / Pair connections (eight mutators below); verdict of to_proto against the model's.

Fail closed: no nested-reference mutant in scope and rejected by both, or no bundle mutant rejected by both -> violation."""
import json, copy
from . import core, design as D, c01e, c01f, c01b, c01g, c02e
from .core import cstr

IMPORTS = ("Require Import Hdl21.Base.PyInt Hdl21.Spec.PySlice Hdl21.Model.Slice Hdl21.Model.Resolve Hdl21.Base.Design "
           "Hdl21.Spec.WfDesign Hdl21.Base.Package Hdl21.Corr.C03 Hdl21.Model.C01EElab Hdl21.Model.C02EPipeline "
           "Hdl21.Model.C02FPipeline Hdl21.Corr.C02E Hdl21.Corr.C02F.")
IMPORTS_B = (c01b.IMPORTS + "\nRequire Import Hdl21.Model.C01EElab Hdl21.Model.C02EPipeline Hdl21.Model.C02FPipeline "
             "Hdl21.Model.C02FBundles Hdl21.Corr.C02F.")

STAGES = dict(c02e.STAGES)
STAGES.update({10: "build", 21: "InstBundleElabPass", 22: "ConnTypes(bundle ports)", 23: "BundleFlattener"})


# ------------------------------------------------------------------------------------------------ nested references
def ref_paths(e, inside=False, path=()):
    """paths (index tuples into the expression) of the references that sit inside a slice / concatenation"""
    if e[0] == "ref":
        return [path] if inside else []
    if e[0] == "sl":
        return ref_paths(e[1], True, path + (1,))
    if e[0] == "cat":
        return [p for k, q in enumerate(e[1]) for p in ref_paths(q, True, path + (1, k))]
    return []


def get_at(e, path):
    for k in path:
        e = e[k]
    return e


def set_at(e, path, v):
    for k in path[:-1]:
        e = e[k]
    e[path[-1]] = v


def nested_sites(d):
    reach = _reachable(d)
    return [(mi, ii, ci, p) for mi, md in enumerate(d["mods"]) if mi in reach for ii, x in enumerate(md["insts"])
            for ci, c in enumerate(x["conns"]) for p in ref_paths(c[1])]


def _reachable(d):
    seen, todo = set(), [d["top"]]
    while todo:
        k = todo.pop()
        if k in seen:
            continue
        seen.add(k)
        for x in d["mods"][k]["insts"]:
            if x["of"][0] == "mod":
                todo.append(x["of"][1])
    return seen


def _site(d, s):
    mi, ii, ci, p = s
    md = d["mods"][mi]
    x = md["insts"][ii]
    c = x["conns"][ci]
    return md, x, c, get_at(c[1], p)


def _ref_width(d, md, ref):
    y = D.find_inst(md, ref[1])
    return dict(D.target_ports(d, y["of"])).get(ref[2]) if y else None


def n_badref(r, d, s):
    md, x, c, ref = _site(d, s)
    set_at(c[1], s[3], ["ref", ref[1], "nosuchport"])
    return d


def n_width_ref(r, d, s):
    md, x, c, ref = _site(d, s)
    w = _ref_width(d, md, ref)
    others = [(y["name"], q) for y in md["insts"] if y["n"] == 0 and y is not x for q, qw in D.target_ports(d, y["of"]) if qw != w]
    if not others:
        return None
    y, q = r.choice(others)
    set_at(c[1], s[3], ["ref", y, q])
    return d


def n_index(r, d, s):
    md, x, c, ref = _site(d, s)
    w = _ref_width(d, md, ref)
    if w is None:
        return None
    bad = ["sl", copy.deepcopy(ref), ["i", w + r.choice([0, 1])]]
    set_at(c[1], s[3], bad if w == 1 else ["cat", [bad, ["sl", copy.deepcopy(ref), ["s", 1, None, None]]]])
    return d


def n_nc_ref(r, d, s):
    md, x, c, ref = _site(d, s)
    y = D.find_inst(md, ref[1])
    if y is None or y["n"] > 0:
        return None
    for cc in y["conns"]:
        if cc[0] == ref[2]:
            cc[1] = ["nc", 9100, None]
            return d
    y["conns"].append([ref[2], ["nc", 9100, None]])
    return d


def n_orphan(r, d, s):
    md, x, c, ref = _site(d, s)
    y = D.find_inst(md, ref[1])
    if y is None:
        return None
    set_at(c[1], s[3], ["orphanref", copy.deepcopy(y["of"]), ref[2]])
    return d


NESTED_MUTATORS = dict(n_badref=n_badref, n_width_ref=n_width_ref, n_index=n_index, n_nc_ref=n_nc_ref, n_orphan=n_orphan)


def corpus():
    """the shapes of Props/C02F.v: a fault behind a slice / inside a concatenation, and the valid shapes beside them"""
    inner2 = c01e.inner(2)
    def top(insts, sigs):
        return dict(mods=[copy.deepcopy(inner2), dict(name="Top", ports=[], sigs=sigs, insts=insts)], exts=[], top=1)
    i = lambda name, conns, n=0: dict(name=name, n=n, of=["mod", 0], conns=conns)
    ref = ["ref", "i0", "a"]
    bit = lambda e, k: ["sl", e, ["i", k]]
    two = lambda a, b: ["cat", [a, b]]
    s, t = ["sig", "s"], ["sig", "t"]
    return [
        ("valid", top([i("i0", [["a", ["sig", "u"]]]), i("i1", [["a", two(bit(ref, 0), s)]])], [["s", 1], ["u", 2]])),
        ("valid", top([i("i0", []), i("i1", [["a", two(bit(ref, 1), bit(ref, 0))]])], [["s", 1]])),                      # implicit signal, referred to only nested
        ("n_badref", top([i("i0", [["a", ["sig", "u"]]]), i("i1", [["a", two(bit(["ref", "i0", "nosuch"], 0), s)]])], [["s", 1], ["u", 2]])),
        ("n_badref", top([i("i0", [["a", ["sig", "u"]]]), i("i1", [["a", ["sl", two(two(s, ["ref", "i0", "nosuch"]), s), ["s", 0, 2, None]]]])],
                         [["s", 1], ["u", 2]])),                                                                              # the part a slice drops (C02E_ex_why_partial)
        ("n_index", top([i("i0", [["a", ["sig", "u"]]]), i("i1", [["a", two(bit(ref, 2), s)]])], [["s", 1], ["u", 2]])),
        ("n_width_ref", top([i("i0", [["a", ["sig", "u"]]]), i("i1", [["a", two(ref, s)]])], [["s", 1], ["u", 2]])),
        ("n_nc_ref", top([i("i0", [["a", ["nc", 1, None]]]), i("i1", [["a", two(bit(ref, 0), s)]])], [["s", 1]])),
        ("n_nc_ref", top([i("i0", [["a", ["nc", 1, None]]]), i("i1", [["a", two(s, s)]]), i("a0", [["a", ["sl", ref, ["s", None, None, -1]]]], n=2)], [["s", 1]])),
        # the witness of fixes/C02F-1: the no-connected port is referred to inside a concatenation whose part a slice then drops -
        # before the repair elaborate, to_proto and netlist all returned
        ("n_nc_ref", top([i("i0", [["a", ["nc", 1, None]]]), i("i1", [["a", ["sl", ["cat", [s, s, ref]], ["s", 0, 2, None]]]])], [["s", 1]])),
        # ... and the witness on the repaired HEAD e4afce8: the same with a reference loop, i1 = W(a=i2.a, b=NoConn()); i2 = W(a=Concat(i1.b, i1.a)[1], b=u).
        # untie_source_loops (fixes/C01F-1) rebuilds the source bit by bit and never looks at the part that holds the unresolved reference
        ("n_nc_ref", dict(mods=[dict(name="Two", ports=[["a", 1, "none"], ["b", 1, "none"]], sigs=[],
                                     insts=[dict(name="r0", n=0, of=["prim", "R", 1], conns=[["p", ["sig", "a"]], ["n", ["sig", "b"]]])]),
                                dict(name="Top", ports=[], sigs=[["u", 1]],
                                     insts=[dict(name="i1", n=0, of=["mod", 0], conns=[["a", ["ref", "i2", "a"]], ["b", ["nc", 1, None]]]),
                                            dict(name="i2", n=0, of=["mod", 0],
                                                 conns=[["a", ["sl", ["cat", [["ref", "i1", "b"], ["ref", "i1", "a"]]], ["i", 1]]], ["b", ["sig", "u"]]])])],
                          exts=[], top=1)),
        ("nc_inside", top([i("i0", [["a", two(s, ["nc", 1, None])]])], [["s", 1]])),                                     # the constructors refuse
        ("missing", top([i("i0", []), i("i1", [["a", two(s, s)]])], [["s", 1]])),
    ]


def c_case(c02, design, out):
    el, pr = out["elaborate"], out["to_proto"]
    return (f"{{| f_design := {c02.c_design(design)};\n  f_xinfo := {c01e.c_xinfo(c02e.named(design))};\n"
            f"  f_elab := {core.cbool(el[0] == 'accepted')}; f_proto := {core.cbool(pr[0] == 'accepted')}; "
            f"f_where := {cstr(pr[1] or '')} |}}")


def nested_cases(c02, tier, seed, bases, per_class):
    quick = tier == "quick"
    nb = c01f.nested_designs(seed, 20 if quick else 120)
    designs = [d for _, d in corpus()]
    metas = [dict(cls="corpus:" + c, kind="corpus") for c, _ in corpus()]
    for k, b in enumerate(nb):
        designs.append(b); metas.append(dict(cls="nested-base", kind="base"))
    for k, base in enumerate(nb):
        reach = c02.reachable(base)
        ss = [s for s in c02.sites(base) if s[0] in reach]
        ns = nested_sites(base)
        for cls, f in c02.MUTATORS.items():
            if not ss:
                break
            rr = core.rng(seed, "C02F", cls, k)
            m = f(rr, copy.deepcopy(base), rr.choice(ss))
            if m is not None:
                m.pop("_tags", None)
                designs.append(m); metas.append(dict(cls=cls, kind="mutant-of-nested"))
        for cls, f in NESTED_MUTATORS.items():
            for j in range(2 if quick else 3):
                if not ns:
                    break
                rr = core.rng(seed, "C02F", cls, k * 8 + j)
                m = f(rr, copy.deepcopy(base), rr.choice(ns))
                if m is not None:
                    designs.append(m); metas.append(dict(cls=cls, kind="nested-mutant"))
    # the mutants of the C02 core stream that already carry a nested reference
    muts, meta = c02e.core_mutants(c02, seed, bases, per_class)
    for m, mt in zip(muts, meta):
        if c01f.has_nested(m):
            designs.append(m); metas.append(dict(cls=mt["cls"], kind="core-mutant-with-nested-ref"))
    return designs, metas


# ------------------------------------------------------------------------------------------------ bundles
def bsites(d):
    """(module, instance, connection) of every connection that is bundle-like: a bundle instance / reference, an anonymous bundle"""
    reach = _reachable(d)          # a fault in a module that is not below the top module is no fault of the design
    return [(mi, ii, ci) for mi, md in enumerate(d["mods"]) if mi in reach for ii, x in enumerate(md["insts"])
            for ci, c in enumerate(x["conns"]) if c[1][0] in ("bun", "anon")]


def _anons(e, path=()):
    """paths of the anonymous bundles inside a connection (outermost first)"""
    if e[0] != "anon":
        return []
    out = [path]
    for k, (n, sub) in enumerate(e[1]):
        out += _anons(sub, path + (1, k, 1))
    return out


def _buns(e, path=()):
    if e[0] == "bun":
        return [path]
    if e[0] == "anon":
        return [p for k, (n, sub) in enumerate(e[1]) for p in _buns(sub, path + (1, k, 1))]
    return []


def _bsite(d, s):
    mi, ii, ci = s
    md = d["mods"][mi]
    x = md["insts"][ii]
    return md, x, x["conns"][ci]


def _pick(r, c, finder):
    ps = finder(c[1])
    return r.choice(ps) if ps else None


def _at(c, p):
    return c[1] if p == () else get_at(c[1], p)


def _put(c, p, v):
    if p == ():
        c[1] = v
    else:
        set_at(c[1], p, v)


def b_orphan(r, d, s):
    md, x, c = _bsite(d, s)
    p = _pick(r, c, _buns)
    if p is None:
        return None
    e = _at(c, p)
    _put(c, p, ["bun", "nosuchbundle", e[2]])
    return d


def b_badmember(r, d, s):
    md, x, c = _bsite(d, s)
    p = _pick(r, c, _buns)
    if p is None:
        return None
    e = _at(c, p)
    _put(c, p, ["bun", e[1], list(e[2]) + ["nosuchmember"]])
    return d


def b_type(r, d, s):
    """a bundle instance of ANOTHER definition on the port"""
    md, x, c = _bsite(d, s)
    if c[1][0] != "bun":
        return None
    cur = c01b.mod_bundle(md, c[1][1])
    others = [b for b in md["bundles"] if cur is not None and b["d"] != cur["d"] and b["n"] != c[1][1]]
    if not others:
        return None
    c[1] = ["bun", r.choice(others)["n"], []]
    return d


def _anon_def(d, x, c, p):
    """definition index of the Bundle that the anonymous bundle at path `p` of connection `c` stands for (None: a Pair / unknown)"""
    k = dict(c01b.target_bports(d, x["of"])).get(c[0])
    e = c[1]
    for j in range(0, len(p), 3):            # p = (1, member index, 1) per level
        if k is None:
            return None
        name = e[1][p[j + 1]][0]
        k = {sb[0]: sb[1] for sb in d["defs"][k]["subs"]}.get(name)
        e = e[1][p[j + 1]][1]
    return k


def extra_member_names(d, k):
    """names for a member that the Bundle definition `k` does NOT have, chosen to look like something it has: the '_'-joined and
    '.'-joined PATHS of its nested members (how the flattened ports are named / how errors print them), a member's name with a
    suffix, a sub-bundle's own definition name"""
    own = {l[0] for l in d["defs"][k]["sigs"]} | {sb[0] for sb in d["defs"][k]["subs"]}
    out = []
    for path, _ in c01b.def_members(d["defs"], k):
        if len(path) >= 2:
            out += [("_".join(path), "flattened-path-name"), ("_".join(path[:2]), "flattened-path-name")]
    for path, j in c01b.def_subpaths(d["defs"], k):
        out.append((d["defs"][j]["name"], "definition-name"))
    for n in sorted(own):
        out.append((n + "_", "member-name-with-suffix"))
    return [(n, t) for n, t in out if n not in own]


def nested_anon_sites(d):
    """(site, path) of the anonymous bundles that stand for a Bundle WITH NESTED members (on a bundle-valued port, at any level)"""
    out = []
    for s in bsites(d):
        md, x, c = _bsite(d, s)
        for p in _anons(c[1]):
            k = _anon_def(d, x, c, p)
            if k is not None and any(t == "flattened-path-name" for _, t in extra_member_names(d, k)):
                out.append((s, p))
    return out


def b_anon_extra(r, d, s, p=None, force_flat=False):
    md, x, c = _bsite(d, s)
    p = _pick(r, c, _anons) if p is None else p
    if p is None:
        return None
    a = _at(c, p)
    k = _anon_def(d, x, c, p)
    names = extra_member_names(d, k) if k is not None else []
    flat = [nt for nt in names if nt[1] == "flattened-path-name"]
    name, kind = r.choice(flat) if flat and (force_flat or r.random() < 0.6) else r.choice(names) if names and r.random() < 0.5 else ("zz_extra", "unrelated-name")
    if any(me[0] == name for me in a[1]):
        name, kind = "zz_extra", "unrelated-name"
    a[1].append([name, ["sig", md["sigs"][0][0]] if md["sigs"] else ["sig", md["ports"][0][0]] if md["ports"] else a[1][0][1]])
    d["_tags"] = [kind]
    return d


def b_anon_missing(r, d, s):
    md, x, c = _bsite(d, s)
    p = _pick(r, c, _anons)
    if p is None:
        return None
    a = _at(c, p)
    if len(a[1]) < 1:
        return None
    del a[1][r.randrange(len(a[1]))]
    return d


def b_anon_width(r, d, s):
    """a scalar member of an anonymous bundle gets an expression one bit wider (a concatenation with itself's first bit)"""
    md, x, c = _bsite(d, s)
    p = _pick(r, c, _anons)
    if p is None:
        return None
    a = _at(c, p)
    ks = [k for k, (n, sub) in enumerate(a[1]) if sub[0] in ("sig", "sl", "cat", "bm")]
    if not ks:
        return None
    k = r.choice(ks)
    sub = a[1][k][1]
    a[1][k][1] = ["cat", [copy.deepcopy(sub), copy.deepcopy(sub)]]          # twice the width: never w, and n*w only when n = 2
    return d


def b_missing(r, d, s):
    md, x, c = _bsite(d, s)
    key = json.dumps(["ref", x["name"], c[0]])
    if key in json.dumps(md["insts"]):
        return None
    x["conns"].remove(c)
    return d


def b_extra(r, d, s):
    md, x, c = _bsite(d, s)
    x["conns"].append(["zz_noport", copy.deepcopy(c[1])])
    return d


def nc_ref_anon_sites(d):
    """(site, path, member index, instance, port): a scalar anonymous-bundle member that is a whole Signal of the module, and a port of the same
    width on another single instance, plainly connected and referred to by nobody - where `b_nc_ref_anon` can plant its fault"""
    out = []
    for s in bsites(d):
        md, x, c = _bsite(d, s)
        txt = json.dumps(md["insts"])
        for p in _anons(c[1]):
            a = _at(c, p)
            for k, (n, sub) in enumerate(a[1]):
                w = D.sig_width(md, sub[1]) if sub[0] == "sig" else None
                if w is None:
                    continue
                for y in md["insts"]:
                    if y is x or y["n"] > 0 or y.get("pair"):
                        continue
                    for cc in y["conns"]:
                        if (dict(c01b.target_sports(d, y["of"])).get(cc[0]) == w and cc[1][0] in ("sig", "sl", "cat")
                                and json.dumps(["ref", y["name"], cc[0]]) not in txt):
                            out.append((s, p, k, y["name"], cc[0]))
    return out


def b_nc_ref_anon(r, d, s, where=None):
    """a no-connect that is also referenced elsewhere - the reference is a MEMBER OF AN ANONYMOUS BUNDLE on a bundle-valued port
    (whole, behind a full-width slice, or as the only part of a concatenation)"""
    cands = [t for t in nc_ref_anon_sites(d) if t[0] == s] if where is None else [where]
    if not cands:
        return None
    s, p, k, yname, q = r.choice(cands)
    md, x, c = _bsite(d, s)
    y = D.find_inst(md, yname)
    for cc in y["conns"]:
        if cc[0] == q:
            cc[1] = ["nc", 9200, None]
    ref = ["ref", yname, q]
    u = r.random()
    how = "whole" if u < 0.5 else "sliced" if u < 0.75 else "concatenated"
    _at(c, p)[1][k][1] = ref if how == "whole" else ["sl", ref, ["s", None, None, None]] if how == "sliced" else ["cat", [ref]]
    d["_tags"] = ["nc-ref-in-anon", "nc-ref-in-anon:" + how]
    return d


BUNDLE_MUTATORS = dict(b_nc_ref_anon=b_nc_ref_anon, b_orphan=b_orphan, b_badmember=b_badmember, b_type=b_type, b_anon_extra=b_anon_extra, b_anon_missing=b_anon_missing,
                       b_anon_width=b_anon_width, b_missing=b_missing, b_extra=b_extra)


def bundle_cases(tier, seed):
    quick = tier == "quick"
    bases = list(c01g.corpus()) + list(c01b.corpus())
    k = 0
    want = len(bases) + (10 if quick else 120)
    while len(bases) < want:
        r = core.rng(seed, "C02F", "bbase", k)
        k += 1
        d = c01b.gen_bdesign(r, size=r.choice([1, 2]))
        if len(c01b.terminals(d)) <= 90:
            bases.append(d)
    designs = list(bases)
    metas = [dict(cls="bundle-base", kind="base") for _ in bases]
    for d in c01g.malformed():
        designs.append(d); metas.append(dict(cls="corpus:malformed", kind="corpus"))
    for k, base in enumerate(bases):
        ss = bsites(base)
        for cls, f in BUNDLE_MUTATORS.items():
            for j in range(1 if quick else 2):
                rr = core.rng(seed, "C02F", cls, k * 8 + j)
                m = None
                for attempt in range(5):
                    if not ss:
                        break
                    m = f(rr, copy.deepcopy(base), rr.choice(ss))
                    if m is not None:
                        break
                if m is not None:
                    tags = m.pop("_tags", [])
                    designs.append(m); metas.append(dict(cls=cls, kind="bundle-mutant", tags=tags))
    # strengthening round: base designs SELECTED for having an anonymous bundle on a port whose Bundle has nested members (about 8% of
    # what the generator makes), and on each the extra member named like the '_'-joined path of a nested member, top and deep
    k, found = 0, 0
    while found < (6 if quick else 30) and k < 4000:
        r = core.rng(seed, "C02F", "bbase-nested", k)
        k += 1
        d = c01b.gen_bdesign(r, size=r.choice([1, 2]))
        ns = nested_anon_sites(d)
        if len(c01b.terminals(d)) > 90 or not ns:
            continue
        found += 1
        designs.append(d); metas.append(dict(cls="bundle-base", kind="base", tags=["has-nested-anon"]))
        deep = [sp for sp in ns if sp[0][0] != d["top"]]
        for j, pool in enumerate([ns, deep or ns]):
            rr = core.rng(seed, "C02F", "b_anon_extra_path", k * 4 + j)
            s, p = rr.choice(pool)
            m = b_anon_extra(rr, copy.deepcopy(d), s, p, force_flat=True)
            if m is not None:
                tags = m.pop("_tags", []) + ["top" if s[0] == d["top"] else "deep"]
                designs.append(m); metas.append(dict(cls="b_anon_extra", kind="bundle-mutant", tags=tags))
        # ... and an extra member INSIDE a nested anonymous bundle (one level down from a member that exists)
        inner = [(s, p) for s in bsites(d) for p in _anons(_bsite(d, s)[2][1]) if p != ()]
        if inner:
            rr = core.rng(seed, "C02F", "b_anon_extra_inner", k)
            s, p = rr.choice(inner)
            m = b_anon_extra(rr, copy.deepcopy(d), s, p)
            if m is not None:
                tags = m.pop("_tags", []) + ["inside-nested-anon"]
                designs.append(m); metas.append(dict(cls="b_anon_extra", kind="bundle-mutant", tags=tags))
    # ... and base designs SELECTED for having an anonymous-bundle member beside a port it could refer to: the no-connect that is also
    # referenced through an anonymous-bundle member, top and deep
    k, found = 0, 0
    while found < (6 if quick else 30) and k < 4000:
        r = core.rng(seed, "C02F", "bbase-ncanon", k)
        k += 1
        d = c01b.gen_bdesign(r, size=r.choice([1, 2]))
        ns = nc_ref_anon_sites(d)
        if len(c01b.terminals(d)) > 90 or not ns:
            continue
        found += 1
        designs.append(d); metas.append(dict(cls="bundle-base", kind="base", tags=["has-anon-member-beside-port"]))
        deep = [t for t in ns if t[0][0] != d["top"]]
        for j, pool in enumerate([ns, deep or ns]):
            rr = core.rng(seed, "C02F", "b_nc_ref_anon_sel", k * 4 + j)
            t = rr.choice(pool)
            m = b_nc_ref_anon(rr, copy.deepcopy(d), t[0], where=t)
            if m is not None:
                tags = m.pop("_tags", []) + ["top" if t[0][0] == d["top"] else "deep"]
                designs.append(m); metas.append(dict(cls="b_nc_ref_anon", kind="bundle-mutant", tags=tags))
    return designs, metas


def c_bcase(d, o):
    try:
        return f"{{| fb_design := {c01b.c_bdesign(d)};\n  fb_xi := {c01e.c_xinfo(d)}; fb_proto := {core.cbool(o['pkg'] is not None)} |}}"
    except Exception:
        return None


# ------------------------------------------------------------------------------------------------ the two streams
def run_tie(run, tier, seed, bases, per_class):
    from . import c02
    # ---- nested references
    designs, metas = nested_cases(c02, tier, seed, bases, per_class)
    outs = core.run_worker_sharded("c02e", [dict(design=m) for m in designs])
    cases = [c_case(c02, d, o) for d, o in zip(designs, outs)]
    pairs = dict(core.coq_eval_cases("C02", "pipeline2", IMPORTS, "c02f_case", cases, "all_c02f", chunk=40))
    n = len(designs)
    val = lambda i: pairs.get(i, 0)
    code = {i: val(i) // 10000 for i in range(n)}
    stage = {i: val(i) % 10000 // 100 for i in range(n)}
    scope = {i: val(i) % 100 // 10 for i in range(n)}
    scope_e = {i: val(i) % 10 for i in range(n)}
    impl_rej = {i: outs[i]["to_proto"][0] != "accepted" for i in range(n)}
    per, passes = {}, {}
    for i, mt in enumerate(metas):
        e = per.setdefault(mt["cls"], dict(cases=0, agree=0, model_rejects=0, impl_rejects=0, in_c02f_scope=0, in_c02e_scope=0, stages={}))
        e["cases"] += 1
        e["agree"] += int(code[i] == 0)
        e["model_rejects"] += int(stage[i] != 0)
        e["impl_rejects"] += int(impl_rej[i])
        e["in_c02f_scope"] += scope[i]
        e["in_c02e_scope"] += scope_e[i]
        st = STAGES[stage[i]]
        e["stages"][st] = e["stages"].get(st, 0) + 1
        if stage[i] != 0 and impl_rej[i]:
            k = f"{st}|{outs[i]['to_proto'][1]}"
            passes[k] = passes.get(k, 0) + 1
    nested_mut = [i for i in range(n) if metas[i]["kind"] in ("nested-mutant", "core-mutant-with-nested-ref", "mutant-of-nested")
                  or metas[i]["cls"].startswith("corpus:n_")]
    nested_ok = [i for i in nested_mut if scope[i] and not scope_e[i] and stage[i] != 0 and impl_rej[i] and code[i] == 0]
    run.stream("pipeline-model-nested", n, len({json.dumps(d, sort_keys=True) for d in designs}),
               verdict_agrees=sum(1 for i in range(n) if code[i] not in (1, 2, 4)),
               verdict_and_pass_agree=sum(1 for i in range(n) if code[i] == 0),
               both_reject=sum(1 for i in range(n) if stage[i] != 0 and impl_rej[i]),
               both_accept=sum(1 for i in range(n) if stage[i] == 0 and not impl_rej[i]),
               in_c02f_scope=sum(scope.values()), in_c02e_scope=sum(scope_e.values()),
               in_scope_gained_over_c02e=sum(1 for i in range(n) if scope[i] and not scope_e[i]),
               outside_c02f_scope=sum(1 for i in range(n) if not scope[i]),
               nested_reference_mutants=len(nested_mut), nested_reference_mutants_in_scope_rejected_by_both=len(nested_ok),
               model_stage_vs_impl_pass=passes, per_class=per,
               rule="every case is a design with port references inside slices / concatenations, a single-fault mutant of one, a corpus "
                    "design, or a C02 core mutant that carries a nested reference; distinct by design; non-trivial = has at least one "
                    "instance connection (all do); verdicts and rejecting pass are compared inside Coq (Corr/C02F.v); in_scope_gained = "
                    "cases inside given_e && frag_f (model not out of fuel) that are outside C02E's given_e && frag_e")
    if not nested_ok:
        run.violation("C02F:coverage:nested", "no nested-reference mutant was in the scope of the C02F theorems and rejected by both sides",
                      dict(kind="coverage"), found_input=False)
    _report(run, "C02F", "pipeline-model-nested", designs, metas, outs, code, stage, n,
            {1: "the implementation's verdict differs from the checked pipeline model with nested references and the specification sides with the model",
             2: "the checked pipeline model (Model/C02FPipeline.v) and the implementation disagree on accept/reject (tie broken)",
             4: "the checked pipeline model contradicts Props/C02F.v on a design inside the hypotheses (checker defect)",
             5: "model and implementation reject in different passes (tie broken on the rejecting pass)"})
    # ---- bundles
    bdesigns, bmetas = bundle_cases(tier, seed)
    bouts = core.run_worker_sharded("c01b", [dict(design=d) for d in bdesigns])
    keep = [(d, mt, o, c) for d, mt, o in zip(bdesigns, bmetas, bouts) for c in [c_bcase(d, o)] if c is not None]
    unprintable = len(bdesigns) - len(keep)
    bdesigns, bmetas, bouts, bcases = [k[0] for k in keep], [k[1] for k in keep], [k[2] for k in keep], [k[3] for k in keep]
    bp = dict(core.coq_eval_cases("C02", "pipelineb", IMPORTS_B, "c02fb_case", bcases, "all_c02fb", chunk=25))
    nb = len(bdesigns)
    bcode = {i: bp.get(i, 0) // 1000 for i in range(nb)}
    bstage = {i: bp.get(i, 0) % 1000 // 10 for i in range(nb)}
    bscope = {i: bp.get(i, 0) % 10 for i in range(nb)}
    bimpl_rej = {i: bouts[i]["pkg"] is None for i in range(nb)}
    bper = {}
    for i, mt in enumerate(bmetas):
        e = bper.setdefault(mt["cls"], dict(cases=0, agree=0, model_rejects=0, impl_rejects=0, refused_by_constructors=0, in_scope=0, stages={}, tags={}))
        e["cases"] += 1
        for tg in mt.get("tags", []):
            e["tags"][tg] = e["tags"].get(tg, 0) + 1
        e["agree"] += int(bcode[i] == 0)
        e["model_rejects"] += int(bstage[i] != 0)
        e["impl_rejects"] += int(bimpl_rej[i])
        e["refused_by_constructors"] += int(bimpl_rej[i] and bouts[i]["err"][0] == "build")
        e["in_scope"] += bscope[i]
        st = STAGES[bstage[i]]
        e["stages"][st] = e["stages"].get(st, 0) + 1
    bmut_ok = [i for i in range(nb) if bmetas[i]["kind"] == "bundle-mutant" and bstage[i] != 0 and bimpl_rej[i] and bscope[i]]
    run.stream("pipeline-model-bundles", nb, len({json.dumps(d, sort_keys=True) for d in bdesigns}),
               verdict_agrees=sum(1 for i in range(nb) if bcode[i] == 0),
               both_reject=sum(1 for i in range(nb) if bstage[i] != 0 and bimpl_rej[i]),
               both_accept=sum(1 for i in range(nb) if bstage[i] == 0 and not bimpl_rej[i]),
               in_scope=sum(bscope.values()), bundle_mutants=sum(1 for mt in bmetas if mt["kind"] == "bundle-mutant"),
               bundle_mutants_rejected_by_both=len(bmut_ok), unprintable_dropped=unprintable, per_class=bper,
               rule="every case is a bundle design of harness/vp/c01b.py / c01g.py (corpus, generator) or a single-fault mutant of one on a "
                    "bundle / anonymous-bundle / Pair connection; distinct by design; non-trivial = has a bundle-valued or Pair connection "
                    "(all do); only the verdict of to_proto is compared (Corr/C02F.v:chk_c02fb)")
    # strengthening round: an extra anonymous-bundle member NAMED LIKE THE FLATTENED PATH of a nested member must have been tried
    if not [i for i in bmut_ok if "flattened-path-name" in bmetas[i].get("tags", [])]:
        run.violation("C02F:coverage:anon-extra-flattened-path-name", "no anonymous bundle with an extra member named like the '_'-joined path of a "
                      "nested member of the port's Bundle was rejected by both the model and the implementation", dict(kind="coverage"), found_input=False)
    if not [i for i in bmut_ok if "nc-ref-in-anon" in bmetas[i].get("tags", [])]:
        run.violation("C02F:coverage:nc-ref-in-anon", "no design with a no-connected port that is also referred to by an anonymous-bundle member "
                      "was rejected by both the model and the implementation", dict(kind="coverage"), found_input=False)
    if not bmut_ok:
        run.violation("C02F:coverage:bundles", "no bundle mutant was rejected by both the model and the implementation", dict(kind="coverage"), found_input=False)
    _report(run, "C02FB", "pipeline-model-bundles", bdesigns, bmetas, bouts, bcode, bstage, nb,
            {1: "the implementation returns a package for a bundle design that the checked pipeline with bundles rejects and the specification calls faulty",
             2: "the checked pipeline with bundles (Model/C02FBundles.v) and the implementation disagree on accept/reject (tie broken)"})
    run.coverage["pipeline2_model_tie"] = dict(nested_cases=n, nested_agree=sum(1 for i in range(n) if code[i] == 0),
                                               bundle_cases=nb, bundle_agree=sum(1 for i in range(nb) if bcode[i] == 0))
    run.coverage["traces_validated_against_impl"] = run.coverage.get("traces_validated_against_impl", 0) + n + nb


def _report(run, tag, stream, designs, metas, outs, code, stage, n, whats):
    order = sorted(range(n), key=lambda i: len(json.dumps(designs[i])))
    any1 = any(code[i] == 1 for i in range(n))
    seen = set()
    for i in order:
        c = code[i]
        if c == 0 or (c, metas[i]["cls"]) in seen or len([1 for x in seen if x[0] == c]) >= 3:
            continue
        seen.add((c, metas[i]["cls"]))
        run.violation(f"{tag}:{c}:{metas[i]['cls']}:" + json.dumps(designs[i], sort_keys=True),
                      f"{whats.get(c, 'code ' + str(c))}: model stage {STAGES.get(stage[i], stage[i])}, implementation {json.dumps(outs[i])[:300]}",
                      dict(kind="impl-violates-spec" if c == 1 else "tie-broken", stream=stream, cls=metas[i]["cls"],
                           case=designs[i], impl=outs[i], model_stage=STAGES.get(stage[i], stage[i]),
                           count=sum(1 for j in range(n) if code[j] == c)),
                      found_input=(c == 1) or any1)
