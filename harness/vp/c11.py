"""C11 — exported packages survive a round trip through from_proto (DESIGN.md 6.11).

Every case is a package P the implementation produced with to_proto, and P' = to_proto(from_proto(P).<top-level modules>)
(harness/impl/c11.py).  Coq (Corr/C11.v) decides P' = P (the specification, field by field, together with protobuf message
equality and deterministic-serialisation equality measured by the driver) and compares P' with the model
Model/C11RoundTrip.v:rt_pkg P (import, slice resolution, export).  Streams: corpus, examples/generators/PDK, the design
generator, the primitive / external-module parameter space, twins (several instances of one external module / primitive
whose parameter values are equal under Python's == but different in the package: the importer must not let an earlier
instance decide a later one; coverage classes measured by the driver, fail closed), enumeration tables and names against
the live functions, pyeq (Model/C11Share.v:py_eq against the live ==), history / history_decls (several exports in one
interpreter over ExternalModule objects MUTATED in between: every returned package must round-trip and declare each external
module as the object is at that moment - Model/C11History.v, Corr/C11.v:chk_hist; change classes measured, fail closed).
"""
import json, os, subprocess, itertools, time
from decimal import Decimal
from . import core, design as D
from .core import cz, clist, cbool

IMPORTS = ("Require Import Hdl21.Base.PyInt Hdl21.Base.Design Hdl21.Base.Package Hdl21.Base.Dec Hdl21.Model.C11RoundTrip "
           "Hdl21.Corr.C03 Hdl21.Corr.C11.\nFrom Coq Require Import String.\nOpen Scope string_scope.")
EXAMPLES = ["ro", "rdac", "encoder", "mos_sim", "diff_ota", "idac", "bundles"]
PREFIXES = ["YOCTO", "ZEPTO", "ATTO", "FEMTO", "PICO", "NANO", "MICRO", "MILLI", "CENTI", "DECI", "UNIT", "DECA", "HECTO",
            "KILO", "MEGA", "GIGA", "TERA", "PETA", "EXA", "ZETTA", "YOTTA"]
SPICETYPES = ["SUBCKT", "RESISTOR", "CAPACITOR", "INDUCTOR", "MOS", "DIODE", "BIPOLAR", "VSOURCE", "ISOURCE", "VCVS", "VCCS",
              "CCCS", "CCVS", "TLINE"]
DIRS = ["INPUT", "OUTPUT", "INOUT", "NONE"]
# primitive -> [(field, kind)]   (the generator's view of the public parameter classes; kinds: s scalar, t str, e:<Enum>)
PRIMS = {
    "Mos": [("w", "s"), ("l", "s"), ("nf", "s"), ("mult", "s"), ("tp", "e:MosType"), ("vth", "e:MosVth"), ("family", "e:MosFamily"), ("model", "t")],
    "IdealResistor": [("r", "S")], "PhysicalResistor": [("w", "s"), ("l", "s"), ("model", "t")],
    "ThreeTerminalResistor": [("w", "s"), ("l", "s"), ("model", "t")],
    "IdealCapacitor": [("c", "S")], "PhysicalCapacitor": [("w", "s"), ("l", "s"), ("c", "s"), ("model", "t"), ("mult", "t")],
    "ThreeTerminalCapacitor": [("w", "s"), ("l", "s"), ("c", "s"), ("model", "t"), ("mult", "t")],
    "IdealInductor": [("l", "S")], "PhysicalInductor": [("l", "S")], "ThreeTerminalInductor": [("l", "S")],
    "PhysicalShort": [("layer", "s"), ("w", "s"), ("l", "s")],
    "DcVoltageSource": [("dc", "s"), ("ac", "s")],
    "PulseVoltageSource": [("delay", "s"), ("v1", "s"), ("v2", "s"), ("period", "s"), ("rise", "s"), ("fall", "s"), ("width", "s")],
    "SineVoltageSource": [("voff", "s"), ("vamp", "s"), ("freq", "s"), ("td", "s"), ("phase", "s")],
    "CurrentSource": [("dc", "s")],
    "VoltageControlledVoltageSource": [("gain", "S")], "CurrentControlledVoltageSource": [("gain", "S")],
    "VoltageControlledCurrentSource": [("gain", "S")], "CurrentControlledCurrentSource": [("gain", "S")],
    "Bipolar": [("w", "s"), ("l", "s"), ("tp", "e:BipolarType"), ("model", "t"), ("mult", "s")],
    "Diode": [("w", "s"), ("l", "s"), ("model", "t")],
}
ENUMS = {"MosType": ["NMOS", "PMOS"], "MosVth": ["STD", "LOW", "HIGH", "ULTRA_LOW", "ULTRA_HIGH", "ZERO", "NATIVE"],
         "MosFamily": ["NONE", "CORE", "IO", "LP", "HP", "RF"], "BipolarType": ["NPN", "PNP"]}
I63 = 2 ** 63


# ------------------------------------------------------------------------------------------ Coq printers
def esc(s):
    """injective map into printable ASCII"""
    out = []
    for ch in s:
        o = ord(ch)
        if ch == "\\":
            out.append("\\\\")
        elif 32 <= o < 127:
            out.append(ch)
        else:
            out.append("\\u{%x}" % o)
    return "".join(out)


def cs(s):
    return core.cstr(esc(s))


def c_num(n):
    if n[0] == "int":
        return f"(NInt {cz(n[1])})"
    if n[0] == "dbl":
        return f"(NDbl {cs(n[1])})"
    if n[0] == "str":
        try:
            d = Decimal(n[1])
            if d.is_finite() and str(d) == n[1]:
                sign, digits, exp = d.as_tuple()
                coef = int("".join(map(str, digits))) if digits else 0
                return f"(NDec (mkDec {cbool(bool(sign))} {coef}%N {cz(exp)}))"
        except Exception:
            pass
        return f"(NRaw {cs(n[1])})"
    return "NUnset"


def c_val(v):
    t = v[0]
    if t == "int":
        return f"(VInt {cz(v[1])})"
    if t == "dbl":
        return f"(VDbl {cs(v[1])})"
    if t == "str":
        return f"(VStr {cs(v[1])})"
    if t == "lit":
        return f"(VLit {cs(v[1])})"
    if t == "pre":
        return f"(VPre {cs(v[1])} {c_num(v[2])})"
    return "VUnset"


def c_target(t):
    if t[0] == "sig":
        return f"(PSig {cs(t[1])})"
    if t[0] == "slice":
        return f"(PSlice {cs(t[1])} {cz(t[2])} {cz(t[3])})"
    if t[0] == "concat":
        return f"(PConcat {clist(t[1], c_target)})"
    return '(PSig "?unset")'


def c_pkg(p):
    sw = lambda s: f"({cs(s[0])}, {cz(s[1])})"
    pd = lambda s: f"({cs(s[0])}, {cs(s[1])})"

    def inst(i):
        r = i["ref"]
        ref = f"(PLocal {cs(r[1])})" if r[0] == "local" else (f"(PExt {cs(r[1])} {cs(r[2])})" if r[0] == "ext" else '(PLocal "?unset")')
        return (f"{{| ci_name := {cs(i['name'])}; ci_ref := {ref}; "
                f"ci_params := {clist(i['params'], lambda kv: f'({cs(kv[0])}, {c_val(kv[1])})')}; "
                f"ci_conns := {clist(i['conns'], lambda c: f'({cs(c[0])}, {c_target(c[1])})')} |}}")

    def mod(m):
        return (f"{{| cm_name := {cs(m['name'])}; cm_sigs := {clist(m['sigs'], sw)}; cm_ports := {clist(m['ports'], pd)};\n"
                f"   cm_insts := {clist(m['insts'], inst)}; cm_literals := {clist(m['literals'], cs)} |}}")

    def ext(x):
        return (f"{{| cx_domain := {cs(x['domain'])}; cx_name := {cs(x['name'])}; cx_sigs := {clist(x['sigs'], sw)}; "
                f"cx_ports := {clist(x['ports'], pd)}; cx_spicetype := {cs(x['spicetype'])} |}}")
    return f"{{| ck_domain := {cs(p['domain'])}; ck_exts := {clist(p['exts'], ext)}; ck_mods := {clist(p['mods'], mod)} |}}"


def unmodelled(p):
    """the package fields the Coq types do not carry, as one canonical text"""
    return json.dumps(dict(desc=p["desc"], exts=[[x["desc"], x["params"]] for x in p["exts"]],
                           mods=[m["params"] for m in p["mods"]],
                           pdesc=[[[q[2] for q in i["params"]] for i in m["insts"]] for m in p["mods"]]), sort_keys=True)


def c_case(r):
    q = "None" if r["q"] is None else f"(Some {c_pkg(r['q'])})"
    qx = "" if r["q"] is None else unmodelled(r["q"])
    return f"({c_pkg(r['p'])},\n  {q},\n  {cs(unmodelled(r['p']))}, {cs(qx)}, {cbool(r['eq_msg'])}, {cbool(r['eq_bytes'])})"


# ------------------------------------------------------------------------------------------ difference classes
def first_diff(a, b, path=""):
    if type(a) != type(b):
        return path
    if isinstance(a, dict):
        for k in a:
            d = first_diff(a[k], b.get(k), path + "/" + k)
            if d is not None:
                return d
        return None
    if isinstance(a, list):
        if len(a) != len(b):
            return path + "#len"
        for x, y in zip(a, b):
            d = first_diff(x, y, path + "[]")
            if d is not None:
                return d
        return None
    return None if a == b else path


def diff_class(r):
    if r["q"] is None:
        return f"{r['stage']}-raises:{r['err']['cls']}"
    d = first_diff(r["p"], r["q"])
    if d is not None:
        return "field:" + d
    return "protobuf-only" if not (r["eq_msg"] and r["eq_bytes"]) else "same"


# ------------------------------------------------------------------------------------------ case generators
def P(num, pre="UNIT"):
    return ["pre", num, pre]


def one_inst(prim, params, **kw):
    return dict(source="insts", name="T", insts=[dict(name="i0", kind="prim", prim=prim, params=params)], **kw)


def ext_job(spicetype="SUBCKT", ports=None, params=None, paramtype="dict", fields=None, domain="lib", **kw):
    ports = ports or [["a", 1, "INPUT"], ["b", 3, "OUTPUT"], ["c", 2, "INOUT"], ["d", 1, "NONE"]]
    x = dict(name="E", domain=domain, spicetype=spicetype, ports=ports, paramtype=paramtype)
    if fields is not None:
        x["fields"] = fields
    return dict(source="insts", name="T", exts=[x], insts=[dict(name="x", kind="ext", ext=0, params=params or [])], **kw)


def corpus_jobs():
    jobs = []
    # pinned-tree witnesses (DESIGN.md section 7 item 14 and the defects found while building this check)
    jobs.append(ext_job(spicetype="MOS", ports=[["d", 1, "INOUT"]]))
    jobs.append(one_inst("PulseVoltageSource", [["delay", P("1", "NANO")]]))
    jobs.append(one_inst("Mos", [["w", ["lit", "5"]]]))
    jobs.append(one_inst("DcVoltageSource", [["dc", ["none"]]]))
    jobs.append(one_inst("CurrentSource", [["dc", ["none"]]]))
    jobs.append(one_inst("IdealResistor", [["r", ["lit", "1e3"]]]))
    # regression cases: prefixed numbers of every variant, literals, enums, wrapped module, domain
    jobs.append(one_inst("Mos", [["w", P("1.5", "MICRO")], ["l", ["int", 3]], ["nf", ["str", "2"]], ["mult", ["lit", "m*2"]],
                                 ["tp", ["enum", "MosType", "PMOS"]], ["model", ["str", "nch"]]], domain="dom", wrap=True,
                         literals=["first literal", ".include \"x\""]))
    jobs.append(one_inst("PulseVoltageSource", [[k, P(str(i + 1), "NANO")] for i, k in
                                                 enumerate(["delay", "v1", "v2", "period", "rise", "fall", "width"])]))
    jobs.append(ext_job(spicetype="TLINE", params=[["a", ["int", 5]], ["b", ["float", (0.1).hex()]], ["c", ["str", "hello"]],
                                                   ["d", P("1.50", "MILLI")], ["e", ["dec", "1.50"]], ["f", ["lit", "x+y"]],
                                                   ["g", ["none"]], ["h", ["enum", "MosType", "NMOS"]], ["i", ["int", I63 - 1]],
                                                   ["j", ["str", "5"]], ["k", ["int", -I63]]]))
    jobs.append(ext_job(paramtype="class", fields=["x", "y"], params=[["x", ["int", 5]], ["y", P("3", "PICO")]], domain=None,
                        desc="a description", wrap=True))
    # multi-top exports (a top that is also instantiated by a later top) and external modules first used below the top
    d = dict(mods=[dict(name="A", ports=[["p", 2, "in"]], sigs=[["s", 2]], insts=[dict(name="r", n=0, of=["prim", "R", 1], conns=[["p", ["sl", ["sig", "p"], ["i", 0]]], ["n", ["sl", ["sig", "s"], ["i", 1]]]])]),
                   dict(name="C", ports=[["q", 1, "out"]], sigs=[], insts=[dict(name="e", n=0, of=["ext", 0, 1], conns=[["x0", ["sig", "q"]]])]),
                   dict(name="B", ports=[], sigs=[["t", 2], ["u", 1]], insts=[dict(name="f", n=0, of=["ext", 1, 2], conns=[["x0", ["sig", "u"]]]),
                                                                              dict(name="c", n=0, of=["mod", 1], conns=[["q", ["sig", "u"]]]),
                                                                              dict(name="a", n=0, of=["mod", 0], conns=[["p", ["cat", [["sig", "u"], ["sl", ["sig", "t"], ["i", 1]]]]]])])],
             exts=[dict(name="E0", ports=[["x0", 1]]), dict(name="E1", ports=[["x0", 1]])], top=2)
    jobs.append(dict(source="design", design=d))
    jobs.append(dict(source="design", design=d, tops=[0, 2], domain="multi"))
    jobs.append(dict(source="design", design=d, tops=[2, 0, 1]))
    # strengthening round: minimised form of the seeded Call-sharing change (an importer cache keyed by Python-equal parameters):
    # one cell in a leaf; in the top the same cell with the same numbers written differently, and once exactly as in the leaf
    cell = dict(name="cell", domain="c11_pdk", spicetype=None, ports=[["a", 1, "INOUT"], ["b", 1, "INOUT"]], paramtype="dict")
    mk = lambda nm, m, w: dict(name=nm, kind="ext", ext=0, params=[["m", m], ["w", w], ["mode", ["str", "fast"]]])
    jobs.append(dict(source="insts", name="Top", domain="c11_demo_c", exts=[cell], mods=[
        dict(name="Leaf", insts=[mk("x0", ["int", 2], P("1500", "MILLI"))], uses=[]),
        dict(name="Top", insts=[mk("x1", ["float", (2.0).hex()], P("1500", "MILLI")), mk("x2", ["int", 2], P("1.5", "UNIT")),
                                mk("x3", ["int", 2], P("1500", "MILLI"))], uses=[0])]))
    jobs.append(dict(source="insts", name="T", exts=[], mods=[
        dict(name="T", insts=[dict(name="r0", kind="prim", prim="IdealResistor", params=[["r", P("1.5", "UNIT")]]),
                              dict(name="r1", kind="prim", prim="IdealResistor", params=[["r", P("1500", "MILLI")]]),
                              dict(name="r2", kind="prim", prim="IdealResistor", params=[["r", P("1.50", "UNIT")]])], uses=[])]))
    return jobs


def num_pool(r):
    """decimal texts for Prefixed numbers: integral / fractional, short / long coefficients, exponents, signs"""
    k = r.random()
    sign = "-" if r.random() < 0.25 else ""
    if k < 0.25:
        return sign + str(r.choice([0, 1, 2, 7, 10, 1000, 123456789, I63 - 1, r.randrange(0, I63)]))
    if k < 0.5:
        return sign + f"{r.randrange(0, 10 ** r.randint(1, 6))}.{r.randrange(0, 10 ** r.randint(1, 12)):0{r.randint(1, 12)}d}"
    if k < 0.7:
        return sign + f"{r.randrange(1, 10 ** r.randint(1, 30))}E{r.randint(-40, 15)}"
    if k < 0.85:
        return sign + r.choice(["1.50", "0.1", "1e-7", "2.5e3", "1.0", "100e-2", "0.000001", "1E+2", "12345678901234567890.5"])
    digits = "".join(r.choice("0123456789") for _ in range(r.randint(1, 40)))
    return sign + "0." + digits + r.choice("123456789")


def scalar_value(r):
    k = r.random()
    if k < 0.55:
        return P(num_pool(r), r.choice(PREFIXES))
    if k < 0.65:
        return ["int", r.choice([0, 1, -1, 42, 10 ** 9, r.randrange(-10 ** 12, 10 ** 12)])]
    if k < 0.72:
        return ["float", r.choice([0.1, 1e-7, 2.5, 1e3, 3.0, 1e-9, 0.5, 123.456]).hex()]
    if k < 0.8:
        return ["str", r.choice(["1.5", "2e3", "7", "0.001", "1e-12"])]
    if k < 0.85:
        return ["dec", num_pool(r)]
    return ["lit", r.choice(["5", "1e3", "w/2", "a+b", "1.5", " 7", "x", "2*l", "1e-9", "0", "-3", "nan", "inf", "1_0", "", " ", "m(1)"])]


def str_value(r):
    return ["str", r.choice(["nch", "pch", "5", "1e3", "model a", "", "x=y", "m.lvt", "None", "µmodel", "a\\b", "q\"uote"])]


def dict_value(r):
    k = r.random()
    if k < 0.3:
        return P(num_pool(r), r.choice(PREFIXES))
    if k < 0.45:
        return ["int", r.choice([0, 1, -1, I63 - 1, -I63, r.randrange(-I63, I63)])]
    if k < 0.6:
        return ["float", r.choice([0.1, 1e-7, 5e-324, 1.7976931348623157e308, -0.0, 2.5, float("inf"), 1e22, 1 / 3]).hex()]
    if k < 0.75:
        return str_value(r)
    if k < 0.83:
        return ["dec", num_pool(r)]
    if k < 0.9:
        return ["lit", r.choice(["5", "w/2", "1e3", "", "a b"])]
    if k < 0.95:
        return ["enum", "MosType", r.choice(ENUMS["MosType"])]
    return ["none"]


def field_value(r, kind):
    if kind in ("s", "S"):
        if kind == "s" and r.random() < 0.2:
            return ["none"]
        return scalar_value(r)
    if kind == "t":
        return ["none"] if r.random() < 0.2 else str_value(r)
    en = kind[2:]
    return ["enum", en, r.choice(ENUMS[en])]


def prim_job(r, k):
    """one module with 1..3 primitive instances with random subsets of their parameters"""
    insts = []
    for j in range(r.randint(1, 3)):
        prim = r.choice(list(PRIMS))
        params = []
        for f, kind in PRIMS[prim]:
            if kind == "S" or r.random() < 0.55:
                if kind == "S" and f == "gain" and r.random() < 0.3:
                    continue            # default gain
                params.append([f, field_value(r, kind)])
        insts.append(dict(name=f"i{j}", kind="prim", prim=prim, params=params))
    return dict(source="insts", name=f"T{k % 7}", insts=insts, wrap=r.random() < 0.2,
                domain=r.choice([None, None, "dom", "a.b"]), literals=[r.choice(["lit", ".option x", "* c", ""]) for _ in range(r.choice([0, 0, 1, 2]))])


def extmod_job(r, k):
    nx = r.randint(1, 3)
    exts, insts = [], []
    for e in range(nx):
        ports = [[f"p{j}", r.choice([1, 1, 2, 5]), r.choice(DIRS)] for j in range(r.randint(0, 4))]
        cls = r.random() < 0.3
        fields = [f"f{j}" for j in range(r.randint(1, 4))]
        exts.append(dict(name=f"E{e}", domain=r.choice([None, "", "lib", "a.b", "sky130"]), spicetype=r.choice(SPICETYPES + [None]),
                         ports=ports, paramtype="class" if cls else "dict", fields=fields,
                         desc=r.choice([None, "text"])))
        for j in range(r.randint(1, 2)):
            names = fields if cls else [f"k{q}" for q in range(r.randint(0, 5))]
            insts.append(dict(name=f"x{e}_{j}", kind="ext", ext=e, params=[[n, dict_value(r)] for n in names if (not cls) or r.random() < 0.8]))
    r.shuffle(insts)
    return dict(source="insts", name=f"X{k % 5}", exts=exts, insts=insts, wrap=r.random() < 0.3, domain=r.choice([None, "pkg"]),
                bare=r.random() < 0.3)


def exhaustive_jobs():
    """every primitive x every field alone x one value of each kind; every spice type; every direction; every prefix"""
    jobs = []
    for prim, fl in PRIMS.items():
        req = [[f, P("2")] for f, kind in fl if kind == "S" and f != "gain"]
        jobs.append(one_inst(prim, req))
        for f, kind in fl:
            if kind in ("s", "S"):
                vals = [P("1.5", "KILO"), P("3", "MILLI"), ["lit", "7"], ["lit", "a*b"], ["none"] if kind == "s" else P("0")]
            elif kind == "t":
                vals = [["str", "5"], ["str", "name"], ["none"]]
            else:
                vals = [["enum", kind[2:], v] for v in ENUMS[kind[2:]]]
            for v in vals:
                others = [q for q in req if q[0] != f]
                jobs.append(one_inst(prim, others + [[f, v]]))
    for st in SPICETYPES:
        jobs.append(ext_job(spicetype=st, ports=[[f"p{d}", 1 + k, d] for k, d in enumerate(DIRS)], params=[["m", ["int", 1]]]))
    for pre in PREFIXES:
        jobs.append(one_inst("IdealResistor", [["r", P("1.25", pre)]]))
        jobs.append(ext_job(params=[["v", P("-3", pre)], ["w", P("0.5", pre)]]))
    return jobs


def design_job(r, k):
    d = D.gen_design(r, size=r.choice([1, 2, 3]))
    job = dict(source="design", design=d)
    if r.random() < 0.3:
        job["domain"] = r.choice(["d", "a.b"])
    if r.random() < 0.25 and len(d["mods"]) > 1:
        n = len(d["mods"])
        tops = r.sample(range(n), r.randint(1, min(3, n)))
        job["tops"] = tops
    return job


# ------------------------------------------------------------------------------------------ twins (strengthening round)
# Packages in which SEVERAL instances of one external module / one primitive carry parameter values that are equal under
# Python's `==` (and mostly hash alike) once imported, but are different values of the package: the integer 2, the double
# 2.0, 2 UNIT, 2000 MILLI, 0.002 KILO, the literal "2"; 1.5 / 1.50 / 15E-1 UNIT; 0, 0.0, -0.0 ...   Each instance must keep
# its own spelling whatever was imported before it (same module, a module imported earlier, a sibling module), in either
# order.  A value is given by its exact decimal; a spelling is a job-level value (harness/impl/c11.py:mk_value).
TWIN_PREFIXES = [("UNIT", 0), ("MILLI", -3), ("KILO", 3), ("MICRO", -6), ("DECI", -1), ("MEGA", 6)]


def dec_plain(d):
    return format(d, "f")


def spellings(d, scalar_only=False, prefixes=TWIN_PREFIXES):
    """the spellings of the exact decimal value d: [(label, job value)]"""
    d = Decimal(d)
    out = []
    integral = d == d.to_integral_value()
    if not scalar_only:
        if integral and -I63 <= int(d) < I63:
            out.append(("int", ["int", int(d)]))
        f = float(d)
        if Decimal(f) == d:
            out.append(("dbl", ["float", f.hex()]))
            if f == 0.0:
                out.append(("dbl-0", ["float", (-0.0).hex()]))
        out.append(("lit", ["str", dec_plain(d)]))
    for name, e in prefixes:
        num = d.scaleb(-e)
        out.append(("pre:" + name, ["pre", dec_plain(num), name]))
    if not integral:
        out.append(("pre:UNIT:zeros", ["pre", dec_plain(d) + "0", "UNIT"]))
        sign, digits, exp = d.as_tuple()
        out.append(("pre:UNIT:exp", ["pre", ("-" if sign else "") + "".join(map(str, digits)) + "E" + str(exp), "UNIT"]))
    return out


TWIN_EXT = dict(name="cell", domain="pdk", spicetype=None, ports=[["a", 1, "INOUT"], ["b", 2, "INPUT"]], paramtype="dict")
TWIN_PRIMS = [("IdealResistor", "r"), ("Mos", "w"), ("PulseVoltageSource", "delay"), ("PhysicalCapacitor", "c"), ("DcVoltageSource", "dc")]


def prim_params(prim, field_values):
    """parameters of a primitive instance: the given Scalar fields, every other required / chosen field fixed"""
    out = []
    for f, kind in PRIMS[prim]:
        if f in field_values:
            out.append([f, field_values[f]])
        elif kind == "S" and f != "gain":
            out.append([f, P("3", "KILO")])
        elif kind == "t" and f == "model":
            out.append([f, ["str", "nch"]])
    return out


def twin_job(insts_by_mod, scope, exts, name="W", **kw):
    """scope: same (one module) | chain (the first instance list in a leaf, the second in the top instantiating the leaf) |
    siblings (two leaves, then a top instantiating both) | tops (two modules exported together)"""
    a, b = insts_by_mod
    if scope == "same":
        mods = [dict(name=name, insts=a + b, uses=[])]
    elif scope == "chain":
        mods = [dict(name=name + "Leaf", insts=a, uses=[]), dict(name=name, insts=b, uses=[0])]
    elif scope == "siblings":
        mods = [dict(name=name + "L", insts=a, uses=[]), dict(name=name + "R", insts=b, uses=[]), dict(name=name, insts=[], uses=[0, 1])]
    else:
        mods = [dict(name=name + "A", insts=a, uses=[]), dict(name=name + "B", insts=b, uses=[])]
        kw["tops"] = [0, 1]
    return dict(source="insts", name=name, exts=exts, mods=mods, **kw)


def twins_small_jobs():
    """every ordered pair of spellings of 2, of 1.5 and of 0, on an external module with dict parameters (every scope), on one
    with a parameter class and on primitives (scopes in rotation)"""
    jobs, k = [], 0
    scopes = ["same", "chain", "siblings", "tops"]
    for val in ["2", "1.5", "0"]:
        sp = spellings(val, prefixes=TWIN_PREFIXES[:3])
        for (la, va), (lb, vb) in itertools.permutations(sp, 2):
            mk = lambda v, nm: [dict(name=nm, kind="ext", ext=0, params=[["m", v], ["mode", ["str", "fast"]]])]
            for scope in scopes[:2]:
                jobs.append(twin_job((mk(va, "x0"), mk(vb, "x1")), scope, [dict(TWIN_EXT)], twin=[la, lb]))
            jobs.append(twin_job((mk(va, "x0"), mk(vb, "x1")), scopes[2 + k % 2], [dict(TWIN_EXT)], twin=[la, lb]))
            cls = dict(TWIN_EXT, paramtype="class", fields=["m", "n"], name="ccell")
            mkc = lambda v, nm: [dict(name=nm, kind="ext", ext=0, params=[["m", v]])]
            jobs.append(twin_job((mkc(va, "x0"), mkc(vb, "x1")), scopes[k % 4], [cls], twin=[la, lb]))
            k += 1
    for val in ["2", "1.5", "0"]:
        sp = spellings(val, scalar_only=True, prefixes=TWIN_PREFIXES[:3])
        for (la, va), (lb, vb) in itertools.permutations(sp, 2):
            prim, f = TWIN_PRIMS[k % len(TWIN_PRIMS)]
            mk = lambda v, nm: [dict(name=nm, kind="prim", prim=prim, params=prim_params(prim, {f: v}))]
            for scope in (scopes[k % 2], scopes[2 + k % 2]):
                jobs.append(twin_job((mk(va, "p0"), mk(vb, "p1")), scope, [], twin=[la, lb]))
            k += 1
    return jobs


TWIN_VALUES = ["0", "1", "2", "7", "-3", "1000", "9007199254740992", "1000000000000000000", "0.5", "1.5", "2.25", "-0.75", "0.1",
               "0.001", "1234.5", "1E+3", "0.000001"]


def twins_random_job(r, k):
    """1..2 external modules and 0..2 primitives, 2..5 instances of each spread over 1..3 modules; the instances of one target
    take the same parameter names in the same order and each value in a random spelling of the SAME number (85 %), or - as
    controls - another number, permuted names, a dropped name."""
    exts, targets = [], []
    for e in range(r.randint(1, 2)):
        cls = r.random() < 0.25
        names = [f"k{j}" for j in range(r.randint(1, 3))]
        exts.append(dict(name=f"E{e}", domain=r.choice(["pdk", "", "a.b"]), spicetype=r.choice([None, "MOS", "SUBCKT"]),
                         ports=[[f"p{j}", r.choice([1, 2]), r.choice(DIRS)] for j in range(r.randint(1, 3))],
                         paramtype="class" if cls else "dict", fields=names))
        targets.append(("ext", e, names, cls))
    for _ in range(r.randint(0, 2)):
        prim = r.choice(list(PRIMS))
        names = [f for f, kind in PRIMS[prim] if kind in ("s", "S")]
        names = [f for f in names if r.random() < 0.7] or names[:1]
        targets.append(("prim", prim, names, True))
    insts, n = [], 0
    for kind, what, names, fixed_order in targets:
        base = {nm: r.choice(TWIN_VALUES) for nm in names}
        for _ in range(r.randint(2, 5)):
            use, vals = list(names), dict(base)
            u = r.random()
            if u > 0.85:
                c = r.random()
                if c < 0.4:
                    vals[r.choice(names)] = r.choice(TWIN_VALUES)
                elif c < 0.7 and not fixed_order:
                    r.shuffle(use)
                elif len(use) > 1 and kind == "ext":
                    use.remove(r.choice(use))
            ps = {}
            for nm in use:
                sp = spellings(vals[nm], scalar_only=(kind == "prim"))
                if kind == "ext" and r.random() < 0.05:
                    sp = sp + [("lit", ["lit", vals[nm]]), ("none", ["none"]), ("bool", ["bool", vals[nm] == "1"])]
                ps[nm] = r.choice(sp)[1]
            if kind == "ext":
                insts.append(dict(name=f"x{n}", kind="ext", ext=what, params=[[nm, ps[nm]] for nm in use]))
            else:
                insts.append(dict(name=f"x{n}", kind="prim", prim=what, params=prim_params(what, ps)))
            n += 1
    r.shuffle(insts)
    cut = r.randint(0, len(insts))
    scope = r.choice(["same", "chain", "chain", "siblings", "tops"])
    return twin_job((insts[:cut], insts[cut:]), scope, exts, name=f"W{k % 5}", domain=r.choice([None, "pkg"]),
                    bare=r.random() < 0.2)


TWIN_KINDS = ["int", "dbl", "pre_i", "pre_s"]
TWIN_TARGETS = ([f"ext:{sc}:{a}>{b}" for sc in ("same_mod", "cross_mod") for a in TWIN_KINDS for b in TWIN_KINDS if (a, b) != ("int", "int")]
                + [f"ext:{sc}:{a}>{b}" for sc in ("same_mod", "cross_mod") for a, b in (("lit", "pre_i"), ("pre_i", "lit"), ("lit", "pre_s"), ("pre_s", "lit"))]
                + [f"prim:{sc}:{a}>{b}" for sc in ("same_mod", "cross_mod") for a in ("pre_i", "pre_s") for b in ("pre_i", "pre_s")])


def twin_classes(r):
    """the coverage classes a case meets: <ext|prim>:<same_mod|cross_mod>:<kind of the earlier instance's value>><kind of the later one's>"""
    return {f"{t}:{sc}:{a}>{b}" for sc, t, heq, kinds in r.get("twins", []) for a, b in kinds}


def ensure_corr_vo():
    """Corr/C11.vo must exist even when a later file of the project fails to build (e.g. Props/C11.v on a tree whose
    importer does not have the repaired shape)."""
    subprocess.run(["timeout", "900", "make", f"-j{core.NPROC}", "theories/Corr/C11.vo"], cwd=core.COQDIR,
                   capture_output=True, text=True)


# ------------------------------------------------------------------------------------------ histories (strengthening round 2)
# Several exports in ONE interpreter over ExternalModule objects that are mutated in between (a port appended / inserted /
# removed / renamed / resized / redirected / replaced, the list replaced or reversed, name / domain / spicetype / desc /
# paramtype assigned).  Every returned package must round-trip (chk_c11) and declare each external module as the object IS when
# the package is produced (Corr/C11.v:chk_hist over Model/C11History.v).  The generator keeps its own copy of the object states
# (the model's input); the driver reads the live objects' public attributes at every observing step (compared in Coq).
HIMPORTS = IMPORTS.replace("Hdl21.Corr.C11.", "Hdl21.Corr.C11 Hdl21.Model.C11History.")
MUT_KINDS = ["append", "insert", "remove", "rename", "width", "dir", "replace", "ports", "reverse", "name", "domain", "spicetype",
             "desc", "paramtype"]
EXPOSURES = ["export", "netlist", "decl"]
# measured change classes (live object state at the previous exposure of the object against its state at this export)
CHANGE_KINDS = ["ports_longer", "ports_shorter", "port_renamed", "port_width", "port_dir", "port_order", "name", "domain",
                "spicetype", "desc", "paramtype", "unchanged"]
HIST_TARGETS = ([f"{c}:after:export" for c in CHANGE_KINDS] + [f"ports_longer:after:{e}" for e in EXPOSURES] +
                [f"unchanged:after:{e}" for e in EXPOSURES] + ["reused_module", "multi_object", "same_name_objects"])


def c_eport(p):
    return f"{{| ep_name := {cs(p[0])}; ep_width := {cz(p[1])}; ep_dir := {cs(p[2])} |}}"


def c_eobj(o):
    return (f"{{| eo_domain := {cs(o[0])}; eo_name := {cs(o[1])}; eo_ports := {clist(o[2], c_eport)}; "
            f"eo_spicetype := {cs(o[3])} |}}")


def c_mut(op):
    k = op[0]
    n = lambda j: f"{int(j)}%nat"
    if k == "append":
        return f"(MAppend {c_eport(op[1])})"
    if k == "insert":
        return f"(MInsert {n(op[1])} {c_eport(op[2])})"
    if k == "remove":
        return f"(MRemove {n(op[1])})"
    if k == "rename":
        return f"(MRename {n(op[1])} {cs(op[2])})"
    if k == "width":
        return f"(MWidth {n(op[1])} {cz(op[2])})"
    if k == "dir":
        return f"(MDir {n(op[1])} {cs(op[2])})"
    if k == "replace":
        return f"(MReplace {n(op[1])} {c_eport(op[2])})"
    if k == "ports":
        return f"(MPorts {clist(op[1], c_eport)})"
    if k == "reverse":
        return "MReverse"
    if k == "name":
        return f"(MName {cs(op[1])})"
    if k == "domain":
        return f"(MDomain {cs(op[1] or '')})"
    if k == "spicetype":
        return f"(MSpice {cs(op[1])})"
    if k in ("desc", "paramtype"):
        return "MSilent"
    raise ValueError(op)


def walk_uses(job, si):
    """the ExternalModule objects of the ExternalModuleCall instances, in the order the exporter's depth-first walk meets them
    (build_mods adds a module's sub-module instances first: `uses`, then `reuse`, then its external-module instances)"""
    out, seen = [], set()

    def mod(st, ix):
        if (st, ix) in seen:
            return
        seen.add((st, ix))
        ms = job["steps"][st][1]["mods"][ix]
        for u in ms.get("uses", []):
            mod(st, u)
        for st2, ix2 in ms.get("reuse", []):
            mod(st2, ix2)
        for x in ms["insts"]:
            out.append(x["ext"])
    spec = job["steps"][si][1]
    for t in spec.get("tops") or [len(spec["mods"]) - 1]:
        mod(si, t)
    return out


def c_hop(job, si):
    st = job["steps"][si]
    if st[0] == "mut":
        return f"HMut {int(st[1])}%nat {c_mut(st[2])}"
    if st[0] == "decl":
        return f"HDecl {int(st[1])}%nat"
    us = clist(walk_uses(job, si), lambda k: f"{int(k)}%nat")
    return f"{'HExport' if st[0] == 'export' else 'HSilent'} {us}"


def c_ext_decl(x):
    sw = lambda s: f"({cs(s[0])}, {cz(s[1])})"
    pd = lambda s: f"({cs(s[0])}, {cs(s[1])})"
    return (f"{{| cx_domain := {cs(x['domain'])}; cx_name := {cs(x['name'])}; cx_sigs := {clist(x['sigs'], sw)}; "
            f"cx_ports := {clist(x['ports'], pd)}; cx_spicetype := {cs(x['spicetype'])} |}}")


def c_hist_case(job, recs):
    init = [[x.get("domain") or "", x["name"], x["ports"], x.get("spicetype") or "SUBCKT"] for x in job["exts"]]
    rets, live = [], []
    for rec in recs:
        if rec["kind"] == "netlist":          # returns no package: not an observation (its record carries the live object states)
            continue
        live.append(clist([o[:4] for o in rec["objs"]], c_eobj))
        if rec["kind"] == "decl":
            rets.append("None" if rec["decl"] is None else f"(Some [{c_ext_decl(rec['decl'])}])")
        else:
            rets.append("None" if rec["res"] is None else f"(Some {clist(rec['res']['p']['exts'], c_ext_decl)})")
    ops = clist(range(len(job["steps"])), lambda si: c_hop(job, si))
    return f"({clist(init, c_eobj)},\n  {ops},\n  [{'; '.join(rets)}],\n  [{'; '.join(live)}])"


def fresh_port(r, used):
    k = 0
    while f"q{k}" in used:
        k += 1
    cands = [f"q{k}"] * 2 + [n for n in ("vnw", "vpw", "sub") if n not in used]
    return [r.choice(cands), r.choice([1, 1, 1, 2, 4]), r.choice(DIRS)]


def gen_mutation(r, st, others):
    """a mutation of the object state `st` ([domain, name, ports, spicetype]) that keeps it a valid ExternalModule (distinct port
    names, widths >= 1); returns the op and applies it to st"""
    ports = st[2]
    names = [p[0] for p in ports]
    kinds = ["append", "append", "append", "insert", "replace", "ports", "name", "domain", "spicetype", "desc", "paramtype"]
    if ports:
        kinds += ["remove", "rename", "rename", "width", "dir"]
    if len(ports) > 1:
        kinds += ["reverse"]
    k = r.choice(kinds)
    if k == "append":
        p = fresh_port(r, names)
        ports.append(p)
        return [k, p]
    if k == "insert":
        j = r.randint(0, len(ports))
        p = fresh_port(r, names)
        ports.insert(j, p)
        return [k, j, p]
    if k == "remove":
        j = r.randrange(len(ports))
        del ports[j]
        return [k, j]
    if k == "rename":
        j = r.randrange(len(ports))
        n = fresh_port(r, names)[0]
        ports[j] = [n, ports[j][1], ports[j][2]]
        return [k, j, n]
    if k == "width":
        j = r.randrange(len(ports))
        w = r.choice([w for w in (1, 2, 3, 8) if w != ports[j][1]])
        ports[j] = [ports[j][0], w, ports[j][2]]
        return [k, j, w]
    if k == "dir":
        j = r.randrange(len(ports))
        d = r.choice([d for d in DIRS if d != ports[j][2]])
        ports[j] = [ports[j][0], ports[j][1], d]
        return [k, j, d]
    if k == "replace":
        if not ports:
            p = fresh_port(r, names)
            ports.append(p)
            return ["append", p]
        j = r.randrange(len(ports))
        p = fresh_port(r, [n for i, n in enumerate(names) if i != j])
        if r.random() < 0.5:
            p[0] = names[j]                 # same name, another Signal object
        ports[j] = p
        return [k, j, p]
    if k == "ports":
        ps = []
        for _ in range(r.randint(0, 4)):
            ps.append(fresh_port(r, [p[0] for p in ps]))
        st[2] = ps
        return [k, ps]
    if k == "reverse":
        ports.reverse()
        return [k]
    if k == "name":
        taken = r.random() < 0.12 and others
        n = r.choice(others)[1] if taken else st[1] + "v"
        st[1] = n
        return [k, n]
    if k == "domain":
        d = r.choice([d for d in (None, "lib", "a.b", "pdk2") if (d or "") != st[0]])
        st[0] = d or ""
        return [k, d]
    if k == "spicetype":
        s_ = r.choice([t for t in SPICETYPES if t != st[3]])
        st[3] = s_
        return [k, s_]
    if k == "desc":
        return [k, r.choice(["a cell", "", "rev B"])]
    return [k, r.choice(["dict", "class"]), ["m", "w"]]


def history_job(r, k):
    nx = r.choice([1, 1, 2, 2, 3])
    exts, state = [], []
    for e in range(nx):
        ports = []
        for _ in range(r.randint(0, 4)):
            ports.append(fresh_port(r, [p[0] for p in ports]))
        dom = r.choice([None, "lib", "extlib", "a.b"])
        same = e > 0 and r.random() < 0.1      # another object with the (domain, name) and the ports of an earlier one
        x = dict(name=exts[0]["name"] if same else f"cell{e}", domain=exts[0]["domain"] if same else dom,
                 spicetype=exts[0]["spicetype"] if same else r.choice([None, None, "MOS", "SUBCKT", "DIODE"]),
                 ports=[list(p) for p in exts[0]["ports"]] if same else ports,
                 paramtype=r.choice(["dict", "dict", "class"]), fields=["m", "w"], desc=r.choice([None, "text"]))
        exts.append(x)
        state.append([x["domain"] or "", x["name"], [list(p) for p in x["ports"]], x["spicetype"] or "SUBCKT"])
    steps, dirty_since = [], {}          # (step, mod index) -> set of ext ids it (transitively) uses
    uses_of = {}
    nobs = r.randint(2, 5)
    for ob in range(nobs):
        if ob > 0 or r.random() < 0.2:
            for _ in range(r.choice([0, 1, 1, 1, 2, 3]) if ob > 0 else 1):
                e = r.randrange(nx)
                op = gen_mutation(r, state[e], [s for i, s in enumerate(state) if i != e])
                steps.append(["mut", e, json.loads(json.dumps(op))])     # a copy: the generator goes on editing its own state
                for key in [key for key, us in uses_of.items() if e in us]:
                    del uses_of[key]                    # a module built before the mutation is not exported again
        u = r.random()
        si = len(steps)
        if u < 0.1:
            steps.append(["decl", r.randrange(nx)])
            continue
        mods = []
        for j in range(r.choice([1, 1, 2, 3])):
            insts = [dict(name=f"x{q}", kind="ext", ext=r.randrange(nx),
                          params=[["m", ["int", r.randint(1, 9)]]] + ([["w", P(str(r.randint(1, 99)), "NANO")]] if r.random() < 0.3 else []))
                     for q in range(r.randint(0 if j else 1, 3))]
            ms = dict(name=f"H{si}_{j}", insts=insts, uses=[q for q in range(j) if r.random() < 0.6])
            if uses_of and r.random() < 0.3:
                ms["reuse"] = [list(r.choice(sorted(uses_of)))]
            mods.append(ms)
        spec = dict(mods=mods)
        if len(mods) > 1 and r.random() < 0.25:
            spec["tops"] = r.sample(range(len(mods)), r.randint(1, len(mods)))
        if r.random() < 0.3:
            spec["domain"] = r.choice(["hist", "a.b"])
        kind = "export" if u < 0.85 or ob == nobs - 1 else "netlist"
        if kind == "netlist":
            spec["fmt"] = r.choice(["spice", "verilog", "spectre"])
        steps.append([kind, spec])
        for j, ms in enumerate(mods):
            us = {x["ext"] for x in ms["insts"]}
            for q in ms["uses"]:
                us |= uses_of[(si, q)]
            for st2, ix2 in ms.get("reuse", []):
                us |= uses_of[(st2, ix2)]
            uses_of[(si, j)] = us
    return dict(source="history", exts=exts, steps=steps, bare=r.random() < 0.15)


def history_corpus():
    """the minimised seeded demonstration (a cell exported, given its well tap, exported again) and relatives"""
    cell = dict(name="cell3", domain="extlib", ports=[["a", 1, "INPUT"], ["z", 1, "OUTPUT"], ["vss", 1, "NONE"]], paramtype="dict")
    one = lambda nm, m: dict(mods=[dict(name=nm, insts=[dict(name="i", kind="ext", ext=0, params=[["m", ["int", m]]])], uses=[])], domain="demoB")
    jobs = [dict(source="history", exts=[cell], steps=[["export", one("First", 1)], ["mut", 0, ["append", ["vnw", 1, "NONE"]]],
                                                        ["export", one("Second", 2)]])]
    jobs.append(dict(source="history", exts=[cell], steps=[["netlist", dict(one("First", 1), fmt="spice")], ["mut", 0, ["rename", 2, "gnd"]],
                                                           ["export", one("Second", 2)], ["mut", 0, ["spicetype", "MOS"]],
                                                           ["mut", 0, ["name", "cell4"]], ["export", one("Third", 3)]]))
    jobs.append(dict(source="history", exts=[cell], steps=[["decl", 0], ["mut", 0, ["width", 0, 4]], ["mut", 0, ["dir", 1, "INOUT"]],
                                                           ["decl", 0], ["export", one("Second", 2)], ["mut", 0, ["desc", "x"]],
                                                           ["mut", 0, ["paramtype", "class", ["m"]]], ["export", one("Third", 3)]]))
    return jobs


def obj_changes(a, b):
    """the measured difference of two live object states [domain, name, ports, spicetype, desc, paramtype]"""
    out = set()
    pa, pb = a[2], b[2]
    if len(pb) > len(pa):
        out.add("ports_longer")
    if len(pb) < len(pa):
        out.add("ports_shorter")
    na, nb = [p[0] for p in pa], [p[0] for p in pb]
    if len(pa) == len(pb):
        if sorted(na) != sorted(nb):
            out.add("port_renamed")
        elif na != nb:
            out.add("port_order")
    wa, wb = dict((p[0], p) for p in pa), dict((p[0], p) for p in pb)
    for n in set(wa) & set(wb):
        if wa[n][1] != wb[n][1]:
            out.add("port_width")
        if wa[n][2] != wb[n][2]:
            out.add("port_dir")
    for i, nm in ((0, "domain"), (1, "name"), (3, "spicetype"), (4, "desc"), (5, "paramtype")):
        if a[i] != b[i]:
            out.add(nm)
    return out or {"unchanged"}


def history_classes(job, recs):
    """coverage classes MEASURED on what the driver reports: for every object a returned export declares, how the live object
    differs from its state at the previous step that exposed it to the exporter (export / netlist / direct declaration)"""
    met, last = set(), {}
    by_step = {rec["step"]: rec for rec in recs}
    objs_now = None
    for si, st in enumerate(job["steps"]):
        if st[0] == "mut":
            continue
        rec = by_step.get(si)
        used = [st[1]] if st[0] == "decl" else sorted(set(walk_uses(job, si)))
        if st[0] == "export" and rec is not None and rec["res"] is not None:
            objs = rec["objs"]
            for k in used:
                if k in last:
                    kind0, o0 = last[k]
                    if o0 is not None:
                        for c in obj_changes(o0, objs[k]):
                            met.add(f"{c}:after:{kind0}")
            if len(used) > 1:
                met.add("multi_object")
            if len({(objs[k][0], objs[k][1]) for k in used}) < len(used):
                met.add("same_name_objects")
            if any(ms.get("reuse") for ms in st[1]["mods"]):
                met.add("reused_module")
        for k in used:
            last[k] = (st[0], rec["objs"][k] if rec is not None else None)
    return met


def histories(run, seed, quick, replay=None):
    t0 = time.time()
    if replay is not None:
        jobs = [replay["job"]]
    else:
        jobs = history_corpus() + [history_job(core.rng(seed, "C11", "history", k), k) for k in range(260 if quick else 2500)]
    outs = core.run_worker_sharded("c11", jobs, timeout=1800)
    # (a) every returned package round-trips
    cases, owner, src_err, refused, netlist_err = [], [], 0, 0, 0
    hjobs, hrecs = [], []
    met = {}
    for ji, o in enumerate(outs):
        if o["err"] is not None:
            src_err += 1
            run.violation(f"C11:history-source:{json.dumps(jobs[ji], sort_keys=True)[:300]}", f"history driver failed: {o['err']}",
                          dict(kind="source-failed", job=jobs[ji], err=o["err"]), found_input=False)
            continue
        for rec in o["hist"]:
            if rec["kind"] == "netlist":
                netlist_err += rec["err"] is not None
            elif rec["kind"] == "export" and rec["res"] is None:
                refused += 1
            if rec["res"] is not None:
                cases.append(rec["res"])
                owner.append(ji)
        hjobs.append(ji)
        hrecs.append(o["hist"])
        for c in history_classes(jobs[ji], o["hist"]):
            met[c] = met.get(c, 0) + 1
    bad = core.coq_eval_cases("C11", "history", IMPORTS, "c11_case", [c_case(r) for r in cases], "run_cases chk_c11", chunk=40)
    report(run, "history", jobs, cases, owner, bad, src_err)
    # (b) every returned package declares the objects as they are
    hbad = core.coq_eval_cases("C11", "history_decls", HIMPORTS, "hist_case", [c_hist_case(jobs[ji], recs) for ji, recs in zip(hjobs, hrecs)],
                               "run_cases chk_hist", chunk=40)
    nobs = sum(1 for recs in hrecs for rec in recs if rec["kind"] != "netlist")
    nontrivial = sum(1 for ji in hjobs if any(st[0] == "mut" for st in jobs[ji]["steps"]))
    run.stream("history_decls", len(hjobs), nontrivial, observations=nobs, exports_refused=refused, netlists_failed=netlist_err,
               mutations=sum(1 for ji in hjobs for st in jobs[ji]["steps"] if st[0] == "mut"),
               history_targets={t: met.get(t, 0) for t in HIST_TARGETS}, history_classes_met=len(met),
               rule="one evaluation = one history (1..3 ExternalModule objects, 2..5 observing steps: to_proto / h.netlist / "
                    "export_external_module, mutations between them) run in one interpreter; non-trivial = it has a mutation; "
                    "classes = <measured change of the live object since the exporter last saw it>:after:<how it saw it>")
    if replay is None:
        for t in HIST_TARGETS:
            if not met.get(t):
                run.violation(f"C11:coverage:history:{t}", f"generator coverage target missed: no history of class {t}",
                              dict(kind="coverage", target=t), found_input=False)
    size = lambda i: len(json.dumps(jobs[hjobs[i]]))
    ones = [i for i, code in hbad if code == 1]
    if ones:
        i = min(ones, key=size)
        run.violation("C11:history-stale:" + json.dumps(jobs[hjobs[i]], sort_keys=True)[:600],
                      f"a package returned by to_proto declares an ExternalModule otherwise than the object is at that moment "
                      f"({len(ones)} failing histories)", dict(kind="impl-violates-spec", job=jobs[hjobs[i]], records=hrecs[i], failing=len(ones)))
    twos = [i for i, code in hbad if code != 1]
    if twos:
        i = min(twos, key=size)
        run.violation("C11:tie:history:" + json.dumps(jobs[hjobs[i]], sort_keys=True)[:600],
                      f"model run_hist decl_fresh disagrees with the implementation although every declaration is current ({len(twos)} histories)",
                      dict(kind="model-differs", job=jobs[hjobs[i]], records=hrecs[i], failing=len(twos)), found_input=False)
    run.coverage["streams"]["history_decls"]["wall_s"] = round(time.time() - t0, 1)


# ------------------------------------------------------------------------------------------ the run
def run(run, tier, seed, replay=None):
    quick = tier == "quick"
    ensure_corr_vo()
    streams = {}
    streams["corpus"] = corpus_jobs()
    streams["builtin"] = [dict(source="example", example=ex, repo=core.REPO) for ex in EXAMPLES]
    for n in range(1, 4 if quick else 9):
        streams["builtin"] += [dict(source="generator", gen="MosStack", n=n), dict(source="generator", gen="SeriesR", n=n),
                               dict(source="generator", gen="SeriesMos", n=n, pair=["g", "b"] if n % 2 else ["d", "s"]),
                               dict(source="generator", gen="Wrapper", n=n), dict(source="pdk", n=n)]
    streams["exhaustive"] = exhaustive_jobs()
    streams["designs"] = [design_job(core.rng(seed, "C11", "designs", k), k) for k in range(300 if quick else 6000)]
    streams["primitives"] = [prim_job(core.rng(seed, "C11", "prims", k), k) for k in range(250 if quick else 5000)]
    streams["extmodules"] = [extmod_job(core.rng(seed, "C11", "exts", k), k) for k in range(150 if quick else 3000)]
    streams["twins"] = twins_small_jobs() + [twins_random_job(core.rng(seed, "C11", "twins", k), k) for k in range(150 if quick else 3000)]
    if replay is not None:
        streams = {"replay": [replay["job"]]} if replay["job"].get("source") != "history" else {}

    for sname, jobs in streams.items():
        t0 = time.time()
        solo = [j for j in jobs if j["source"] == "example"]
        rest = [j for j in jobs if j["source"] != "example"]
        outs = [core.run_worker("c11", dict(jobs=[j]), timeout=900)["results"][0] for j in solo]
        outs += core.run_worker_sharded("c11", rest, timeout=1800)
        jobs = solo + rest
        cases, owner, src_err = [], [], 0
        for ji, o in enumerate(outs):
            if o["err"] is not None:
                src_err += 1
                if sname in ("corpus", "builtin"):
                    run.violation(f"C11:source:{json.dumps(jobs[ji], sort_keys=True)[:300]}", f"package source failed: {o['err']}",
                                  dict(kind="source-failed", job=jobs[ji], err=o["err"]), found_input=False)
                continue
            for r in o["pkgs"]:
                cases.append(r)
                owner.append(ji)
        bad = core.coq_eval_cases("C11", sname, IMPORTS, "c11_case", [c_case(r) for r in cases], "run_cases chk_c11", chunk=40)
        report(run, sname, jobs, cases, owner, bad, src_err)
        run.coverage["streams"][sname]["wall_s"] = round(time.time() - t0, 1)

    if replay is None or replay["job"].get("source") == "history":
        histories(run, seed, quick, replay)
    if replay is None:
        t0 = time.time()
        tables(run, seed, quick)
        t1 = time.time()
        pyeq(run, seed, quick)
        run.coverage["streams"]["names"]["wall_s"] = round(t1 - t0, 1)       # enums + names
        if "pyeq" in run.coverage["streams"]:
            run.coverage["streams"]["pyeq"]["wall_s"] = round(time.time() - t1, 1)
    run.coverage["traces_validated_against_impl"] = run.coverage["evaluations"]
    # C11E: the exporter's output is in the round trip's normal form (Props/C11E.v) - tie of the pipeline model's package
    from . import c11e
    c11e.run_tie(run, tier, seed, replay)
    run.coverage["traces_validated_against_impl"] = run.coverage["evaluations"]


def report(run, sname, jobs, cases, owner, bad, src_err):
    distinct = {json.dumps(r["p"], sort_keys=True) for r in cases}
    nontrivial = {s for s in distinct if '"insts": [{' in s}
    feats = dict(with_slices=sum('"slice"' in s for s in distinct), with_concats=sum('"concat"' in s for s in distinct),
                 with_ext_modules=sum('"exts": [{' in s for s in distinct), with_prefixed=sum('"pre"' in s for s in distinct),
                 with_string_numbers=sum('["str", "' in s and '"pre"' in s for s in distinct),
                 with_literals=sum('"literals": ["' in s for s in distinct), multi_top=sum(len(r["tops"]) > 1 for r in cases))
    met = {}
    for r in cases:
        for c in twin_classes(r):
            met[c] = met.get(c, 0) + 1
    feats.update(twin_pairs=sum(len(r.get("twins", [])) for r in cases),
                 twin_pairs_hash_equal=sum(1 for r in cases for t in r.get("twins", []) if t[2]),
                 packages_with_twins=sum(1 for r in cases if r.get("twins")),
                 packages_with_twin_values_in_one_instance=sum(1 for r in cases if r.get("vtwins")),
                 twin_classes_met=len(met))
    if sname == "twins":
        feats["twin_targets"] = {t: met.get(t, 0) for t in TWIN_TARGETS}
        feats["twin_rule"] = ("twin pair = two instances of one external module / primitive, in import order, whose imported parameter "
                              "dicts are equal as tuple(params.items()) under the live Python == while their parameter lists differ in P "
                              "(measured by the driver with the live import_parameters); class = target:scope:kind of the earlier value>kind of the later value")
        for t in TWIN_TARGETS:
            if not met.get(t):
                run.violation(f"C11:coverage:{t}", f"generator coverage target missed: no package with a twin pair of class {t}",
                              dict(kind="coverage", target=t), found_input=False)
    run.stream(sname, len(cases), len(nontrivial), source_rejected=src_err, jobs=len(jobs), **feats,
               rule="non-trivial = the package has a module with at least one instance; distinct by package content; "
                    "source_rejected = jobs whose design the implementation refused to build/export (no package, not a case)")
    if cases:
        big = max(range(len(cases)), key=lambda i: len(json.dumps(cases[i]["p"])))
        run.sample(dict(stream=sname, job=jobs[owner[big]] if len(json.dumps(jobs[owner[big]])) < 1500 else "(large)",
                        modules=[m["name"] for m in cases[big]["p"]["mods"]], tops=cases[big]["tops"]))
    size = lambda i: len(json.dumps(cases[i]["p"]))
    # code 1: one report per difference class (the smallest package of the class)
    by_class = {}
    for i, code in bad:
        if code == 1:
            by_class.setdefault(diff_class(cases[i]), []).append(i)
    for cl, idx in sorted(by_class.items()):
        i = min(idx, key=size)
        r = cases[i]
        what = (f"to_proto(from_proto(P)) differs from P: {cl}" if r["q"] is not None else
                f"round trip raises in {r['stage']}: {r['err']}")
        run.violation(f"C11:{cl}:" + json.dumps(jobs[owner[i]], sort_keys=True)[:600], what + f" ({len(idx)} failing in stream {sname})",
                      dict(kind="impl-violates-spec", job=jobs[owner[i]], tops=r["tops"], p=r["p"], q=r["q"], err=r["err"],
                           eq_msg=r["eq_msg"], eq_bytes=r["eq_bytes"], diff_class=cl, failing=len(idx)))
    others = [i for i, code in bad if code != 1]
    if others:
        i = min(others, key=size)
        found = any(code == 1 for _, code in bad)
        run.violation(f"C11:tie:{sname}:" + json.dumps(jobs[owner[i]], sort_keys=True)[:600],
                      f"model rt_pkg disagrees with the implementation although P' = P ({len(others)} cases in stream {sname})",
                      dict(kind="model-differs", job=jobs[owner[i]], p=cases[i]["p"], q=cases[i]["q"], failing=len(others)),
                      found_input=False if not found else False)


def tables(run, seed, quick):
    out = core.run_worker("c11", dict(jobs=[dict(source="enums")]))["results"][0]
    if out["err"] is not None:
        run.violation("C11:enums:live", f"live enumeration functions raise: {out['err']}", dict(kind="impl-violates-spec", err=out["err"]))
        rows = []
    else:
        rows = out["rows"]
    cs_ = [f"({cs(k)}, {cs(a)}, {cz(az)}, {cs(b)}, {cs(a2)}, {cz(az2)})" for k, a, az, b, a2, az2 in rows]
    bad = core.coq_eval_cases("C11", "enums", IMPORTS, "enum_case", cs_, "run_cases chk_enum", chunk=200)
    run.stream("enums", len(rows), len(rows), rule="every member of Prefix, PortDir and SpiceType through the live export/import functions")
    for i, code in bad[:3]:
        run.violation(f"C11:enum:{json.dumps(rows[i])}", f"enumeration member does not survive export+import or differs from the regenerated table (code {code}): {rows[i]}",
                      dict(kind="impl-violates-spec" if code == 1 else "model-differs", row=rows[i]), found_input=(code == 1))
    r = core.rng(seed, "C11", "names", 0)
    alpha = "ab._"
    names = ["".join(p) for n in range(0, 5) for p in itertools.product(alpha, repeat=n)]
    names += ["".join(r.choice("abcM0_..") for _ in range(r.randint(1, 30))) for _ in range(200 if quick else 3000)]
    rows = core.run_worker("c11", dict(jobs=[dict(source="names", names=names)]))["results"][0]["rows"]
    cs_ = [f"({cs(s)}, {clist(parts, cs)}, {cs(j)})" for s, parts, j in rows]
    bad = core.coq_eval_cases("C11", "names", IMPORTS, "name_case", cs_, "run_cases chk_name", chunk=400)
    run.stream("names", len(rows), len({s for s in names if "." in s}), rule="non-trivial = the name contains a dot; oracle: CPython str.split / str.join")
    for i, code in bad[:1]:
        run.violation(f"C11:name:{rows[i][0]}", f"split_dot/join_dot disagree with CPython on {rows[i][0]!r}", dict(kind="spec-differs", row=rows[i]),
                      found_input=False)



# ------------------------------------------------------------------------------------------ pyeq: Model/C11Share.v:py_eq against the live ==
def pvalue_of(v):
    """the PACKAGE form (pval_json) of a job-level spelling as the exporter writes it for a dict-typed parameter"""
    t = v[0]
    if t == "int":
        return ["int", v[1]]
    if t == "float":
        return ["dbl", v[1]]
    if t in ("str", "lit"):
        return ["lit", v[1]]
    if t == "pre":
        d = Decimal(v[1])
        if d == d.to_integral_value() and -I63 <= int(d) < I63:
            return ["pre", v[2], ["int", int(d)]]
        return ["pre", v[2], ["str", str(d)]]
    raise ValueError(v)


def pyeq_pairs(seed, quick):
    pool = []
    for val in ["0", "1", "2", "-3", "1000", "1.5", "0.1", "0.001", "9007199254740992", "9007199254740993", "1E+22",
                "1.0000000000000000000001", "1.00000000000000000001", "0.00000000000000000000049", "123456789.123456789"]:
        for _, v in spellings(val):
            pv = pvalue_of(v)
            if pv not in pool:
                pool.append(pv)
    pool += [["dbl", float("inf").hex()], ["dbl", 5e-324.hex()], ["dbl", 1e22.hex()], ["dbl", (2.0 ** 53).hex()], ["int", I63 - 1], ["int", -I63],
             ["lit", "x"], ["lit", ""], ["str", "2"], ["pre", "YOTTA", ["int", 1]], ["pre", "YOCTO", ["int", 1]],
             ["pre", "YOCTO", ["str", "0.5"]], ["pre", "UNIT", ["str", "1E+30"]]]
    small = [pv for k, pv in enumerate(pool) if k % 4 == 0] if quick else pool
    pairs = [[a, b] for a in small for b in small]
    r = core.rng(seed, "C11", "pyeq", 0)
    for _ in range(300 if quick else 3000):
        a = r.choice(pool)
        b = r.choice(pool) if r.random() < 0.5 else pvalue_of(r.choice(spellings(r.choice(TWIN_VALUES)))[1])
        pairs.append([a, b])
    return pairs


def pyeq(run, seed, quick):
    pairs = pyeq_pairs(seed, quick)
    out = core.run_worker("c11", dict(jobs=[dict(source="pyeq", pairs=pairs)]))["results"][0]
    if out["err"] is not None:
        run.violation("C11:pyeq:live", f"live import_parameter_value / == failed: {out['err']}", dict(kind="spec-differs", err=out["err"]),
                      found_input=False)
        return
    rows = out["rows"]
    cs_ = [f"({c_val(a)}, {c_val(b)}, {cz(eq)})" for a, b, eq, heq in rows]
    res = core.coq_eval_cases("C11", "pyeq", IMPORTS, "pyeq_case", cs_, "run_cases chk_pyeq", chunk=150)
    bad = [(i, code) for i, code in res if code != 9]
    opened = [i for i, code in res if code == 9]
    decided = len(rows) - len(opened)
    equal_diff = sum(1 for a, b, eq, heq in rows if eq == 1 and a != b)
    run.stream("pyeq", len(rows), equal_diff, decided_by_model=decided, left_open_by_model=len(opened),
               python_equal_but_different_in_package=equal_diff, of_which_hash_equal=sum(1 for a, b, eq, heq in rows if eq == 1 and a != b and heq),
               python_raises=sum(1 for a, b, eq, heq in rows if eq == 2),
               rule="non-trivial = Python says the two imported values are equal although the package values differ; oracle: the live "
                    "import_parameter_value and ==; the model leaves Prefixed against float / str open (str(float), Decimal(text))")
    if decided * 2 < len(rows):
        run.violation("C11:coverage:pyeq-decided", f"py_eq decided only {decided} of {len(rows)} pairs", dict(kind="coverage"), found_input=False)
    for i, code in bad[:1]:
        run.violation(f"C11:pyeq:{json.dumps(rows[i][:2])}", f"Model/C11Share.v:py_eq disagrees with the live Python == on {rows[i]}",
                      dict(kind="spec-differs", row=rows[i]), found_input=False)
