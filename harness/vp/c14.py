"""C14 — prefixed numbers are exact, totally ordered and hash-consistent (DESIGN.md 6.2).

Streams (in this order): corpus (pinned-tree witnesses, log10-band cases), pairs (all ordered pairs of the live
Prefix members x structured mantissas), conversions, float-spec (Coq nearest_double against fractions.Fraction).
Numbers are handled here as exact (sign, coefficient, exponent) triples of Python ints; hdl21 is never imported."""
import json
from fractions import Fraction
from . import core
from .core import cz, cbool

IMPORTS = ("Require Import Hdl21.Base.PyInt Hdl21.Base.Dec Hdl21.Model.Prefixed Hdl21Gen.PrefixTable "
           "Hdl21.Corr.C03 Hdl21.Corr.C14.")

PARTS = ["add", "sub", "mul", "neg/abs", "scale", "scalar-operand", "compare", "hash", "int", "float"]


# ------------------------------------------------------------------------------------------ exact decimals
def dstr(t):
    """(sign, coefficient, exponent) -> the Decimal literal denoting exactly this triple"""
    s, c, e = t
    return f"{'-' if s else ''}{c}E{e:+d}"


def dval(t):
    s, c, e = t
    return (-c if s else c) * Fraction(10) ** e


def of_int(z, e):
    return (1 if z < 0 else 0, abs(z), e)


def dshift(t, k):
    """t * 10^k with the same coefficient"""
    return (t[0], t[1], t[2] + k)


def dadd(t, u):
    e = min(t[2], u[2])
    a = (-t[1] if t[0] else t[1]) * 10 ** (t[2] - e)
    b = (-u[1] if u[0] else u[1]) * 10 ** (u[2] - e)
    return of_int(a + b, e)


def sig_digits(t):
    return len(str(t[1]).rstrip("0")) if t[1] else 0


# ------------------------------------------------------------------------------------------ Coq printers
def cnum(n):
    """non-negative integer literal; hexadecimal when long (Coq parses long decimal literals about 3x slower)"""
    return str(n) if n < 10 ** 9 else hex(n)


def cbig(z):
    return f"(-{cnum(-z)})" if z < 0 else cnum(z)


def c_dec(t):
    return f"(mkDec {cbool(bool(t[0]))} {cnum(t[1])}%N {cz(t[2])})"


def c_pfx(t, p):
    return f"(mkP {c_dec(t)} {cz(p)})"


def c_ires(o):
    if o[0] == "val":
        return f"(IVal {c_dec(o[1])} {cz(o[2])})"
    return "IExc"


def c_fl(o):
    if o[0] == "fin":
        return f"(Some (FFin {cbig(o[1])} {cz(o[2])}))"
    if o[0] == "inf":
        return f"(Some (FInf {cbool(o[1])}))"
    return "None"


def c_case(j, o):
    ta, pa, tb, pb = j[:4]
    cmp_ = "CExc" if (o["cmp"] and o["cmp"][0] == "exc") else "(CVal " + " ".join(cbool(x) for x in o["cmp"]) + ")"
    h = "None" if isinstance(o["hasheq"], list) else f"(Some {cbool(o['hasheq'])})"
    i = "None" if isinstance(o["int"], list) else f"(Some {cbig(o['int'])})"
    fields = [c_pfx(ta, pa), c_pfx(tb, pb)] + [c_ires(o[k]) for k in
              ("add", "sub", "mul", "neg", "abs", "scale", "auto", "pmul", "muls", "adds", "rsubs")] + [cmp_, h, i, c_fl(o["float"])]
    return "(mkCase " + " ".join(fields) + ")"


# ------------------------------------------------------------------------------------------ generators
def rand_mantissa(r, maxdig=25):
    """a decimal with 1..maxdig significant digits, magnitude mostly within 1e-4..1e4"""
    n = r.choice([1, 1, 2, 3, 3, 4, 6, 9, 12, 15, 16, 17, 18, 20, 21, 24, maxdig, r.randint(1, maxdig)])
    c = r.randint(10 ** (n - 1), 10 ** n - 1) if n > 1 else r.randint(1, 9)
    if r.random() < 0.15:       # runs of nines / zeros inside
        c = int("".join(r.choice(["9", "0", "9", str(r.randint(0, 9))]) for _ in range(n)).lstrip("0") or "1")
    e = -r.randint(0, n + 3) + r.choice([0, 0, 0, 1, 2, 3, -1])
    return (r.randint(0, 1), c, e)


def boundary_mantissa(r):
    k = r.randint(-5, 5)
    n = r.randint(1, 24)
    kind = r.randint(0, 5)
    if kind == 0:
        t = (0, 1, k)                                   # 10^k
    elif kind == 1:
        t = (0, 10 ** n - 1, k - n)                     # 0.99..9 * 10^k: just below a power of ten
    elif kind == 2:
        t = (0, 10 ** n + 1, k - n)                     # 1.00..01 * 10^k: just above
    elif kind == 3:
        t = (0, 0, r.choice([0, -3, 5, -30, 12]))       # zeros of several exponents
    elif kind == 4:
        t = (0, r.choice([3162277660168379, 31622776601683793319988, 3162277660168379332, 316227766, 32, 31]), k - r.randint(0, 3))  # around sqrt(10): the closest-prefix boundary
        t = (0, t[1], k - len(str(t[1])) + 1)
    else:
        t = (0, 10 ** n, k - n)                         # trailing zeros: 1.000 * 10^k
    return (r.randint(0, 1), t[1], t[2])


def gen_pair(r, kind, pa, pb, eps):
    """operands (ta, tb) for prefixes pa, pb"""
    s = min(pa, pb)
    ta = boundary_mantissa(r) if kind == "boundary" else rand_mantissa(r)
    if kind in ("random", "boundary"):
        tb = boundary_mantissa(r) if (kind == "boundary" and r.random() < 0.5) else rand_mantissa(r)
        return ta, tb
    if kind == "magnitude":      # values within a few decades of each other although the prefixes differ
        tb = rand_mantissa(r)
        return ta, dshift(tb, pa - pb + r.randint(-2, 2))
    same = dshift(ta, pa - pb)   # the same value written with the other prefix
    if kind == "equal":
        if r.random() < 0.5:     # a different representation of the same number
            z = r.randint(1, 4)
            same = (same[0], same[1] * 10 ** z, same[2] - z)
        return ta, same
    if kind == "tolerance":      # differ by about the tolerance 10^(s - eps)
        num, den = r.choice([(4, 10), (5, 10), (6, 10), (1, 1), (14, 10), (15, 10), (25, 10), (10, 1), (1, 100), (999, 1000), (1001, 1000)])
        delta = of_int(r.choice([-1, 1]) * num, s - eps - pb - len(str(den)) + 1)
        return ta, dadd(same, delta)
    if kind == "grid-tie":       # a's number at the smaller prefix lies exactly half way between two grid points
        g = r.randint(0, 10 ** r.randint(1, 22))
        half = of_int(r.choice([-1, 1]) * (10 * g + 5), -eps - 1)             # number at prefix s
        ta = dshift(half, s - pa)
        tb = dshift(of_int((1 if half[0] == 0 else -1) * (g + r.choice([0, 1])), -eps), s - pb)
        return ta, tb
    raise ValueError(kind)


QUICK_KINDS = ["random", "random", "equal", "equal", "tolerance", "tolerance", "tolerance", "grid-tie",
               "magnitude", "magnitude", "boundary", "boundary"]


def corpus():
    """pinned-tree witnesses (DESIGN 7, #17-#21) and cases built for the corners of the model"""
    D = lambda s, c, e: (s, c, e)
    sq = 3162277660168379331998893544432718533719555139325            # sqrt(10) * 10^48, truncated
    return [
        [D(0, 1, 0), 0, D(0, 1, 0), -9],                      # 1*UNIT > 1*n : InvalidOperation
        [D(0, 1500, 0), -3, D(0, 1, 0), 0],                   # int(1500*m): TypeError
        [D(0, 1000, 0), -3, D(0, 1, 0), 0],                   # 1000*m == 1*UNIT, hashes differed
        [D(0, 15, -1), 3, D(0, 1, 0), 0],                     # int(1.5*K) was 1000
        [D(0, 1, 0), 24, D(0, 1, 0), -24],                    # 1*Y + 1*y rounded to 28 digits
        [D(0, 1234567890123456789012345678901, 0), 0, D(0, 3, 0), 0],   # 31 digits x 3
        [D(0, 3, 0), -24, D(0, 1, 0), 0],                     # float(3*y) double rounding
        [D(0, 1, 0), 3, D(0, 1000000000000000000004, -18), 0],  # 1*K vs 1000.000000000000000004: 4e-18 apart, tolerance 1e-20
        [D(0, 1, 0), 24, D(0, 1, 0), 24],                     # Y*Y: exponent beyond the table
        [D(0, 1, 0), -24, D(0, 1, 0), -24],
        [D(0, 0, 0), 3, D(0, 1, 0), -3],                      # zero: log10 = -Infinity
        [D(1, 0, 5), 3, D(0, 0, -7), -3],
        [D(0, sq, -48), 0, D(0, 1, 0), 0],                    # value just below sqrt(10): log10 rounds to 0.5 exactly
        [D(0, sq + 1, -48), 0, D(0, 1, 0), 0],                # just above: exact choice DECA, 28-digit log10 says tie -> UNIT
        [D(0, sq + 1, -48), 3, D(0, 1, 0), 3],
        [D(0, 5, -21), 0, D(0, 0, 0), 0],                     # tie on the grid: 0.000000000000000000005 -> rounds to even (0)
        [D(0, 15, -21), 0, D(0, 2, -20), 0],
        [D(0, 25, -21), 0, D(0, 2, -20), 0],
        [D(1, 7, 0), -2, D(0, 7, 0), -1],
    ]


def nontrivial(j):
    ta, pa, tb, pb = j
    return pa != pb or (sig_digits(ta) >= 2 and sig_digits(tb) >= 2)


def size(j):
    ta, pa, tb, pb = j[:4]
    return (len(str(ta[1])) + len(str(tb[1])) + abs(ta[2]) + abs(tb[2]), abs(pa) + abs(pb), json.dumps(j))


def reproducer(j, part):
    ta, pa, tb, pb = j[:4]
    expr = {"add": "a + b", "sub": "a - b", "mul": "a * b", "neg/abs": "-a, abs(a)", "scale": "a.scale(b.prefix), a.scale(), a * b.prefix",
            "scalar-operand": "a * b.number, a + b.number, b.number - a", "compare": "a < b, a <= b, a == b, a != b, a > b, a >= b",
            "hash": "a == b, hash(a) == hash(b)", "int": "int(a)", "float": "float(a).hex()"}[part]
    hist = "" if len(j) < 5 or j[4] is None else (f" [operand a is reached through the history {j[4][0]} from {dstr(j[4][1])}*10^{j[4][2]}: "
                                                    f"harness/impl/c14.py:mk_hist]")
    return (f"from decimal import Decimal as D; from hdl21.prefix import Prefix, Prefixed; "
            f"a = Prefixed(number=D('{dstr(ta)}'), prefix=Prefix({pa})); b = Prefixed(number=D('{dstr(tb)}'), prefix=Prefix({pb})); print({expr})" + hist)


def float_oracle(t, p):
    """nearest double of the exact value by CPython's correctly rounded int / int"""
    v = dval(t) * Fraction(10) ** p
    try:
        x = v.numerator / v.denominator
    except OverflowError:
        return ["inf", v < 0]
    n, d = x.as_integer_ratio()
    return ["fin", n, -(d.bit_length() - 1)]


def run_pairs(run, name, jobs, chunk=300):
    """run the implementation and the Coq evaluators on pair jobs; returns (outs, bad list of (index, code), diag dict)"""
    wire = [[dstr(j[0]), j[1], dstr(j[2]), j[3]] + ([[j[4][0], dstr(j[4][1]), j[4][2]]] if len(j) > 4 and j[4] is not None else [])
            for j in jobs]
    outs = core.run_worker_sharded("c14", wire, common=dict(kind="pair"))
    cases = [c_case(j, o) for j, o in zip(jobs, outs)]
    bad = core.coq_eval_cases("C14", name, IMPORTS, "pair_case", cases, "run_cases chk_pair", chunk=chunk)
    diag = {}
    v1 = [i for i, c in bad if c == 1]
    if v1:
        sub = [cases[i] for i in v1]
        d = core.coq_eval_cases("C14", name + "_diag", IMPORTS, "pair_case", sub, "run_cases diag_pair", chunk=chunk)
        diag = {v1[k]: mask for k, mask in d}
    for i, (j, o) in enumerate(zip(jobs, outs)):
        if not o.get("intact", False):
            bad.append((i, 1))
            diag[i] = diag.get(i, 0) | (1 << 10)
    return outs, bad, diag


def report(run, stream, jobs, outs, bad, diag):
    v1 = [i for i, c in bad if c == 1]
    v2 = [i for i, c in bad if c == 2]
    for b, part in enumerate(PARTS + ["operands-mutated"]):
        # corpus: the first listed witness (corpus() is ordered by the documented pinned-tree witnesses, so the key
        # of a known defect is stable); generated streams: the smallest failing case
        hit = sorted([i for i in v1 if diag.get(i, 0) & (1 << b)],
                     key=(lambda i: i) if stream == "corpus" else (lambda i: size(jobs[i])))
        if hit:
            i = hit[0]
            j = jobs[i]
            show = [dstr(j[0]), j[1], dstr(j[2]), j[3]] + ([[j[4][0], dstr(j[4][1]), j[4][2]]] if len(j) > 4 and j[4] is not None else [])
            run.violation(f"C14:{part}:{json.dumps(show)}",
                          f"{part}: implementation violates the property on a={show[0]}*10^{show[1]}, b={show[2]}*10^{show[3]}: "
                          f"{json.dumps({k: v for k, v in outs[i].items() if k != 'intact'})[:400]}",
                          dict(kind="impl-violates-spec", stream=stream, part=part, case=j, impl=outs[i],
                               reproducer=reproducer(j, part if part in PARTS else "add"), failing_cases=len(hit)))
    if v2 and not v1:
        i = sorted(v2, key=lambda i: size(jobs[i]))[0]
        j = jobs[i]
        run.violation(f"C14:{stream}:tie", f"model and implementation differ on {json.dumps([dstr(j[0]), j[1], dstr(j[2]), j[3]])} (property holds on every explored input)",
                      dict(kind="correspondence-broken", stream=stream, case=j, impl=outs[i], reproducer=reproducer(j, "add"),
                           disagreeing_cases=len(v2), theorem="C14 correspondence stream " + stream), found_input=False)


def run(run, tier, seed, replay=None):
    quick = tier == "quick"
    meta = core.run_worker("c14", dict(kind="meta", jobs=[None]))["results"][0]
    prefixes = [v for _, v in meta["prefixes"]]
    eps = meta["epsilon"]

    if replay is not None and replay.get("case"):
        j = [tuple(replay["case"][0]), replay["case"][1], tuple(replay["case"][2]), replay["case"][3]]
        if len(replay["case"]) > 4 and replay["case"][4] is not None:
            hh = replay["case"][4]
            j.append([hh[0], tuple(hh[1]), hh[2]])
        outs, bad, diag = run_pairs(run, "replay", [j])
        run.stream("replay", 1, 1, rule="the replayed case")
        report(run, "replay", [j], outs, bad, diag)
        run.sample(dict(stream="replay", case=j, impl=outs[0]))
        return

    # ------------------------------------------------------------------ stream corpus
    cj = corpus()
    outs, bad, diag = run_pairs(run, "corpus", cj)
    run.stream("corpus", len(cj), len({json.dumps(j) for j in cj if nontrivial(j)}),
               rule="non-trivial = different prefixes or both numbers with >= 2 significant digits; distinct by operands")
    report(run, "corpus", cj, outs, bad, diag)
    run.sample(dict(stream="corpus", case=[dstr(cj[4][0]), cj[4][1], dstr(cj[4][2]), cj[4][3]], impl=outs[4]))
    all_jobs = list(cj)

    # ------------------------------------------------------------------ stream pairs: every ordered pair of prefixes
    per = len(QUICK_KINDS) if quick else 400
    jobs = []
    kinds_count = {}
    for ia, pa in enumerate(prefixes):
        for ib, pb in enumerate(prefixes):
            r = core.rng(seed, "C14", "pairs", ia * 100 + ib)
            for k in range(per):
                kind = QUICK_KINDS[k % len(QUICK_KINDS)] if k < 2 * len(QUICK_KINDS) else r.choice(QUICK_KINDS)
                ta, tb = gen_pair(r, kind, pa, pb, eps)
                jobs.append([ta, pa, tb, pb])
                kinds_count[kind] = kinds_count.get(kind, 0) + 1
    outs, bad, diag = run_pairs(run, "pairs", jobs)
    eqv = sum(1 for j in jobs if dval(j[0]) * Fraction(10) ** j[1] == dval(j[2]) * Fraction(10) ** j[3])
    far = sum(1 for j in jobs if abs(j[1] - j[3]) > 8)
    run.stream("pairs", len(jobs), len({json.dumps(j) for j in jobs if nontrivial(j)}),
               ordered_prefix_pairs=len(prefixes) ** 2, per_pair=per, kinds=kinds_count, equal_valued_pairs=eqv,
               prefixes_more_than_8_decades_apart=far,
               max_significant_digits=max(max(sig_digits(j[0]), sig_digits(j[2])) for j in jobs),
               compare_raised=sum(1 for o in outs if o["cmp"] and o["cmp"][0] == "exc"),
               operator_raised=sum(1 for o in outs for k in ("add", "sub", "mul", "scale", "auto") if o[k][0] == "exc"),
               rule="non-trivial = different prefixes or both numbers with >= 2 significant digits; distinct by operands")
    report(run, "pairs", jobs, outs, bad, diag)
    run.sample(dict(stream="pairs", case=[dstr(jobs[7][0]), jobs[7][1], dstr(jobs[7][2]), jobs[7][3]], impl=outs[7]))
    all_jobs += jobs

    # ------------------------------------------------------------------ stream histories: operand a is an object with a past
    # (built as another value, hashed / compared / used as a dict key, then re-assigned or copied with an update).  What it
    # denotes is its CURRENT value: every clause of the property (==, hash, order, arithmetic) is evaluated as for a fresh number.
    HK = ["assign", "assign-prefix-first", "copy-update", "copy-then-assign", "deepcopy-update"]
    rh = core.rng(seed, "C14", "histories")
    hjobs = []
    for k in range(240 if quick else 4000):
        pa, pb, p0 = rh.choice(prefixes), rh.choice(prefixes), rh.choice(prefixes)
        kind = ["equal", "equal", "equal", "tolerance", "random", "magnitude"][k % 6]
        ta, tb = gen_pair(rh, kind, pa, pb, eps)
        hjobs.append([ta, pa, tb, pb, [HK[k % len(HK)], rand_mantissa(rh), p0]])
    outs, bad, diag = run_pairs(run, "histories", hjobs)
    run.stream("histories", len(hjobs), len({json.dumps(j) for j in hjobs}),
               kinds={h: sum(1 for j in hjobs if j[4][0] == h) for h in HK},
               equal_valued_pairs=sum(1 for j in hjobs if dval(j[0]) * Fraction(10) ** j[1] == dval(j[2]) * Fraction(10) ** j[3]),
               rule="operand a is reached by re-assigning fields of / copying-with-update an object that was hashed before; all count")
    report(run, "histories", hjobs, outs, bad, diag)
    run.sample(dict(stream="histories", case=[dstr(hjobs[0][0]), hjobs[0][1], dstr(hjobs[0][2]), hjobs[0][3], hjobs[0][4][0]], impl=outs[0]))

    # ------------------------------------------------------------------ stream conversions
    r = core.rng(seed, "C14", "conv")
    cjobs, want = [], []
    nconv = 400 if quick else 4000
    for k in range(nconv):
        p = r.choice(prefixes)
        typ = r.choice(["dec", "str", "int", "float"])
        how = r.choice(["to_prefixed", "rmul", "mul", "ctor", "new"])
        t = rand_mantissa(r)
        if typ == "int":
            text = str(r.choice([0, 1, -1, r.randint(-10 ** 6, 10 ** 6), r.randint(-10 ** 30, 10 ** 30)]))
            exact = of_int(int(text), 0)
        elif typ == "float":
            x = r.choice([0.1, 11.11, 1e-9, 2.5e22, 1 / 3, r.random(), r.uniform(-1e6, 1e6), r.random() * 10 ** r.randint(-20, 20)])
            text = repr(x)
            from decimal import Decimal
            tt = Decimal(repr(x)).as_tuple()       # the documented conversion: through str(float)
            exact = (tt.sign, int("".join(map(str, tt.digits))), tt.exponent)
        else:
            text = dstr(t) if r.random() < 0.5 else format_plain(t)
            exact = t
        cjobs.append([how, typ, text, p])
        want.append((exact, 0 if how == "to_prefixed" else p))
    couts = core.run_worker_sharded("c14", cjobs, common=dict(kind="conv"))
    cases = [f"({c_dec(w[0])}, {cz(w[1])}, {c_ires(o)})" for w, o in zip(want, couts)]
    cbad = core.coq_eval_cases("C14", "conv", IMPORTS, "conv_case", cases, "run_cases chk_conv", chunk=800)
    run.stream("conversions", len(cases), len({json.dumps(j) for j in cjobs}),
               by_type={t: sum(1 for j in cjobs if j[1] == t) for t in ("dec", "str", "int", "float")},
               rule="distinct by (entry point, argument type, argument text, prefix); every case converts a non-Prefixed value")
    c1 = sorted([i for i, c in cbad if c == 1], key=lambda i: len(cjobs[i][2]))
    c2 = [i for i, c in cbad if c == 2]
    if c1:
        i = c1[0]
        run.violation(f"C14:conversion:{json.dumps(cjobs[i])}", f"conversion {cjobs[i]} does not denote the argument's decimal value: {couts[i]}",
                      dict(kind="impl-violates-spec", stream="conversions", case=cjobs[i], impl=couts[i], failing_cases=len(c1),
                           reproducer=f"how={cjobs[i][0]} type={cjobs[i][1]} text={cjobs[i][2]} prefix={cjobs[i][3]} (see harness/impl/c14.py do_conv)"))
    elif c2:
        i = c2[0]
        run.violation("C14:conversions:tie", f"model and implementation differ on conversion {cjobs[i]}",
                      dict(kind="correspondence-broken", stream="conversions", case=cjobs[i], impl=couts[i]), found_input=False)
    run.sample(dict(stream="conversions", case=cjobs[0], impl=couts[0]))

    # ------------------------------------------------------------------ stream float-spec: Coq nearest_double vs CPython Fraction
    seen, fcases = set(), []
    for j in all_jobs:
        key = (j[0], j[1])
        if key not in seen:
            seen.add(key)
            fcases.append((dshift(j[0], j[1]), float_oracle(j[0], j[1])))
    rr = core.rng(seed, "C14", "floatspec")
    for k in range(300 if quick else 5000):     # wide exponents: subnormals, overflow
        t = rand_mantissa(rr)
        e = rr.choice([-330, -325, -323, -310, -308, -300, -100, 100, 290, 300, 308, 309, 310]) + rr.randint(-3, 3)
        fcases.append((dshift(t, e), float_oracle(t, e)))
    cases = [f"({c_dec(t)}, {c_fl(o)[6:-1]})" for t, o in fcases]
    fbad = core.coq_eval_cases("C14", "floatspec", IMPORTS, "dec * fl", cases, "run_cases chk_float_spec", chunk=800)
    run.stream("float-spec-vs-cpython", len(cases), len({json.dumps(t) for t, _ in fcases if t[1]}),
               infinities=sum(1 for _, o in fcases if o[0] == "inf"),
               subnormal=sum(1 for _, o in fcases if o[0] == "fin" and o[2] == -1074),
               rule="non-trivial = non-zero value; distinct by value triple; oracle: numerator / denominator of fractions.Fraction")
    for i, code in fbad[:1]:
        run.violation("C14:spec-validation", f"nearest_double disagrees with CPython on {dstr(fcases[i][0])}: {fcases[i][1]}",
                      dict(kind="spec-validation", stream="float-spec", case=fcases[i][0], cpython=fcases[i][1]), found_input=False)
    run.coverage["traces_validated_against_impl"] = len(all_jobs) + len(cjobs)

    # ------------------------------------------------------------------ C14X extension streams (harness/vp/c14x.py)
    from . import c14x
    c14x.run_tie(run, tier, seed, prefixes, eps, replay)


def format_plain(t):
    """positional notation of the same triple when it has one (exponent <= 0), else scientific"""
    s, c, e = t
    if e > 0:
        return dstr(t)
    digs = str(c).rjust(-e + 1, "0")
    body = digs[:len(digs) + e] + ("." + digs[len(digs) + e:] if e < 0 else "")
    return ("-" if s else "") + body
