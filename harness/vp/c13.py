"""C13 — parameter values reach the package unchanged (DESIGN.md 6.11).

Streams, in this order:
  corpus        pinned-tree witnesses and hand-picked corner values, through every entry point below
  scalar        hdl21.scalar.to_scalar on the value pool
  value         hdl21.proto.exporting.export_param_value on the value pool
  inst          every primitive of the live registry x every field x pool values, ExternalModules with dict and
                paramclass parameters, end to end through h.to_proto; observable Instance.parameters (+ module reference)
  malformed     objects no ParamValue can hold, non-string enums, ints beyond 64 bits, non-finite floats, missing required
  overlap       (strengthening round) objects that pass SEVERAL isinstance tests of export_param_value / to_scalar, or are
                subclass instances whose str() / repr() / format() differ from their content: members of (str, Enum) classes,
                StrEnum, IntEnum, IntFlag, float- and Decimal-mixin enums, bools, str / int / float / Decimal / Literal /
                Prefixed subclasses, a str that is also a Literal.  Through to_scalar, export_param_value, ExternalModule dict
                and paramclass parameters (Scalar, Optional[str], own-Enum-typed and Any-typed fields) and every Scalar /
                Optional[str] field of every primitive.  Cases are printed as `pyobj` (facets), evaluated by chk_*_obj; the
                facets the harness declares are compared with the live object's (probe), coverage targets fail closed.
  numeric-spec / str-spec   the Coq numeric-string reader and str(Decimal) against CPython's decimal module (oracle)
Values are handled here as exact data (ints, (sign, coefficient, exponent) triples, code-point lists); hdl21 is never imported."""
import json, struct, re
from decimal import Decimal, InvalidOperation
from . import core
from .core import cz, cbool

IMPORTS = ("From Coq Require Import String Ascii.\n"
           "Require Import Hdl21.Base.PyInt Hdl21.Base.Dec Hdl21.Model.Prefixed Hdl21.Model.C13Params Hdl21.Spec.C13Spec "
           "Hdl21.Model.C13Dispatch Hdl21.Spec.C13Overlap Hdl21.Corr.C03 Hdl21.Corr.C13.\nOpen Scope list_scope.")


# ------------------------------------------------------------------------------------------ exact data
def cp(s):
    return [ord(c) for c in s]


def uncp(l):
    return "".join(chr(c) for c in l)


def dstr(t):
    s, c, e = t
    return f"{'-' if s else ''}{c}E{e:+d}"


def triple(d):
    t = d.as_tuple()
    c = 0
    for x in t.digits:
        c = c * 10 + x
    return (t.sign, c, t.exponent)


def fbits(x):
    return struct.unpack("<Q", struct.pack("<d", x))[0]


# values: ("none",) ("int", z) ("flt", float) ("str", cps) ("lit", cps) ("pre", triple, q) ("dec", triple)
#         ("enum", cls, member) ("other", tag)
SIG = dict(strenum="s", StrEnum="s", strenum_v="s", strenum_t="s", sxe="n", intenum="i", intflag="i", fltenum="f", decenum="d",
           bool="i", strsub="s", intsub="i", fltsub="f", decsub="d", litsub="s", presub="dq", strlit="ss")


def obj_map(v, fs, fi, ff, fd):
    """an ("obj", shape, content...) value with each content item converted according to the shape's signature"""
    out = []
    for t, c in zip(SIG[v[1]], v[2:]):
        out.append(dict(s=fs, i=fi, f=ff, d=fd, n=lambda x: x, q=lambda x: x)[t](c))
    return out


def wire(v):
    k = v[0]
    if k == "obj":
        return ["obj", v[1]] + obj_map(v, list, str, lambda x: x.hex(), dstr)
    if k == "int":
        return ["int", str(v[1])]
    if k == "flt":
        return ["flt", v[1].hex()]
    if k == "pre":
        return ["pre", dstr(v[1]), v[2]]
    if k == "dec":
        return ["dec", dstr(v[1])]
    return list(v)


def jv(v):
    """JSON-able, canonical form of a value (keys, replays)"""
    k = v[0]
    if k == "obj":
        return ["obj", v[1]] + obj_map(v, lambda l: uncp(l) if all(32 <= c < 127 for c in l) else list(l), str, lambda x: x.hex(), dstr)
    if k == "flt":
        return ["flt", v[1].hex()]
    if k in ("pre", "dec"):
        return [k, dstr(v[1])] + list(v[2:])
    if k in ("str", "lit"):
        return [k, uncp(v[1])] if all(32 <= c < 127 for c in v[1]) else [k, list(v[1])]
    return list(v)


def unjv(j):
    k = j[0]
    if k == "obj":
        return ("obj", j[1]) + tuple(obj_map(j, lambda x: cp(x) if isinstance(x, str) else list(x), int, float.fromhex, lambda x: triple(Decimal(x))))
    if k == "flt":
        return ("flt", float.fromhex(j[1]))
    if k in ("pre", "dec"):
        return (k, triple(Decimal(j[1]))) + tuple(j[2:])
    if k in ("str", "lit"):
        return (k, cp(j[1]) if isinstance(j[1], str) else list(j[1]))
    if k == "int":
        return ("int", int(j[1]))
    return tuple(j)


# ------------------------------------------------------------------------------------------ Coq printers
def cnum(n):
    return str(n) if n < 10 ** 9 else hex(n)


def cbig(z):
    return f"(-{cnum(-z)})" if z < 0 else cnum(z)


def c_str(l):
    return "[" + "; ".join(str(c) for c in l) + "]"


def c_dec(t):
    return f"(mkDec {cbool(bool(t[0]))} {cnum(t[1])}%N {cz(t[2])})"


def c_value(v, enums):
    k = v[0]
    if k == "none":
        return "VNone"
    if k == "int":
        return f"(VInt {cbig(v[1])})"
    if k == "flt":
        return f"(VFloat {fbits(v[1])} {c_str(cp(repr(v[1])))})"
    if k == "str":
        return f"(VStr {c_str(v[1])})"
    if k == "lit":
        return f"(VLit {c_str(v[1])})"
    if k == "pre":
        return f"(VPrefixed (mkP {c_dec(v[1])} {cz(v[2])}))"
    if k == "dec":
        return f"(VDecimal {c_dec(v[1])})"
    if k == "enum":
        val = dict((m, x) for m, x in enums[v[1]])[v[2]]
        return "(VEnum None)" if val is None else f"(VEnum (Some {c_str(val)}))"
    if k == "other":
        return "VOther"
    raise ValueError(k)


# ---- facets (strengthening round): what the isinstance tests of the parameter path see of a value
def no_facets():
    return dict(none=False, str=None, enum=None, lit=None, pre=None, dec=None, int=None, flt=None)


def facets(v, enums, sxe):
    F = no_facets()
    k = v[0]
    if k == "none":
        F["none"] = True
    elif k == "int":
        F["int"] = (v[1], False)
    elif k == "flt":
        F["flt"] = v[1]
    elif k == "str":
        F["str"] = list(v[1])
    elif k == "lit":
        F["lit"] = list(v[1])
    elif k == "pre":
        F["pre"] = (tuple(v[1]), v[2])
    elif k == "dec":
        F["dec"] = tuple(v[1])
    elif k == "enum":
        val = dict((m, x) for m, x in enums[v[1]])[v[2]]
        F["enum"] = ("none",) if val is None else ("some", list(val))
    elif k == "obj":
        sh, c = v[1], v[2:]
        if sh in ("strenum", "StrEnum"):
            F.update(str=list(c[0]), enum=("some", list(c[0])))
        elif sh == "strenum_v":
            F.update(str=list(c[0]), enum=("some", cp("v:") + list(c[0])))
        elif sh == "strenum_t":
            F.update(str=list(c[0]), enum=("none",))
        elif sh == "sxe":
            val = dict((m, x) for m, x in sxe)[c[0]]
            F.update(str=list(val), enum=("some", list(val)))
        elif sh in ("intenum", "intflag"):
            F.update(int=(c[0], False), enum=("none",))
        elif sh == "fltenum":
            F.update(flt=c[0], enum=("none",))
        elif sh == "decenum":
            F.update(dec=tuple(c[0]), enum=("none",))
        elif sh == "bool":
            F.update(int=(c[0], True))
        elif sh == "strsub":
            F.update(str=list(c[0]))
        elif sh == "intsub":
            F.update(int=(c[0], False))
        elif sh == "fltsub":
            F.update(flt=c[0])
        elif sh == "decsub":
            F.update(dec=tuple(c[0]))
        elif sh == "litsub":
            F.update(lit=list(c[0]))
        elif sh == "presub":
            F.update(pre=(tuple(c[0]), c[1]))
        elif sh == "strlit":
            F.update(str=list(c[0]), lit=list(c[1]))
        else:
            raise ValueError(sh)
    elif k != "other":
        raise ValueError(k)
    return F


def facets_probe_form(F):
    """the facets in the JSON form harness/impl/c13.py probe() reports them"""
    t3 = lambda t: [int(t[0]), str(t[1]), t[2]]
    return dict(none=F["none"], str=F["str"], enum=(None if F["enum"] is None else list(F["enum"])), lit=F["lit"],
                pre=(None if F["pre"] is None else [t3(F["pre"][0]), F["pre"][1]]), dec=(None if F["dec"] is None else t3(F["dec"])),
                int=(None if F["int"] is None else [str(F["int"][0]), F["int"][1]]), flt=(None if F["flt"] is None else str(fbits(F["flt"]))))


def c_opt(x, pr):
    return "None" if x is None else f"(Some {pr(x)})"


def c_obj(F):
    en = "None" if F["enum"] is None else ("(Some None)" if F["enum"][0] == "none" else f"(Some (Some {c_str(F['enum'][1])}))")
    return ("(mkObj " + cbool(F["none"]) + " " + c_opt(F["str"], c_str) + " " + en + " " + c_opt(F["lit"], c_str) + " "
            + c_opt(F["pre"], lambda p: f"(mkP {c_dec(p[0])} {cz(p[1])})") + " " + c_opt(F["dec"], c_dec) + " "
            + c_opt(F["int"], lambda zb: f"({cbig(zb[0])}, {cbool(zb[1])})") + " "
            + c_opt(F["flt"], lambda x: f"({fbits(x)}, {c_str(cp(repr(float(x))))})") + ")")


def c_pvalue(p):
    k = p[0]
    if k == "lit":
        return f"(PVLiteral {c_str(p[1])})"
    if k == "int":
        return f"(PVInt64 {cbig(int(p[1]))})"
    if k == "dbl":
        return f"(PVDouble {p[1]})"
    if k == "strv":
        return f"(PVString {c_str(p[1])})"
    if k == "pre":
        if p[1] == "int":
            n = f"(NInt64 {cbig(int(p[2]))})"
        elif p[1] == "str":
            n = f"(NString {c_str(p[2])})"
        elif p[1] == "dbl":
            n = f"(NDouble {p[2]})"
        else:
            n = "(NDouble (-1))"
        return f"(PVPrefixed {n} {core.cstr(p[3])})"
    return "(PVString [0])"          # an unset ParamValue: equal to nothing the model or the spec expects


def c_sres(o):
    if o[0] == "pre":
        return f"(SPre {c_dec((o[1][0], int(o[1][1]), o[1][2]))} {cz(o[2])})"
    if o[0] == "lit":
        return f"(SLit {c_str(o[1])})"
    return "SExc"


def c_vres(o):
    if o[0] == "omit":
        return "VOmit"
    if o[0] == "val":
        return f"(VVal {c_pvalue(o[1])})"
    return "VExc"


def c_call(job, enums, sxe=None):
    """sxe given: the call is printed as an `ocall` (every value as a pyobj)"""
    t = job["tgt"]
    if t[0] == "prim":
        tgt = f"(TPrim {core.cstr(t[1])})"
    else:
        dom = "None" if t[2] is None else f"(Some {c_str(t[2])})"
        tgt = f"(TExt {cbool(t[1] == 'dict')} {dom} {c_str(t[3])})"
    if sxe is not None:
        ps = "; ".join(f"({c_str(k)}, {kind}, {c_obj(facets(v, enums, sxe))})" for k, kind, v in job["all"])
        return f"(mkOCall {tgt} [{ps}])"
    ps = "; ".join(f"({c_str(k)}, {kind}, {c_value(v, enums)})" for k, kind, v in job["all"])
    return f"(mkCall {tgt} [{ps}])"


def c_ires(o):
    if not o.get("ok"):
        return "IRej"
    ps = "; ".join(f"({c_str(k)}, {c_pvalue(v)})" for k, v in o["params"])
    return f"(IAcc {c_str(o['ref'][0])} {c_str(o['ref'][1])} [{ps}])"


# ------------------------------------------------------------------------------------------ value pool
I63 = 2 ** 63
BIGEXP = re.compile(r"[eE][+-]?\d{4,}")


def gen_triple(r, maxdig=60, maxexp=40):
    n = r.choice([1, 1, 2, 3, 5, 8, 12, 16, 17, 18, 19, 20, 21, 28, 29, 30, 40, maxdig, r.randint(1, maxdig)])
    c = r.randint(10 ** (n - 1), 10 ** n - 1) if n > 1 else r.randint(0, 9)
    how = r.random()
    if how < 0.15:
        z = r.randint(1, min(n, 6))
        c = c - c % 10 ** z                              # trailing zeros
    elif how < 0.25:
        c = int("".join(r.choice("09") for _ in range(n)).lstrip("0") or "0")
    e = r.choice([0, 0, -1, -2, -3, 1, 3, -n, -n + 1, -n - 1, -n - 5, -n - 6, -n - 7, r.randint(-maxexp, maxexp), r.randint(-maxexp, maxexp)])
    return (r.randint(0, 1), c, max(-maxexp, min(maxexp, e)))


def boundary_triples():
    out = []
    for z in (I63 - 1, I63, I63 + 1, -I63, -I63 - 1, -I63 + 1, 2 ** 64, 10 ** 18, 10 ** 19, 10 ** 30, 0, 1, -1):
        out.append((1 if z < 0 else 0, abs(z), 0))
    out += [(0, 1, 30), (0, 1, 18), (0, 1, 19), (0, 9223372036854775807, 0), (0, 92233720368547758070, -1), (0, 92233720368547758080, -1),
            (0, 9223372036854775808000, -3), (1, 9223372036854775808000, -3), (1, 9223372036854775809000, -3),
            (0, 922337203685477581, 1), (0, 922337203685477580, 1), (0, 15, -1), (0, 150, -2), (0, 1500, -2), (0, 0, -5), (1, 0, 0), (0, 0, 7),
            (0, 1, -7), (0, 1, -6), (0, 123, -8), (0, 123, -9), (0, 1, 1), (0, 5, -324), (0, 10 ** 59 + 7, -40), (1, 10 ** 60 - 1, 40),
            (0, 10 ** 59, -59), (0, 12345678901234567890123456789, -10), (0, 1, 40), (0, 1, -40)]
    return out


def gen_int(r):
    return r.choice([0, 1, -1, 7, 2 ** 31, -2 ** 31, I63 - 1, -I63, I63, -I63 - 1, 2 ** 64, 10 ** 30, -10 ** 30,
                     r.randint(-10 ** 6, 10 ** 6), r.randint(-2 ** 70, 2 ** 70), r.randint(-I63, I63 - 1), r.randint(-10 ** 18, 10 ** 18)])


FLOATS = [0.0, -0.0, 0.1, 1e-7, 5e-324, 1e22, 1e23, 1.7976931348623157e308, 2.2250738585072014e-308, 1 / 3, 2 / 3, 11.11, 1e-9,
          2.5e22, 1e16, 123456789012345680.0, 9007199254740993.0, 1.0, -1.5, 1e21, 1e-5, 0.0001, 1e100, 4.35, 0.3, 2.675]


def gen_float(r):
    k = r.random()
    if k < 0.3:
        return r.choice(FLOATS)
    if k < 0.5:
        return r.uniform(-1e6, 1e6)
    if k < 0.8:
        return r.random() * 10.0 ** r.randint(-30, 30) * r.choice([1, -1])
    return struct.unpack("<d", struct.pack("<Q", r.getrandbits(64) & ~(0x7FF << 52) | (r.randint(0, 2046) << 52)))[0]


WS = [9, 10, 11, 12, 13, 28, 32, 32, 32, 133, 160, 5760, 8195, 8232, 8239, 12288]
ZEROS = [48, 48, 48, 48, 1632, 2406, 65296, 120782, 3664]
TEXTS = ["", " ", "_", ".", "+", "-", "e", "e3", "1e", "1e+", "1e+-3", "1..2", "1.2.3", "0x10", "1,0", "1 000", "nan", "NaN", "inf", "-inf",
         "Infinity", "-Infinity", "sNaN", "snan12", "nan123", "-nan", "+inf", "infinit", "x", "w/5", "11*l", "a b=c", "1u", "1k", "5n", "1e3x",
         "--1", "+-1", "1-", "1e5e5", "1e5.5", "1.e", ".e3", "e.5", "1_000", "_1", "1_", "1__0", "1e1_0", "_", "__", "+_1", "1._5", "._5",
         "1e_", "é", "\U0001F600", "\x00", "1\x00", "\x001", "1\n2", "１２", "١٢٣", "1．5", "＋1", "１e３",
         "True", "None", "0b1", "1L", "1f", "1d0", "1D3", "1E", "E", " . ", "0", "00", "-0", "+0.0", "0e0", "0E-10", "000.000", "-.0", "1e400",
         "1e-400", "0.1", ".5", "5.", "+5.e-3", "-.5E+3", "1E3", "1e03", "1e+03", "1e-03", "007", "9223372036854775808", "1" + "0" * 30,
         "3.14159265358979323846264338327950288419716939937510", " 1", "1 ", "\t1\n", " 1 2 ", " 1", "1 ", "　1　", "1\x1c"]


def gen_numeric_text(r, maxexp=60):
    """a string built from the numeric-string grammar, decorated with what Decimal() tolerates; sometimes broken"""
    zero = r.choice(ZEROS)
    dig = lambda n: [zero + r.randint(0, 9) for _ in range(n)]
    ip = dig(r.choice([0, 1, 1, 2, 3, 8, 20, r.randint(0, 40)]))
    fp = dig(r.choice([0, 0, 1, 2, 5, 12, r.randint(0, 30)]))
    s = []
    sg = r.choice(["", "", "+", "-"])
    s += cp(sg)
    s += ip
    if fp or r.random() < 0.2:
        s += [46] + fp
    if r.random() < 0.5:
        s += [r.choice([101, 69])] + cp(r.choice(["", "+", "-"])) + cp(str(r.randint(0, maxexp))) if r.random() < 0.9 else [101]
    if r.random() < 0.2 and s:
        for _ in range(r.randint(1, 2)):
            s.insert(r.randint(0, len(s)), 95)
    if r.random() < 0.3:
        s = [r.choice(WS) for _ in range(r.randint(0, 2))] + s + [r.choice(WS) for _ in range(r.randint(0, 2))]
    k = r.random()
    if k < 0.08 and s:
        s.insert(r.randint(0, len(s)), r.choice([32, 43, 45, 46, 101, 120, 0, 8203, 65294, 44]))
    elif k < 0.12 and s:
        del s[r.randint(0, len(s) - 1)]
    return s


def gen_text(r):
    """texts whose numeric reading (if any) stays within 10^+-500: the property quantifies over exponents of a few tens;
    the implementation itself needs seconds for int(Decimal('1e1555267'))"""
    while True:
        s = gen_text_raw(r)
        if BIGEXP.search(uncp(s).replace("_", "")):
            continue        # an exponent field of 4+ digits: beyond the model's stated domain (libmpdec's Emax/Emin limits are not modelled)
        t = cpython_numeric(s)
        if t is None or (abs(t[2]) <= 500 and len(str(t[1])) <= 120):
            return s


def gen_text_raw(r):
    k = r.random()
    if k < 0.35:
        return cp(r.choice(TEXTS))
    if k < 0.9:
        return gen_numeric_text(r)
    return [r.choice([r.randint(32, 126), r.randint(32, 126), r.randint(1, 0x2FFF), r.randint(0x10000, 0x1FFFF)]) for _ in range(r.randint(1, 8))]


def gen_scalarable(r, prefixes):
    k = r.random()
    if k < 0.3:
        return ("str", gen_text(r))
    if k < 0.4:
        return ("int", gen_int(r))
    if k < 0.55:
        return ("flt", gen_float(r))
    if k < 0.7:
        return ("dec", r.choice(boundary_triples()) if r.random() < 0.25 else gen_triple(r))
    if k < 0.92:
        return ("pre", r.choice(boundary_triples()) if r.random() < 0.3 else gen_triple(r), r.choice(prefixes))
    return ("lit", gen_text(r))


def gen_any(r, prefixes, enums):
    k = r.random()
    if k < 0.8:
        return gen_scalarable(r, prefixes)
    if k < 0.86:
        return ("none",)
    if k < 0.93:
        cls = r.choice(["XE", "XE", "MosType", "MosVth", "MosFamily", "BipolarType"])
        return ("enum", cls, r.choice(enums[cls])[0])
    if k < 0.96:
        return ("enum", "NE", r.choice(enums["NE"])[0])
    return ("other", r.choice(["list", "tuple", "bytes", "complex", "dict", "object", "set", "fraction", "real"]))


# ------------------------------------------------------------------------------------------ overlapping objects
# where a shape may be given: "given" = stored as it is (export_param_value itself, dict entries, Any-typed fields),
# "scalar" = to_scalar / Scalar-typed fields, "optstr" = Optional[str] fields.  Not in "scalar": float subclasses and float-mixin
# enums (pydantic reads a float through str(), which those classes override: outside the model, see notes/C13.md).
# Not in "optstr": str-and-Enum members whose Enum value differs from their characters (pydantic's lax Enum -> str coercion).
SHAPES = dict(strenum=("given", "scalar", "optstr"), StrEnum=("given", "scalar", "optstr"), sxe=("given", "scalar", "optstr"),
              strenum_v=("given", "scalar"), strenum_t=("given", "scalar"), intenum=("given", "scalar"), intflag=("given", "scalar"),
              fltenum=("given",), decenum=("given", "scalar"), bool=("given", "scalar"), strsub=("given", "scalar", "optstr"),
              intsub=("given", "scalar"), fltsub=("given",), decsub=("given", "scalar"), litsub=("given", "scalar"),
              presub=("given", "scalar"), strlit=("given", "scalar", "optstr"))
SXE_MEMBERS = ["TYP", "FAST", "NUM", "EMPTY", "SP"]          # checked against the driver's class in run()


def gen_obj(r, prefixes, ctx, shape=None):
    sh = shape or r.choice([k for k, c in SHAPES.items() if ctx in c])
    gt = lambda: cp(r.choice(["ff_n40C_1v95", "tt_025C_1v80", "lvt", "1e3", "", " 1_000 ", "nan", "-2.50e-7", "w/5", "é"])) if r.random() < 0.4 else gen_text(r)
    if sh == "sxe":
        return ("obj", sh, r.choice(SXE_MEMBERS))
    if SIG[sh] == "s":
        return ("obj", sh, gt())
    if sh == "intflag":
        return ("obj", sh, r.randint(0, 3))
    if sh == "bool":
        return ("obj", sh, r.randint(0, 1))
    if SIG[sh] == "i":
        return ("obj", sh, gen_int(r))
    if SIG[sh] == "f":
        return ("obj", sh, gen_float(r))
    if SIG[sh] == "d":
        return ("obj", sh, r.choice(boundary_triples()) if r.random() < 0.25 else gen_triple(r))
    if sh == "presub":
        return ("obj", sh, r.choice(boundary_triples()) if r.random() < 0.3 else gen_triple(r), r.choice(prefixes))
    if sh == "strlit":
        a = gt()
        return ("obj", sh, a, a if r.random() < 0.6 else gt())
    raise ValueError(sh)


def overlap_jobs(r, n_ext, per_field, prims, xp_fields, prefixes, enums):
    """instance calls carrying overlapping objects: dict entries, the paramclass XP (Scalar, Optional[str], own-Enum and
    Any-typed fields), and every Scalar / Optional[Scalar] / Optional[str] field of every primitive"""
    jobs = []
    for _ in range(n_ext):
        dom = r.choice([None, cp("dom")])
        given, allp = [], []
        for nm in r.sample(NAMES + ["corner", "flavor"], r.randint(1, 4)):
            val = gen_obj(r, prefixes, "given") if r.random() < 0.7 else gen_any(r, prefixes, enums)
            given.append([cp(nm), val])
            allp.append((cp(nm), 4, val))
        jobs.append(dict(tgt=["ext", "dict", dom, cp("X")], given=given, all=allp, entry="dict"))
    for _ in range(n_ext):
        given, allp = [], []
        for fld in xp_fields:
            nm, kind, dv = fld[0], fld[1], fld[2]
            val = None
            if kind in (0, 1) and (dv[0] == "req" or r.random() < 0.5):
                val = gen_obj(r, prefixes, "scalar")
            elif kind == 2 and r.random() < 0.5:
                val = gen_obj(r, prefixes, "optstr")
            elif nm == "se" and r.random() < 0.6:
                val = ("obj", "sxe", r.choice(SXE_MEMBERS))
            elif nm == "a" and r.random() < 0.8:
                val = gen_obj(r, prefixes, "given")
            if val is not None:
                given.append([nm, val])
            else:
                val = tuple(dv)
            allp.append((cp(nm), kind, val))
        jobs.append(dict(tgt=["ext", "pc", r.choice([None, cp("my.domain")]), cp("nmos_lvt")], given=given, all=allp, entry="paramclass"))
    for p in prims:
        for i, fld in enumerate(p["fields"]):
            for _ in range(per_field if fld[1] in (0, 1, 2) else 0):
                v = gen_obj(r, prefixes, "scalar" if fld[1] < 2 else "optstr")
                j = prim_job(r, p, i, prefixes, enums, v=v, minimal=True)
                for g in j["given"]:                      # required fields of the same call: objects too, half of the time
                    if g[0] != fld[0] and r.random() < 0.5:
                        g[1] = gen_obj(r, prefixes, "scalar")
                        j["all"] = [(k, kd, (g[1] if uncp(k) == g[0] else x)) for k, kd, x in j["all"]]
                j["entry"] = "primitive"
                jobs.append(j)
    return jobs


def check_probes(run, vals, enums, sxe):
    """the facets this harness declares (and prints into the Coq cases) against the live objects; fail closed"""
    distinct_vals = list({json.dumps(jv(v)): v for v in vals}.values())
    probes = core.run_worker_sharded("c13", [wire(v) for v in distinct_vals], common=dict(kind="probe"))
    out = {}
    for v, pr in zip(distinct_vals, probes):
        want = facets_probe_form(facets(v, enums, sxe))
        if pr.get("bad") or pr["facets"] != want:
            run.violation("C13:harness:facets", f"the harness describes {json.dumps(jv(v))[:200]} by facets the live object does not have: "
                          f"declared {json.dumps(want)[:300]}, measured {json.dumps(pr)[:300]}", dict(kind="harness", case=jv(v)), found_input=False)
            break
        out[json.dumps(jv(v))] = pr
    return out


def measured_shape(pr):
    """classify a live object by what was measured on it (its facets, its class), independent of the shape name the generator used"""
    f = pr["facets"]
    names = [k for k in ("str", "enum", "lit", "pre", "dec", "int", "flt") if f[k] is not None]
    tag = "+".join(names) or "none"
    if f["enum"] is not None:
        tag += ":value-" + ("str" if f["enum"][0] == "some" else "other")
        if f["str"] is not None and f["enum"][0] == "some" and f["enum"][1] != f["str"]:
            tag += "-differs"
    if f["int"] is not None and f["int"][1]:
        tag += ":bool"
    if f["str"] is not None and f["lit"] is not None and f["str"] != f["lit"]:
        tag += ":text-differs"
    if f["enum"] is None and pr["cls"] not in ("str", "int", "float", "Decimal", "Literal", "Prefixed", "NoneType", "bool"):
        tag += ":sub"
    return tag


def hides_content(pr):
    """str(x) differs from the characters of the str the object is (what protobuf must receive)"""
    f = pr["facets"]
    return f["str"] is not None and pr["texts"][0] != f["str"]


SUBS = ["str:sub", "int:sub", "dec:sub", "lit:sub", "pre:sub", "str+lit:sub"]
OVERLAP_TARGETS = {
    "value": ["str+enum:value-str", "str+enum:value-str-differs", "str+enum:value-other", "enum+int:value-other", "enum+flt:value-other",
              "enum+dec:value-other", "int:bool", "flt:sub", "str+lit:text-differs:sub"] + SUBS,
    "scalar": ["str+enum:value-str", "str+enum:value-str-differs", "str+enum:value-other", "enum+int:value-other", "enum+dec:value-other",
               "int:bool"] + SUBS,
    "dict": ["str+enum:value-str", "str+enum:value-other", "enum+int:value-other", "enum+flt:value-other", "enum+dec:value-other", "int:bool",
             "flt:sub"] + SUBS,
    "paramclass": ["str+enum:value-str", "enum+int:value-other", "int:bool"] + SUBS,
    "primitive": ["str+enum:value-str", "enum+int:value-other", "int:bool"] + SUBS,
}


NAMES = ["w", "l", "a b", "", "x=1", "very_long_parameter_name_0123456789", "µ", "m", "M", "nf", "0", "é"]


def corpus_values(prefixes):
    vs = [("pre", (0, 1, 30), 0),                               # DESIGN 7 #16: integral beyond int64 raised ValueError
          ("pre", (0, I63, 0), 3), ("pre", (1, I63 + 1, 0), -9), ("pre", (0, I63 - 1, 0), 0), ("pre", (1, I63, 0), 0),
          ("pre", (0, 92233720368547758080, -1), -3), ("pre", (0, 15, -1), -9), ("pre", (0, 1500, -2), 6), ("pre", (0, 1, -7), 0),
          ("pre", (1, 0, 0), 0), ("pre", (0, 0, -3), 12), ("pre", (0, 10 ** 59 + 7, -40), -24), ("pre", (0, 123, -9), 24)]
    vs += [("pre", (0, 25, -1), q) for q in prefixes]
    vs += [("pre", (0, 10 ** 20, 0), q) for q in prefixes]
    vs += [("dec", t) for t in boundary_triples()[:20]]
    vs += [("int", z) for z in (0, 1, -1, I63 - 1, -I63, I63, -I63 - 1, 10 ** 30)]
    vs += [("flt", x) for x in FLOATS] + [("flt", float("nan")), ("flt", float("inf")), ("flt", float("-inf"))]
    vs += [("str", cp(s)) for s in TEXTS]
    vs += [("lit", cp(s)) for s in ("w/5", "", "1e3", " 1 ")]
    vs += [("none",), ("enum", "XE", "A"), ("enum", "XE", "B"), ("enum", "XE", "C"), ("enum", "XE", "D"), ("enum", "NE", "ONE"),
           ("enum", "MosType", "PMOS"), ("other", "list"), ("other", "object")]
    return vs


# ------------------------------------------------------------------------------------------ instance jobs
def value_for_kind(r, kind, fld, prefixes, enums):
    if kind in (0, 1):
        if kind == 1 and r.random() < 0.1:
            return ("none",)
        return gen_scalarable(r, prefixes)
    if kind == 2:
        return ("none",) if r.random() < 0.2 else ("str", gen_text(r))
    if kind == 3:
        return ("enum", fld[3], r.choice(enums[fld[3]])[0])
    raise ValueError(kind)


def default_value(fld):
    d = fld[2]
    if d[0] == "req":
        return None
    if d[0] == "int":
        return ("int", int(d[1]))
    return tuple(d)


def prim_job(r, prim, focus, prefixes, enums, v=None, minimal=False):
    """one primitive call: field `focus` gets a pool value (or v), some of the others too, the rest their defaults"""
    given, allp = [], []
    for i, fld in enumerate(prim["fields"]):
        nm, kind = fld[0], fld[1]
        dv = default_value(fld)
        if i == focus or dv is None or (not minimal and r.random() < 0.3):
            val = v if (i == focus and v is not None) else value_for_kind(r, kind, fld, prefixes, enums)
            given.append([nm, val])
        else:
            val = dv
        allp.append((cp(nm), kind, val))
    return dict(tgt=["prim", prim["name"]], given=given, all=allp)


XP_GEN = dict(a=lambda r, p, e: gen_any(r, p, e), i=lambda r, p, e: ("int", gen_int(r)), f=lambda r, p, e: ("flt", r.choice([gen_float(r), float("nan"), float("inf")]) if r.random() < 0.1 else gen_float(r)),
              d=lambda r, p, e: ("dec", gen_triple(r)), p=lambda r, p, e: ("pre", r.choice(boundary_triples()) if r.random() < 0.3 else gen_triple(r), r.choice(p)),
              l=lambda r, p, e: ("lit", gen_text(r)))


def ext_job(r, mode, xp_fields, prefixes, enums):
    dom = r.choice([None, cp("dom"), cp(""), cp("my.domain"), cp("µ")])
    name = cp(r.choice(["X", "nmos_lvt", "a b", "R1"]))
    given, allp = [], []
    if mode == "dict":
        names = r.sample(NAMES, r.randint(0, 5))
        for nm in names:
            val = gen_any(r, prefixes, enums)
            given.append([cp(nm), val])
            allp.append((cp(nm), 4, val))
    else:
        for fld in xp_fields:
            nm, kind, dv = fld[0], fld[1], fld[2]
            if dv[0] == "req" or r.random() < 0.45:
                if kind == 4:
                    val = ("none",) if r.random() < 0.1 else XP_GEN[nm](r, prefixes, enums)
                elif kind == 3:
                    val = ("obj", "sxe", r.choice(SXE_MEMBERS)) if nm == "se" else ("enum", "XE", r.choice(enums["XE"])[0])
                else:
                    val = value_for_kind(r, kind, fld, prefixes, enums)
                given.append([nm, val])
            else:
                val = tuple(dv)
            allp.append((cp(nm), kind, val))
    return dict(tgt=["ext", mode, dom, name], given=given, all=allp)


def job_wire(j):
    return dict(tgt=j["tgt"], params=[[k, wire(v)] for k, v in j["given"]])


def job_json(j):
    return dict(tgt=[(uncp(x) if isinstance(x, list) else x) for x in j["tgt"]],
                given=[[(k if isinstance(k, str) else uncp(k)), jv(v)] for k, v in j["given"]],
                all=[[uncp(k), kind, jv(v)] for k, kind, v in j["all"]])


def job_unjson(d):
    t = d["tgt"]
    tgt = t if t[0] == "prim" else [t[0], t[1], (None if t[2] is None else cp(t[2])), cp(t[3])]
    isdict = t[0] == "ext" and t[1] == "dict"
    return dict(tgt=tgt, given=[[(cp(k) if isdict else k), unjv(v)] for k, v in d["given"]],
                all=[(cp(k), kind, unjv(v)) for k, kind, v in d["all"]])


# ------------------------------------------------------------------------------------------ running and reporting
def vsize(v):
    return len(json.dumps(jv(v)))


def run_values(run, stream, kind, vals, enums, chunk=400, sxe=None):
    """kind in {"scalar", "value"}; sxe given: object mode (cases are pyobj facets, evaluators chk_*_obj)"""
    outs = core.run_worker_sharded("c13", [wire(v) for v in vals], common=dict(kind=kind))
    pr = c_sres if kind == "scalar" else c_vres
    if sxe is not None:
        cases = [f"({c_obj(facets(v, enums, sxe))}, {pr(o)})" for v, o in zip(vals, outs)]
        typ, ev = ("pyobj * sres", "run_cases chk_scalar_obj") if kind == "scalar" else ("pyobj * vres", "run_cases chk_value_obj")
    else:
        cases = [f"({c_value(v, enums)}, {pr(o)})" for v, o in zip(vals, outs)]
        typ, ev = ("value * sres", "run_cases chk_scalar") if kind == "scalar" else ("value * vres", "run_cases chk_value")
    bad = core.coq_eval_cases("C13", stream + "_" + kind, IMPORTS, typ, cases, ev, chunk=chunk)
    return outs, bad


def entry(kind):
    return dict(scalar="hdl21.scalar.to_scalar", value="hdl21.proto.exporting.export_param_value")[kind]


def py_value(v):
    k = v[0]
    if k == "none":
        return "None"
    if k == "int":
        return str(v[1])
    if k == "flt":
        return f"float.fromhex('{v[1].hex()}')"
    if k == "str":
        return repr(uncp(v[1]))
    if k == "lit":
        return f"h.Literal({uncp(v[1])!r})"
    if k == "pre":
        return f"h.Prefixed(number=D('{dstr(v[1])}'), prefix=h.Prefix({v[2]}))"
    if k == "dec":
        return f"D('{dstr(v[1])}')"
    if k == "obj":
        return py_obj(v)
    return f"<{' '.join(map(str, v))}: see harness/impl/c13.py mkval>"


SXE_VALUES = []          # filled in from the driver's class by run()


def show_vout(o):
    """an implementation result of the scalar / value entry points with texts readable"""
    def tx(x):
        return uncp(x) if isinstance(x, list) and all(isinstance(c, int) for c in x) else x
    if o and o[0] == "val":
        p = o[1]
        return ["val", [p[0]] + [tx(x) for x in p[1:]]]
    if o and o[0] == "lit":
        return ["lit", tx(o[1])]
    return o


def py_obj(v):
    sh, c = v[1], v[2:]
    t = lambda l: repr(uncp(l))
    if sh == "strenum":
        return f"enum.Enum('SE', [('M', {t(c[0])})], type=str).M"
    if sh == "StrEnum":
        return f"enum.StrEnum('StE', [('M', {t(c[0])})]).M"
    if sh == "intenum":
        return f"enum.IntEnum('IE', [('M', {c[0]})]).M"
    if sh == "intflag":
        return f"enum.IntFlag('IF', [('A', 1), ('B', 2)])({c[0]})"
    if sh == "fltenum":
        return f"enum.Enum('FE', [('M', float.fromhex('{c[0].hex()}'))], type=float).M"
    if sh == "decenum":
        return f"enum.Enum('DE', [('M', D('{dstr(c[0])}'))], type=D).M"
    if sh == "bool":
        return str(bool(c[0]))
    if sh == "sxe":
        return f"enum.Enum('SXE', {[(m, uncp(x)) for m, x in SXE_VALUES]!r}, type=str)[{c[0]!r}]"
    if sh == "strsub":
        return f"type('StrSub', (str,), dict(__str__=lambda s: 'StrSub!'))({t(c[0])})"
    if sh == "intsub":
        return f"type('IntSub', (int,), dict(__str__=lambda s: '77', __repr__=lambda s: '78'))({c[0]})"
    if sh == "fltsub":
        return f"type('FltSub', (float,), dict(__str__=lambda s: '7.5', __repr__=lambda s: '8.5'))(float.fromhex('{c[0].hex()}'))"
    if sh == "decsub":
        return f"type('DecSub', (D,), dict(__repr__=lambda s: 'DecSub?', __format__=lambda s, f: '7.25'))('{dstr(c[0])}')"
    return f"<{sh} {json.dumps(jv(v)[2:])}: see harness/impl/c13.py mkobj>"


def report_values(run, stream, kind, vals, outs, bad, objmode=False):
    ent = kind + "-obj" if objmode else kind
    v1 = sorted([i for i, c in bad if c == 1], key=lambda i: (vsize(vals[i]), json.dumps(jv(vals[i]))))
    v2 = sorted([i for i, c in bad if c == 2], key=lambda i: (vsize(vals[i]), json.dumps(jv(vals[i]))))
    v3 = [i for i, c in bad if c == 3]
    if v1:
        i = v1[0]
        run.violation(f"C13:{kind}:{json.dumps(jv(vals[i]))}",
                      f"{entry(kind)}({py_value(vals[i])}) does not preserve the value: {json.dumps(show_vout(outs[i]))[:300]}",
                      dict(kind="impl-violates-spec", stream=stream, entry=ent, case=jv(vals[i]), impl=outs[i], failing_cases=len(v1),
                           reproducer=f"import enum, hdl21 as h; from decimal import Decimal as D; from {entry(kind).rsplit('.', 1)[0]} import {entry(kind).rsplit('.', 1)[1]} as f; print(f({py_value(vals[i])}))"))
    elif v2:
        i = v2[0]
        run.violation(f"C13:{stream}:{kind}:tie", f"model and implementation differ on {entry(kind)}({py_value(vals[i])}): {json.dumps(outs[i])[:300]} (property holds on every explored input)",
                      dict(kind="correspondence-broken", stream=stream, entry=ent, case=jv(vals[i]), impl=outs[i], disagreeing_cases=len(v2)), found_input=False)
    if v3:
        i = v3[0]
        run.violation("C13:spec-validation:float-repr", f"repr annotation of {jv(vals[i])} does not read back as that float",
                      dict(kind="spec-validation", stream=stream, case=jv(vals[i])), found_input=False)


def run_insts(run, stream, jobs, enums, chunk=250, sxe=None):
    outs = core.run_worker_sharded("c13", [job_wire(j) for j in jobs], common=dict(kind="inst"))
    cases = [f"({c_call(j, enums, sxe)}, {c_ires(o)})" for j, o in zip(jobs, outs)]
    if sxe is not None:
        bad = core.coq_eval_cases("C13", stream, IMPORTS, "ocall * ires", cases, "run_cases chk_inst_obj", chunk=chunk)
    else:
        bad = core.coq_eval_cases("C13", stream, IMPORTS, "call * ires", cases, "run_cases chk_inst", chunk=chunk)
    return outs, bad


def jsize(j):
    return (len(j["given"]), len(json.dumps(job_json(j))))


def py_job(j):
    t = j["tgt"]
    args = ", ".join(f"{(k if isinstance(k, str) else uncp(k))!r}: {py_value(v)}" for k, v in j["given"])
    if t[0] == "prim":
        return (f"import enum, hdl21 as h; from decimal import Decimal as D; import hdl21.primitives as hp; p = hp.{t[1]}; m = h.Module(name='T'); "
                f"m.add(p(p.Params(**{{{args}}}))(**{{x.name: m.add(h.Signal(name='n_' + x.name)) for x in p.port_list}}), name='i0'); "
                f"print(h.to_proto(m).modules[0].instances[0])")
    dom = None if t[2] is None else uncp(t[2])
    return (f"ExternalModule(name={uncp(t[3])!r}, domain={dom!r}, paramtype={'dict' if t[1] == 'dict' else 'XP'}) called with {{{args}}} "
            f"(see harness/impl/c13.py do_inst)")


def report_insts(run, stream, jobs, outs, bad, objmode=False):
    ent = "inst-obj" if objmode else "inst"
    v1 = sorted([i for i, c in bad if c == 1], key=lambda i: jsize(jobs[i]))
    v2 = sorted([i for i, c in bad if c == 2], key=lambda i: jsize(jobs[i]))
    v3 = [i for i, c in bad if c == 3]
    # one report per class of failure (how the implementation answered), the smallest case of each
    classes = {}
    for i in v1:
        cls = (outs[i].get("stage"), outs[i].get("exc")) if not outs[i].get("ok") else ("accepted", "")
        classes.setdefault(cls, i)
    for cls, i in sorted(classes.items(), key=lambda kv: jsize(jobs[kv[1]])):
        run.violation(f"C13:inst:{json.dumps(job_json(jobs[i])['tgt'])}:{json.dumps(job_json(jobs[i])['given'])}",
                      f"exported Instance.parameters do not show the given values for {json.dumps(job_json(jobs[i])['tgt'])} "
                      f"with {json.dumps(job_json(jobs[i])['given'])[:300]}: {json.dumps(show_out(outs[i]))[:400]}",
                      dict(kind="impl-violates-spec", stream=stream, entry=ent, case=job_json(jobs[i]), impl=show_out(outs[i]),
                           failing_cases=len(v1), failure_class=list(cls), reproducer=py_job(jobs[i])))
    if not v1 and v2:
        i = v2[0]
        run.violation(f"C13:{stream}:tie", f"model and implementation differ on {json.dumps(job_json(jobs[i]))[:300]}: {json.dumps(show_out(outs[i]))[:300]} "
                      "(property holds on every explored input)",
                      dict(kind="correspondence-broken", stream=stream, entry=ent, case=job_json(jobs[i]), impl=show_out(outs[i]),
                           disagreeing_cases=len(v2)), found_input=False)
    if v3:
        run.violation("C13:spec-validation:float-repr", f"repr annotation of a float in {json.dumps(job_json(jobs[v3[0]]))[:300]} does not read back",
                      dict(kind="spec-validation", stream=stream, case=job_json(jobs[v3[0]])), found_input=False)


def show_out(o):
    if not o.get("ok"):
        return o
    def pv(p):
        if p[0] in ("lit", "strv"):
            return [p[0], uncp(p[1])]
        if p[0] == "pre" and p[1] == "str":
            return ["pre", "str", uncp(p[2]), p[3]]
        return p
    return dict(ok=True, ref=[uncp(o["ref"][0]), uncp(o["ref"][1])], params=[[uncp(k), pv(v)] for k, v in o["params"]])


def nontrivial_value(v):
    k = v[0]
    if k in ("none", "other"):
        return False
    if k in ("str", "lit"):
        return len(v[1]) >= 2
    if k == "int":
        return abs(v[1]) >= 10
    if k in ("pre", "dec"):
        return v[1][1] >= 10 or v[1][2] != 0 or (k == "pre" and v[2] != 0)
    return True


def distinct(vals, pred=lambda v: True):
    return len({json.dumps(jv(v)) for v in vals if pred(v)})


def cpython_numeric(s):
    try:
        d = Decimal(uncp(s))
    except (InvalidOperation, ValueError, TypeError):
        return None
    except Exception:
        return None
    return triple(d) if d.is_finite() else None


def run(run, tier, seed, replay=None):
    quick = tier == "quick"
    meta = core.run_worker("c13", dict(kind="meta", jobs=[None]))["results"][0]
    prefixes = [v for _, v in meta["prefixes"]]
    enums = meta["enums"]
    prims = meta["prims"]
    xp_fields = meta["xp_fields"]
    sxe = meta["sxe"]
    SXE_VALUES[:] = [(m, x) for m, x in sxe]
    if [m for m, _ in sxe] != SXE_MEMBERS:
        raise RuntimeError("C13: the driver's SXE class and SXE_MEMBERS differ")

    if replay is not None and replay.get("case") is not None:
        ent = replay.get("entry")
        if ent in ("scalar", "value"):
            v = unjv(replay["case"])
            outs, bad = run_values(run, "replay", ent, [v], enums)
            run.stream("replay", 1, 1, rule="the replayed case")
            report_values(run, "replay", ent, [v], outs, bad)
            run.sample(dict(stream="replay", case=jv(v), impl=outs[0]))
        elif ent == "inst":
            j = job_unjson(replay["case"])
            outs, bad = run_insts(run, "replay", [j], enums)
            run.stream("replay", 1, 1, rule="the replayed case")
            report_insts(run, "replay", [j], outs, bad)
            run.sample(dict(stream="replay", case=job_json(j), impl=show_out(outs[0])))
        elif ent in ("scalar-obj", "value-obj"):
            v = unjv(replay["case"])
            check_probes(run, [v], enums, sxe)
            outs, bad = run_values(run, "replay", ent[:-4], [v], enums, sxe=sxe)
            run.stream("replay", 1, 1, rule="the replayed case")
            report_values(run, "replay", ent[:-4], [v], outs, bad, objmode=True)
            run.sample(dict(stream="replay", case=jv(v), impl=outs[0]))
        elif ent == "inst-obj":
            j = job_unjson(replay["case"])
            check_probes(run, [v for _, _, v in j["all"]], enums, sxe)
            outs, bad = run_insts(run, "replay", [j], enums, sxe=sxe)
            run.stream("replay", 1, 1, rule="the replayed case")
            report_insts(run, "replay", [j], outs, bad, objmode=True)
            run.sample(dict(stream="replay", case=job_json(j), impl=show_out(outs[0])))
        return

    traces = 0
    # ------------------------------------------------------------------ stream corpus
    cv = corpus_values(prefixes)
    r = core.rng(seed, "C13", "corpus")
    for kind in ("scalar", "value"):
        outs, bad = run_values(run, "corpus", kind, cv, enums)
        report_values(run, "corpus", kind, cv, outs, bad)
        if kind == "value":
            run.sample(dict(stream="corpus", entry=entry(kind), case=jv(cv[0]), impl=outs[0]))
    byname = {p["name"]: p for p in prims}
    cj = []
    for v in [("pre", (0, 1, 30), 0), ("pre", (0, I63, 0), 3), ("pre", (0, 15, -1), -9), ("int", 10 ** 30), ("str", cp("1_000")), ("str", cp("nan")),
              ("flt", 0.1), ("dec", (0, 150, -2))]:
        cj.append(prim_job(r, byname["IdealResistor"], 0, prefixes, enums, v=v, minimal=True))
        cj.append(prim_job(r, byname["Mos"], 0, prefixes, enums, v=v, minimal=True))
        cj.append(prim_job(r, byname["PulseVoltageSource"], 0, prefixes, enums, v=v, minimal=True))
        cj.append(dict(tgt=["ext", "dict", None, cp("X")], given=[[cp("p"), v]], all=[(cp("p"), 4, v)]))
    for v in [("str", cp("wparam")), ("lit", cp("l*2")), ("str", cp("1e-30")), ("int", 0), ("pre", (0, 1, -30), -24), ("pre", (0, 1, 0), -24)]:
        cj.append(prim_job(r, byname["Bipolar"], 0, prefixes, enums, v=v, minimal=True))      # Literal width: TypeError on the pinned tree
        cj.append(prim_job(r, byname["Bipolar"], 1, prefixes, enums, v=v, minimal=True))
    outs, bad = run_insts(run, "corpus", cj, enums)
    report_insts(run, "corpus", cj, outs, bad)
    run.sample(dict(stream="corpus", entry="inst", case=job_json(cj[2]), impl=show_out(outs[2])))
    # strengthening round: the seeded miss C13r2-A (a member of a (str, Enum) class exported as str(member)) and its neighbours
    ov = [("obj", "sxe", "FAST"), ("obj", "sxe", "TYP"), ("obj", "strenum", cp("ff_n40C_1v95")), ("obj", "StrEnum", cp("abc")),
          ("obj", "strsub", cp("abc")), ("obj", "intenum", 7), ("obj", "bool", 1), ("obj", "bool", 0), ("obj", "strlit", cp("w/5"), cp("w/5")),
          ("obj", "strenum_v", cp("a")), ("obj", "strenum_t", cp("a")), ("obj", "litsub", cp("w/5")), ("obj", "presub", (0, 15, -1), 3),
          ("obj", "intsub", 5), ("obj", "fltsub", 0.1), ("obj", "decsub", (0, 150, -2)), ("obj", "decenum", (0, 150, -2)), ("obj", "fltenum", 2.5),
          ("obj", "intenum", I63), ("obj", "intflag", 3), ("obj", "strenum", cp("1e3")), ("obj", "strenum", cp(""))]
    check_probes(run, ov, enums, sxe)
    ncorpus = 2 * len(cv) + len(cj)
    for kind in ("scalar", "value"):
        ovk = [v for v in ov if ("scalar" if kind == "scalar" else "given") in SHAPES[v[1]]]
        ncorpus += len(ovk)
        outs, bad = run_values(run, "corpus_obj", kind, ovk, enums, sxe=sxe)
        report_values(run, "corpus", kind, ovk, outs, bad, objmode=True)
    oj = []
    for v in ov:
        oj.append(dict(tgt=["ext", "dict", None, cp("Ext")], given=[[cp("corner"), v]], all=[(cp("corner"), 4, v)]))
    for m in SXE_MEMBERS:
        given = [["s", ("int", 1)], ["se", ("obj", "sxe", m)]]
        oj.append(dict(tgt=["ext", "pc", None, cp("Ext2")], given=given,
                       all=[(cp(f[0]), f[1], dict((k, x) for k, x in given).get(f[0], tuple(f[2]))) for f in xp_fields]))
    oj.append(prim_job(r, byname["Mos"], [f[0] for f in byname["Mos"]["fields"]].index("model"), prefixes, enums, v=("obj", "sxe", "FAST"), minimal=True))
    oj.append(prim_job(r, byname["IdealResistor"], 0, prefixes, enums, v=("obj", "sxe", "NUM"), minimal=True))
    oj.append(prim_job(r, byname["IdealResistor"], 0, prefixes, enums, v=("obj", "intenum", 7), minimal=True))
    outs, bad = run_insts(run, "corpus_obj", oj, enums, sxe=sxe)
    report_insts(run, "corpus", oj, outs, bad, objmode=True)
    run.sample(dict(stream="corpus", entry="inst-obj", case=job_json(oj[0]), impl=show_out(outs[0])))
    cv = cv + ov
    cj = cj + oj
    ncorpus += len(oj)
    run.stream("corpus", ncorpus, distinct(cv, nontrivial_value) + len({json.dumps(job_json(j)) for j in cj}),
               rule="non-trivial = value other than None/foreign object with >= 2 characters, digits beyond one, a non-zero exponent or a non-UNIT prefix; distinct by value (and by call for instances)")
    traces += ncorpus

    # ------------------------------------------------------------------ streams scalar / value
    n = 1200 if quick else 20000
    for kind in ("scalar", "value"):
        r = core.rng(seed, "C13", kind)
        vals = [gen_any(r, prefixes, enums) for _ in range(n)]
        if kind == "scalar":        # every prefix x long coefficients; boundary decimals
            vals += [("pre", gen_triple(r), q) for q in prefixes for _ in range(2)]
        else:
            vals += [("pre", t, q) for q in prefixes for t in [gen_triple(r), r.choice(boundary_triples()), (r.randint(0, 1), r.randint(I63, 10 ** 40), r.randint(0, 3))]]
            vals += [("pre", t, r.choice(prefixes)) for t in boundary_triples()]
        outs, bad = run_values(run, kind, kind, vals, enums)
        report_values(run, kind, kind, vals, outs, bad)
        rej = sum(1 for o in outs if o[0] == "exc")
        extra = dict(rejected=rej, rejected_fraction=round(rej / len(vals), 4),
                     by_type={k: sum(1 for v in vals if v[0] == k) for k in ("str", "int", "flt", "dec", "pre", "lit", "none", "enum", "other")},
                     max_coefficient_digits=max([len(str(v[1][1])) for v in vals if v[0] in ("pre", "dec")] or [0]),
                     prefixes_covered=len({v[2] for v in vals if v[0] == "pre"}))
        if kind == "scalar":
            extra["became_prefixed"] = sum(1 for o in outs if o[0] == "pre")
            extra["became_literal"] = sum(1 for o in outs if o[0] == "lit")
        else:
            extra["prefixed_string_branch"] = sum(1 for o in outs if o[0] == "val" and o[1][0] == "pre" and o[1][1] == "str")
            extra["prefixed_int64_branch"] = sum(1 for o in outs if o[0] == "val" and o[1][0] == "pre" and o[1][1] == "int")
            extra["integral_beyond_int64"] = sum(1 for v in vals if v[0] == "pre" and v[1][2] >= 0 and v[1][1] * 10 ** v[1][2] >= I63)
        run.stream(kind, len(vals), distinct(vals, nontrivial_value), rule="as corpus; distinct by value", **extra)
        run.sample(dict(stream=kind, entry=entry(kind), case=jv(vals[3]), impl=outs[3]))
        traces += len(vals)

    # ------------------------------------------------------------------ stream inst
    r = core.rng(seed, "C13", "inst")
    per_field = 6 if quick else 100
    jobs = []
    for p in prims:
        for i, fld in enumerate(p["fields"]):
            for _ in range(per_field):
                jobs.append(prim_job(r, p, i, prefixes, enums))
    nprim = len(jobs)
    for _ in range(250 if quick else 4000):
        jobs.append(ext_job(r, "dict", xp_fields, prefixes, enums))
    for _ in range(250 if quick else 4000):
        jobs.append(ext_job(r, "pc", xp_fields, prefixes, enums))
    # the paramclass XP has a field typed by a (str, Enum) class, whose default every call carries: those calls are printed as ocalls
    ipc = [i for i, j in enumerate(jobs) if j["tgt"][0] == "ext" and j["tgt"][1] == "pc"]
    ipl = [i for i, j in enumerate(jobs) if not (j["tgt"][0] == "ext" and j["tgt"][1] == "pc")]
    outs = [None] * len(jobs)
    o1, bad1 = run_insts(run, "inst", [jobs[i] for i in ipl], enums)
    report_insts(run, "inst", [jobs[i] for i in ipl], o1, bad1)
    o2, bad2 = run_insts(run, "inst_pc", [jobs[i] for i in ipc], enums, sxe=sxe)
    report_insts(run, "inst", [jobs[i] for i in ipc], o2, bad2, objmode=True)
    for i, o in zip(ipl, o1):
        outs[i] = o
    for i, o in zip(ipc, o2):
        outs[i] = o
    rej = sum(1 for o in outs if not o.get("ok"))
    run.stream("inst", len(jobs), len({json.dumps(job_json(j)) for j in jobs if j["given"]}),
               primitive_calls=nprim, primitives=len(prims), fields=sum(len(p["fields"]) for p in prims), per_field=per_field,
               external_dict=sum(1 for j in jobs if j["tgt"][0] == "ext" and j["tgt"][1] == "dict"),
               external_paramclass=sum(1 for j in jobs if j["tgt"][0] == "ext" and j["tgt"][1] == "pc"),
               rejected=rej, rejected_fraction=round(rej / len(jobs), 4),
               rejected_at={s: sum(1 for o in outs if not o.get("ok") and o.get("stage") == s) for s in ("construct", "export", "shape", "bad-input")},
               exported_parameters=sum(len(o["params"]) for o in outs if o.get("ok")),
               rule="non-trivial = at least one parameter given explicitly; distinct by (target, given parameters)")
    run.sample(dict(stream="inst", case=job_json(jobs[0]), impl=show_out(outs[0])))
    run.sample(dict(stream="inst", case=job_json(jobs[nprim + 3]), impl=show_out(outs[nprim + 3])))
    traces += len(jobs)

    # ------------------------------------------------------------------ stream overlap (strengthening round)
    r = core.rng(seed, "C13", "overlap")
    per_shape = 10 if quick else 150
    cover = {e: {t: 0 for t in ts} for e, ts in OVERLAP_TARGETS.items()}
    hidden = {e: 0 for e in OVERLAP_TARGETS}
    nover = 0
    allvals = []
    for kind in ("scalar", "value"):
        ctx = "scalar" if kind == "scalar" else "given"
        vals = [gen_obj(r, prefixes, ctx, shape=sh) for sh, c in SHAPES.items() if ctx in c for _ in range(per_shape)]
        vals += [gen_any(r, prefixes, enums) for _ in range(100 if quick else 2000)]        # one-facet objects through the same evaluators
        probes = check_probes(run, vals, enums, sxe)
        outs, bad = run_values(run, "overlap", kind, vals, enums, sxe=sxe)
        report_values(run, "overlap", kind, vals, outs, bad, objmode=True)
        for v in vals:
            pr = probes.get(json.dumps(jv(v)))
            if pr is not None:
                t = measured_shape(pr)
                if t in cover[kind]:
                    cover[kind][t] += 1
                hidden[kind] += hides_content(pr)
        nover += len(vals)
        allvals += vals
        if kind == "value":
            k = next(i for i, v in enumerate(vals) if v[1] == "strenum")
            run.sample(dict(stream="overlap", entry=entry(kind), case=jv(vals[k]), impl=outs[k]))
    ojobs = overlap_jobs(r, 120 if quick else 2500, 3 if quick else 40, prims, xp_fields, prefixes, enums)
    jvals = [v for j in ojobs for _, _, v in j["all"]]
    probes = check_probes(run, jvals, enums, sxe)
    outs, bad = run_insts(run, "overlap_inst", ojobs, enums, sxe=sxe)
    report_insts(run, "overlap", ojobs, outs, bad, objmode=True)
    for j in ojobs:
        for _, v in j["given"]:
            pr = probes.get(json.dumps(jv(v)))
            if pr is not None:
                t = measured_shape(pr)
                if t in cover[j["entry"]]:
                    cover[j["entry"]][t] += 1
                hidden[j["entry"]] += hides_content(pr)
    nover += len(ojobs)
    orej = sum(1 for o in outs if not o.get("ok"))
    k = next(i for i, j in enumerate(ojobs) if j["entry"] == "paramclass")
    run.sample(dict(stream="overlap", entry="inst-obj", case=job_json(ojobs[k]), impl=show_out(outs[k])))
    run.stream("overlap", nover, distinct([v for v in allvals + jvals if v[0] == "obj"]),
               shapes=len(SHAPES), per_shape=per_shape, instance_calls=len(ojobs),
               instance_calls_by_entry={e: sum(1 for j in ojobs if j["entry"] == e) for e in ("dict", "paramclass", "primitive")},
               instance_calls_rejected=orej, rejected_fraction=round(orej / len(ojobs), 4),
               targets_met=cover, objects_whose_str_hides_their_content=hidden,
               rule="non-trivial = an object that passes two isinstance tests of the parameter path or whose class overrides "
                    "__str__/__repr__/__format__; distinct by (shape, content); targets are counted on the facets MEASURED on the live objects")
    traces += nover
    run.coverage["strengthening_targets"] = cover
    for e, ts in cover.items():
        for t, cnt in ts.items():
            if cnt == 0:
                run.violation(f"C13:coverage:{e}:{t}", f"generator coverage target missed: no {t} object through entry point {e}",
                              dict(kind="coverage"), found_input=False)
    for e in ("value", "dict", "paramclass"):
        if hidden[e] == 0:
            run.violation(f"C13:coverage:{e}:str-hides-content", f"generator coverage target missed: no str object whose str() differs from its "
                          f"characters through entry point {e}", dict(kind="coverage"), found_input=False)

    # ------------------------------------------------------------------ stream malformed
    r = core.rng(seed, "C13", "malformed")
    mv = [("other", t) for t in ("list", "tuple", "bytes", "complex", "dict", "object", "set", "fraction", "real")] + [("enum", "NE", "ONE"), ("enum", "NE", "TWO")]
    mv += [("int", z) for z in (I63, -I63 - 1, 2 ** 64, 10 ** 30, -10 ** 40)] + [("flt", float("nan")), ("flt", float("inf")), ("flt", float("-inf")), ("none",)]
    for kind in ("scalar", "value"):
        outs, bad = run_values(run, "malformed", kind, mv, enums)
        report_values(run, "malformed", kind, mv, outs, bad)
    mj = []
    for v in mv:
        mj.append(prim_job(r, byname["IdealResistor"], 0, prefixes, enums, v=v))
        mj.append(prim_job(r, byname["Diode"], 0, prefixes, enums, v=v))
        mj.append(dict(tgt=["ext", "dict", cp("d"), cp("X")], given=[[cp("ok"), ("int", 1)], [cp("p"), v]], all=[(cp("ok"), 4, ("int", 1)), (cp("p"), 4, v)]))
    outs, bad = run_insts(run, "malformed", mj, enums)
    report_insts(run, "malformed", mj, outs, bad)
    run.stream("malformed", 2 * len(mv) + len(mj), distinct(mv) + len({json.dumps(job_json(j)) for j in mj}),
               instance_calls_rejected=sum(1 for o in outs if not o.get("ok")),
               rule="every case carries a value no ParamValue can hold or a Scalar cannot be made from; distinct by value / call")
    traces += 2 * len(mv) + len(mj)

    # ------------------------------------------------------------------ spec validation against CPython's decimal
    r = core.rng(seed, "C13", "numspec")
    texts = [cp(s) for s in TEXTS] + [gen_text(r) for _ in range(1200 if quick else 20000)]
    texts += [cp(dstr(gen_triple(r))) for _ in range(100)]
    orc = [cpython_numeric(s) for s in texts]
    cases = [f"({c_str(s)}, {'None' if o is None else '(Some ' + c_dec(o) + ')'})" for s, o in zip(texts, orc)]
    nbad = core.coq_eval_cases("C13", "numspec", IMPORTS, "str * option dec", cases, "run_cases chk_numspec", chunk=600)
    run.stream("numeric-spec-vs-cpython", len(cases), len({json.dumps(s) for s in texts if len(s) >= 2}),
               numeric=sum(1 for o in orc if o is not None), non_numeric=sum(1 for o in orc if o is None),
               non_ascii=sum(1 for s in texts if any(c > 127 for c in s)),
               rule="non-trivial = at least two code points; distinct by text; oracle: decimal.Decimal(text), finite")
    if nbad:
        i = sorted(nbad, key=lambda ic: len(texts[ic[0]]))[0][0]
        run.violation("C13:spec-validation:numeric", f"the Coq numeric-string reader disagrees with decimal.Decimal on {uncp(texts[i])!r} (code points {texts[i]}): CPython {orc[i]}",
                      dict(kind="spec-validation", stream="numeric-spec", text=texts[i], cpython=orc[i], disagreeing=len(nbad)), found_input=False)
    r = core.rng(seed, "C13", "strspec")
    ts = boundary_triples() + [gen_triple(r, maxexp=r.choice([40, 40, 400])) for _ in range(800 if quick else 10000)]
    cases = [f"({c_dec(t)}, {c_str(cp(str(Decimal(dstr(t)))))})" for t in ts]
    sbad = core.coq_eval_cases("C13", "strspec", IMPORTS, "dec * str", cases, "run_cases chk_strspec", chunk=600)
    run.stream("str-spec-vs-cpython", len(cases), len({json.dumps(t) for t in ts if t[1] >= 10 or t[2] != 0}),
               scientific=sum(1 for t in ts if "E" in str(Decimal(dstr(t)))),
               rule="non-trivial = more than one digit or a non-zero exponent; distinct by triple; oracle: str(decimal.Decimal)")
    if sbad:
        i = sbad[0][0]
        run.violation("C13:spec-validation:str", f"the Coq str(Decimal) disagrees with CPython on {dstr(ts[i])}: {str(Decimal(dstr(ts[i])))}",
                      dict(kind="spec-validation", stream="str-spec", case=list(ts[i])), found_input=False)
    run.coverage["traces_validated_against_impl"] = traces
