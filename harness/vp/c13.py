"""C13 — parameter values reach the package unchanged (DESIGN.md 6.11).

Streams, in this order:
  corpus        pinned-tree witnesses and hand-picked corner values, through every entry point below
  scalar        hdl21.scalar.to_scalar on the value pool
  value         hdl21.proto.exporting.export_param_value on the value pool
  inst          every primitive of the live registry x every field x pool values, ExternalModules with dict and
                paramclass parameters, end to end through h.to_proto; observable Instance.parameters (+ module reference)
  malformed     objects no ParamValue can hold, non-string enums, ints beyond 64 bits, non-finite floats, missing required
  numeric-spec / str-spec   the Coq numeric-string reader and str(Decimal) against CPython's decimal module (oracle)
Values are handled here as exact data (ints, (sign, coefficient, exponent) triples, code-point lists); hdl21 is never imported."""
import json, struct, re
from decimal import Decimal, InvalidOperation
from . import core
from .core import cz, cbool

IMPORTS = ("From Coq Require Import String Ascii.\n"
           "Require Import Hdl21.Base.PyInt Hdl21.Base.Dec Hdl21.Model.Prefixed Hdl21.Model.C13Params Hdl21.Spec.C13Spec "
           "Hdl21.Corr.C03 Hdl21.Corr.C13.\nOpen Scope list_scope.")


# ------------------------------------------------------------------------------------------ exact data
def cp(s):
    return [ord(c) for c in s]


def uncp(l):
    return "".join(chr(c) for c in l)


def dstr(t):
    s, c, e = t
    return f"{'-' if s else ''}{c}E{e:+d}"


def triple(d):
    t = d.as_tuple()
    c = 0
    for x in t.digits:
        c = c * 10 + x
    return (t.sign, c, t.exponent)


def fbits(x):
    return struct.unpack("<Q", struct.pack("<d", x))[0]


# values: ("none",) ("int", z) ("flt", float) ("str", cps) ("lit", cps) ("pre", triple, q) ("dec", triple)
#         ("enum", cls, member) ("other", tag)
def wire(v):
    k = v[0]
    if k == "int":
        return ["int", str(v[1])]
    if k == "flt":
        return ["flt", v[1].hex()]
    if k == "pre":
        return ["pre", dstr(v[1]), v[2]]
    if k == "dec":
        return ["dec", dstr(v[1])]
    return list(v)


def jv(v):
    """JSON-able, canonical form of a value (keys, replays)"""
    k = v[0]
    if k == "flt":
        return ["flt", v[1].hex()]
    if k in ("pre", "dec"):
        return [k, dstr(v[1])] + list(v[2:])
    if k in ("str", "lit"):
        return [k, uncp(v[1])] if all(32 <= c < 127 for c in v[1]) else [k, list(v[1])]
    return list(v)


def unjv(j):
    k = j[0]
    if k == "flt":
        return ("flt", float.fromhex(j[1]))
    if k in ("pre", "dec"):
        return (k, triple(Decimal(j[1]))) + tuple(j[2:])
    if k in ("str", "lit"):
        return (k, cp(j[1]) if isinstance(j[1], str) else list(j[1]))
    if k == "int":
        return ("int", int(j[1]))
    return tuple(j)


# ------------------------------------------------------------------------------------------ Coq printers
def cnum(n):
    return str(n) if n < 10 ** 9 else hex(n)


def cbig(z):
    return f"(-{cnum(-z)})" if z < 0 else cnum(z)


def c_str(l):
    return "[" + "; ".join(str(c) for c in l) + "]"


def c_dec(t):
    return f"(mkDec {cbool(bool(t[0]))} {cnum(t[1])}%N {cz(t[2])})"


def c_value(v, enums):
    k = v[0]
    if k == "none":
        return "VNone"
    if k == "int":
        return f"(VInt {cbig(v[1])})"
    if k == "flt":
        return f"(VFloat {fbits(v[1])} {c_str(cp(repr(v[1])))})"
    if k == "str":
        return f"(VStr {c_str(v[1])})"
    if k == "lit":
        return f"(VLit {c_str(v[1])})"
    if k == "pre":
        return f"(VPrefixed (mkP {c_dec(v[1])} {cz(v[2])}))"
    if k == "dec":
        return f"(VDecimal {c_dec(v[1])})"
    if k == "enum":
        val = dict((m, x) for m, x in enums[v[1]])[v[2]]
        return "(VEnum None)" if val is None else f"(VEnum (Some {c_str(val)}))"
    if k == "other":
        return "VOther"
    raise ValueError(k)


def c_pvalue(p):
    k = p[0]
    if k == "lit":
        return f"(PVLiteral {c_str(p[1])})"
    if k == "int":
        return f"(PVInt64 {cbig(int(p[1]))})"
    if k == "dbl":
        return f"(PVDouble {p[1]})"
    if k == "strv":
        return f"(PVString {c_str(p[1])})"
    if k == "pre":
        if p[1] == "int":
            n = f"(NInt64 {cbig(int(p[2]))})"
        elif p[1] == "str":
            n = f"(NString {c_str(p[2])})"
        elif p[1] == "dbl":
            n = f"(NDouble {p[2]})"
        else:
            n = "(NDouble (-1))"
        return f"(PVPrefixed {n} {core.cstr(p[3])})"
    return "(PVString [0])"          # an unset ParamValue: equal to nothing the model or the spec expects


def c_sres(o):
    if o[0] == "pre":
        return f"(SPre {c_dec((o[1][0], int(o[1][1]), o[1][2]))} {cz(o[2])})"
    if o[0] == "lit":
        return f"(SLit {c_str(o[1])})"
    return "SExc"


def c_vres(o):
    if o[0] == "omit":
        return "VOmit"
    if o[0] == "val":
        return f"(VVal {c_pvalue(o[1])})"
    return "VExc"


def c_call(job, enums):
    t = job["tgt"]
    if t[0] == "prim":
        tgt = f"(TPrim {core.cstr(t[1])})"
    else:
        dom = "None" if t[2] is None else f"(Some {c_str(t[2])})"
        tgt = f"(TExt {cbool(t[1] == 'dict')} {dom} {c_str(t[3])})"
    ps = "; ".join(f"({c_str(k)}, {kind}, {c_value(v, enums)})" for k, kind, v in job["all"])
    return f"(mkCall {tgt} [{ps}])"


def c_ires(o):
    if not o.get("ok"):
        return "IRej"
    ps = "; ".join(f"({c_str(k)}, {c_pvalue(v)})" for k, v in o["params"])
    return f"(IAcc {c_str(o['ref'][0])} {c_str(o['ref'][1])} [{ps}])"


# ------------------------------------------------------------------------------------------ value pool
I63 = 2 ** 63
BIGEXP = re.compile(r"[eE][+-]?\d{4,}")


def gen_triple(r, maxdig=60, maxexp=40):
    n = r.choice([1, 1, 2, 3, 5, 8, 12, 16, 17, 18, 19, 20, 21, 28, 29, 30, 40, maxdig, r.randint(1, maxdig)])
    c = r.randint(10 ** (n - 1), 10 ** n - 1) if n > 1 else r.randint(0, 9)
    how = r.random()
    if how < 0.15:
        z = r.randint(1, min(n, 6))
        c = c - c % 10 ** z                              # trailing zeros
    elif how < 0.25:
        c = int("".join(r.choice("09") for _ in range(n)).lstrip("0") or "0")
    e = r.choice([0, 0, -1, -2, -3, 1, 3, -n, -n + 1, -n - 1, -n - 5, -n - 6, -n - 7, r.randint(-maxexp, maxexp), r.randint(-maxexp, maxexp)])
    return (r.randint(0, 1), c, max(-maxexp, min(maxexp, e)))


def boundary_triples():
    out = []
    for z in (I63 - 1, I63, I63 + 1, -I63, -I63 - 1, -I63 + 1, 2 ** 64, 10 ** 18, 10 ** 19, 10 ** 30, 0, 1, -1):
        out.append((1 if z < 0 else 0, abs(z), 0))
    out += [(0, 1, 30), (0, 1, 18), (0, 1, 19), (0, 9223372036854775807, 0), (0, 92233720368547758070, -1), (0, 92233720368547758080, -1),
            (0, 9223372036854775808000, -3), (1, 9223372036854775808000, -3), (1, 9223372036854775809000, -3),
            (0, 922337203685477581, 1), (0, 922337203685477580, 1), (0, 15, -1), (0, 150, -2), (0, 1500, -2), (0, 0, -5), (1, 0, 0), (0, 0, 7),
            (0, 1, -7), (0, 1, -6), (0, 123, -8), (0, 123, -9), (0, 1, 1), (0, 5, -324), (0, 10 ** 59 + 7, -40), (1, 10 ** 60 - 1, 40),
            (0, 10 ** 59, -59), (0, 12345678901234567890123456789, -10), (0, 1, 40), (0, 1, -40)]
    return out


def gen_int(r):
    return r.choice([0, 1, -1, 7, 2 ** 31, -2 ** 31, I63 - 1, -I63, I63, -I63 - 1, 2 ** 64, 10 ** 30, -10 ** 30,
                     r.randint(-10 ** 6, 10 ** 6), r.randint(-2 ** 70, 2 ** 70), r.randint(-I63, I63 - 1), r.randint(-10 ** 18, 10 ** 18)])


FLOATS = [0.0, -0.0, 0.1, 1e-7, 5e-324, 1e22, 1e23, 1.7976931348623157e308, 2.2250738585072014e-308, 1 / 3, 2 / 3, 11.11, 1e-9,
          2.5e22, 1e16, 123456789012345680.0, 9007199254740993.0, 1.0, -1.5, 1e21, 1e-5, 0.0001, 1e100, 4.35, 0.3, 2.675]


def gen_float(r):
    k = r.random()
    if k < 0.3:
        return r.choice(FLOATS)
    if k < 0.5:
        return r.uniform(-1e6, 1e6)
    if k < 0.8:
        return r.random() * 10.0 ** r.randint(-30, 30) * r.choice([1, -1])
    return struct.unpack("<d", struct.pack("<Q", r.getrandbits(64) & ~(0x7FF << 52) | (r.randint(0, 2046) << 52)))[0]


WS = [9, 10, 11, 12, 13, 28, 32, 32, 32, 133, 160, 5760, 8195, 8232, 8239, 12288]
ZEROS = [48, 48, 48, 48, 1632, 2406, 65296, 120782, 3664]
TEXTS = ["", " ", "_", ".", "+", "-", "e", "e3", "1e", "1e+", "1e+-3", "1..2", "1.2.3", "0x10", "1,0", "1 000", "nan", "NaN", "inf", "-inf",
         "Infinity", "-Infinity", "sNaN", "snan12", "nan123", "-nan", "+inf", "infinit", "x", "w/5", "11*l", "a b=c", "1u", "1k", "5n", "1e3x",
         "--1", "+-1", "1-", "1e5e5", "1e5.5", "1.e", ".e3", "e.5", "1_000", "_1", "1_", "1__0", "1e1_0", "_", "__", "+_1", "1._5", "._5",
         "1e_", "é", "\U0001F600", "\x00", "1\x00", "\x001", "1\n2", "１２", "١٢٣", "1．5", "＋1", "１e３",
         "True", "None", "0b1", "1L", "1f", "1d0", "1D3", "1E", "E", " . ", "0", "00", "-0", "+0.0", "0e0", "0E-10", "000.000", "-.0", "1e400",
         "1e-400", "0.1", ".5", "5.", "+5.e-3", "-.5E+3", "1E3", "1e03", "1e+03", "1e-03", "007", "9223372036854775808", "1" + "0" * 30,
         "3.14159265358979323846264338327950288419716939937510", " 1", "1 ", "\t1\n", " 1 2 ", " 1", "1 ", "　1　", "1\x1c"]


def gen_numeric_text(r, maxexp=60):
    """a string built from the numeric-string grammar, decorated with what Decimal() tolerates; sometimes broken"""
    zero = r.choice(ZEROS)
    dig = lambda n: [zero + r.randint(0, 9) for _ in range(n)]
    ip = dig(r.choice([0, 1, 1, 2, 3, 8, 20, r.randint(0, 40)]))
    fp = dig(r.choice([0, 0, 1, 2, 5, 12, r.randint(0, 30)]))
    s = []
    sg = r.choice(["", "", "+", "-"])
    s += cp(sg)
    s += ip
    if fp or r.random() < 0.2:
        s += [46] + fp
    if r.random() < 0.5:
        s += [r.choice([101, 69])] + cp(r.choice(["", "+", "-"])) + cp(str(r.randint(0, maxexp))) if r.random() < 0.9 else [101]
    if r.random() < 0.2 and s:
        for _ in range(r.randint(1, 2)):
            s.insert(r.randint(0, len(s)), 95)
    if r.random() < 0.3:
        s = [r.choice(WS) for _ in range(r.randint(0, 2))] + s + [r.choice(WS) for _ in range(r.randint(0, 2))]
    k = r.random()
    if k < 0.08 and s:
        s.insert(r.randint(0, len(s)), r.choice([32, 43, 45, 46, 101, 120, 0, 8203, 65294, 44]))
    elif k < 0.12 and s:
        del s[r.randint(0, len(s) - 1)]
    return s


def gen_text(r):
    """texts whose numeric reading (if any) stays within 10^+-500: the property quantifies over exponents of a few tens;
    the implementation itself needs seconds for int(Decimal('1e1555267'))"""
    while True:
        s = gen_text_raw(r)
        if BIGEXP.search(uncp(s).replace("_", "")):
            continue        # an exponent field of 4+ digits: beyond the model's stated domain (libmpdec's Emax/Emin limits are not modelled)
        t = cpython_numeric(s)
        if t is None or (abs(t[2]) <= 500 and len(str(t[1])) <= 120):
            return s


def gen_text_raw(r):
    k = r.random()
    if k < 0.35:
        return cp(r.choice(TEXTS))
    if k < 0.9:
        return gen_numeric_text(r)
    return [r.choice([r.randint(32, 126), r.randint(32, 126), r.randint(1, 0x2FFF), r.randint(0x10000, 0x1FFFF)]) for _ in range(r.randint(1, 8))]


def gen_scalarable(r, prefixes):
    k = r.random()
    if k < 0.3:
        return ("str", gen_text(r))
    if k < 0.4:
        return ("int", gen_int(r))
    if k < 0.55:
        return ("flt", gen_float(r))
    if k < 0.7:
        return ("dec", r.choice(boundary_triples()) if r.random() < 0.25 else gen_triple(r))
    if k < 0.92:
        return ("pre", r.choice(boundary_triples()) if r.random() < 0.3 else gen_triple(r), r.choice(prefixes))
    return ("lit", gen_text(r))


def gen_any(r, prefixes, enums):
    k = r.random()
    if k < 0.8:
        return gen_scalarable(r, prefixes)
    if k < 0.86:
        return ("none",)
    if k < 0.93:
        cls = r.choice(["XE", "XE", "MosType", "MosVth", "MosFamily", "BipolarType"])
        return ("enum", cls, r.choice(enums[cls])[0])
    if k < 0.96:
        return ("enum", "NE", r.choice(enums["NE"])[0])
    return ("other", r.choice(["list", "tuple", "bytes", "complex", "dict", "object", "set"]))


NAMES = ["w", "l", "a b", "", "x=1", "very_long_parameter_name_0123456789", "µ", "m", "M", "nf", "0", "é"]


def corpus_values(prefixes):
    vs = [("pre", (0, 1, 30), 0),                               # DESIGN 7 #16: integral beyond int64 raised ValueError
          ("pre", (0, I63, 0), 3), ("pre", (1, I63 + 1, 0), -9), ("pre", (0, I63 - 1, 0), 0), ("pre", (1, I63, 0), 0),
          ("pre", (0, 92233720368547758080, -1), -3), ("pre", (0, 15, -1), -9), ("pre", (0, 1500, -2), 6), ("pre", (0, 1, -7), 0),
          ("pre", (1, 0, 0), 0), ("pre", (0, 0, -3), 12), ("pre", (0, 10 ** 59 + 7, -40), -24), ("pre", (0, 123, -9), 24)]
    vs += [("pre", (0, 25, -1), q) for q in prefixes]
    vs += [("pre", (0, 10 ** 20, 0), q) for q in prefixes]
    vs += [("dec", t) for t in boundary_triples()[:20]]
    vs += [("int", z) for z in (0, 1, -1, I63 - 1, -I63, I63, -I63 - 1, 10 ** 30)]
    vs += [("flt", x) for x in FLOATS] + [("flt", float("nan")), ("flt", float("inf")), ("flt", float("-inf"))]
    vs += [("str", cp(s)) for s in TEXTS]
    vs += [("lit", cp(s)) for s in ("w/5", "", "1e3", " 1 ")]
    vs += [("none",), ("enum", "XE", "A"), ("enum", "XE", "B"), ("enum", "XE", "C"), ("enum", "XE", "D"), ("enum", "NE", "ONE"),
           ("enum", "MosType", "PMOS"), ("other", "list"), ("other", "object")]
    return vs


# ------------------------------------------------------------------------------------------ instance jobs
def value_for_kind(r, kind, fld, prefixes, enums):
    if kind in (0, 1):
        if kind == 1 and r.random() < 0.1:
            return ("none",)
        return gen_scalarable(r, prefixes)
    if kind == 2:
        return ("none",) if r.random() < 0.2 else ("str", gen_text(r))
    if kind == 3:
        return ("enum", fld[3], r.choice(enums[fld[3]])[0])
    raise ValueError(kind)


def default_value(fld):
    d = fld[2]
    if d[0] == "req":
        return None
    if d[0] == "int":
        return ("int", int(d[1]))
    return tuple(d)


def prim_job(r, prim, focus, prefixes, enums, v=None, minimal=False):
    """one primitive call: field `focus` gets a pool value (or v), some of the others too, the rest their defaults"""
    given, allp = [], []
    for i, fld in enumerate(prim["fields"]):
        nm, kind = fld[0], fld[1]
        dv = default_value(fld)
        if i == focus or dv is None or (not minimal and r.random() < 0.3):
            val = v if (i == focus and v is not None) else value_for_kind(r, kind, fld, prefixes, enums)
            given.append([nm, val])
        else:
            val = dv
        allp.append((cp(nm), kind, val))
    return dict(tgt=["prim", prim["name"]], given=given, all=allp)


XP_GEN = dict(i=lambda r, p, e: ("int", gen_int(r)), f=lambda r, p, e: ("flt", r.choice([gen_float(r), float("nan"), float("inf")]) if r.random() < 0.1 else gen_float(r)),
              d=lambda r, p, e: ("dec", gen_triple(r)), p=lambda r, p, e: ("pre", r.choice(boundary_triples()) if r.random() < 0.3 else gen_triple(r), r.choice(p)),
              l=lambda r, p, e: ("lit", gen_text(r)))


def ext_job(r, mode, xp_fields, prefixes, enums):
    dom = r.choice([None, cp("dom"), cp(""), cp("my.domain"), cp("µ")])
    name = cp(r.choice(["X", "nmos_lvt", "a b", "R1"]))
    given, allp = [], []
    if mode == "dict":
        names = r.sample(NAMES, r.randint(0, 5))
        for nm in names:
            val = gen_any(r, prefixes, enums)
            given.append([cp(nm), val])
            allp.append((cp(nm), 4, val))
    else:
        for fld in xp_fields:
            nm, kind, dv = fld[0], fld[1], fld[2]
            if dv[0] == "req" or r.random() < 0.45:
                if kind == 4:
                    val = ("none",) if r.random() < 0.1 else XP_GEN[nm](r, prefixes, enums)
                elif kind == 3:
                    val = ("enum", "XE", r.choice(enums["XE"])[0])
                else:
                    val = value_for_kind(r, kind, fld, prefixes, enums)
                given.append([nm, val])
            else:
                val = tuple(dv)
            allp.append((cp(nm), kind, val))
    return dict(tgt=["ext", mode, dom, name], given=given, all=allp)


def job_wire(j):
    return dict(tgt=j["tgt"], params=[[k, wire(v)] for k, v in j["given"]])


def job_json(j):
    return dict(tgt=[(uncp(x) if isinstance(x, list) else x) for x in j["tgt"]],
                given=[[(k if isinstance(k, str) else uncp(k)), jv(v)] for k, v in j["given"]],
                all=[[uncp(k), kind, jv(v)] for k, kind, v in j["all"]])


def job_unjson(d):
    t = d["tgt"]
    tgt = t if t[0] == "prim" else [t[0], t[1], (None if t[2] is None else cp(t[2])), cp(t[3])]
    isdict = t[0] == "ext" and t[1] == "dict"
    return dict(tgt=tgt, given=[[(cp(k) if isdict else k), unjv(v)] for k, v in d["given"]],
                all=[(cp(k), kind, unjv(v)) for k, kind, v in d["all"]])


# ------------------------------------------------------------------------------------------ running and reporting
def vsize(v):
    return len(json.dumps(jv(v)))


def run_values(run, stream, kind, vals, enums, chunk=400):
    """kind in {"scalar", "value"}"""
    outs = core.run_worker_sharded("c13", [wire(v) for v in vals], common=dict(kind=kind))
    pr = c_sres if kind == "scalar" else c_vres
    cases = [f"({c_value(v, enums)}, {pr(o)})" for v, o in zip(vals, outs)]
    typ, ev = ("value * sres", "run_cases chk_scalar") if kind == "scalar" else ("value * vres", "run_cases chk_value")
    bad = core.coq_eval_cases("C13", stream + "_" + kind, IMPORTS, typ, cases, ev, chunk=chunk)
    return outs, bad


def entry(kind):
    return dict(scalar="hdl21.scalar.to_scalar", value="hdl21.proto.exporting.export_param_value")[kind]


def py_value(v):
    k = v[0]
    if k == "none":
        return "None"
    if k == "int":
        return str(v[1])
    if k == "flt":
        return f"float.fromhex('{v[1].hex()}')"
    if k == "str":
        return repr(uncp(v[1]))
    if k == "lit":
        return f"h.Literal({uncp(v[1])!r})"
    if k == "pre":
        return f"h.Prefixed(number=D('{dstr(v[1])}'), prefix=h.Prefix({v[2]}))"
    if k == "dec":
        return f"D('{dstr(v[1])}')"
    return f"<{' '.join(map(str, v))}: see harness/impl/c13.py mkval>"


def report_values(run, stream, kind, vals, outs, bad):
    v1 = sorted([i for i, c in bad if c == 1], key=lambda i: (vsize(vals[i]), json.dumps(jv(vals[i]))))
    v2 = sorted([i for i, c in bad if c == 2], key=lambda i: (vsize(vals[i]), json.dumps(jv(vals[i]))))
    v3 = [i for i, c in bad if c == 3]
    if v1:
        i = v1[0]
        run.violation(f"C13:{kind}:{json.dumps(jv(vals[i]))}",
                      f"{entry(kind)}({py_value(vals[i])}) does not preserve the value: {json.dumps(outs[i])[:300]}",
                      dict(kind="impl-violates-spec", stream=stream, entry=kind, case=jv(vals[i]), impl=outs[i], failing_cases=len(v1),
                           reproducer=f"import hdl21 as h; from decimal import Decimal as D; from {entry(kind).rsplit('.', 1)[0]} import {entry(kind).rsplit('.', 1)[1]} as f; print(f({py_value(vals[i])}))"))
    elif v2:
        i = v2[0]
        run.violation(f"C13:{stream}:{kind}:tie", f"model and implementation differ on {entry(kind)}({py_value(vals[i])}): {json.dumps(outs[i])[:300]} (property holds on every explored input)",
                      dict(kind="correspondence-broken", stream=stream, entry=kind, case=jv(vals[i]), impl=outs[i], disagreeing_cases=len(v2)), found_input=False)
    if v3:
        i = v3[0]
        run.violation("C13:spec-validation:float-repr", f"repr annotation of {jv(vals[i])} does not read back as that float",
                      dict(kind="spec-validation", stream=stream, case=jv(vals[i])), found_input=False)


def run_insts(run, stream, jobs, enums, chunk=250):
    outs = core.run_worker_sharded("c13", [job_wire(j) for j in jobs], common=dict(kind="inst"))
    cases = [f"({c_call(j, enums)}, {c_ires(o)})" for j, o in zip(jobs, outs)]
    bad = core.coq_eval_cases("C13", stream, IMPORTS, "call * ires", cases, "run_cases chk_inst", chunk=chunk)
    return outs, bad


def jsize(j):
    return (len(j["given"]), len(json.dumps(job_json(j))))


def py_job(j):
    t = j["tgt"]
    args = ", ".join(f"{(k if isinstance(k, str) else uncp(k))!r}: {py_value(v)}" for k, v in j["given"])
    if t[0] == "prim":
        return (f"import hdl21 as h; from decimal import Decimal as D; import hdl21.primitives as hp; p = hp.{t[1]}; m = h.Module(name='T'); "
                f"m.add(p(p.Params(**{{{args}}}))(**{{x.name: m.add(h.Signal(name='n_' + x.name)) for x in p.port_list}}), name='i0'); "
                f"print(h.to_proto(m).modules[0].instances[0])")
    dom = None if t[2] is None else uncp(t[2])
    return (f"ExternalModule(name={uncp(t[3])!r}, domain={dom!r}, paramtype={'dict' if t[1] == 'dict' else 'XP'}) called with {{{args}}} "
            f"(see harness/impl/c13.py do_inst)")


def report_insts(run, stream, jobs, outs, bad):
    v1 = sorted([i for i, c in bad if c == 1], key=lambda i: jsize(jobs[i]))
    v2 = sorted([i for i, c in bad if c == 2], key=lambda i: jsize(jobs[i]))
    v3 = [i for i, c in bad if c == 3]
    # one report per class of failure (how the implementation answered), the smallest case of each
    classes = {}
    for i in v1:
        cls = (outs[i].get("stage"), outs[i].get("exc")) if not outs[i].get("ok") else ("accepted", "")
        classes.setdefault(cls, i)
    for cls, i in sorted(classes.items(), key=lambda kv: jsize(jobs[kv[1]])):
        run.violation(f"C13:inst:{json.dumps(job_json(jobs[i])['tgt'])}:{json.dumps(job_json(jobs[i])['given'])}",
                      f"exported Instance.parameters do not show the given values for {json.dumps(job_json(jobs[i])['tgt'])} "
                      f"with {json.dumps(job_json(jobs[i])['given'])[:300]}: {json.dumps(show_out(outs[i]))[:400]}",
                      dict(kind="impl-violates-spec", stream=stream, entry="inst", case=job_json(jobs[i]), impl=show_out(outs[i]),
                           failing_cases=len(v1), failure_class=list(cls), reproducer=py_job(jobs[i])))
    if not v1 and v2:
        i = v2[0]
        run.violation(f"C13:{stream}:tie", f"model and implementation differ on {json.dumps(job_json(jobs[i]))[:300]}: {json.dumps(show_out(outs[i]))[:300]} "
                      "(property holds on every explored input)",
                      dict(kind="correspondence-broken", stream=stream, entry="inst", case=job_json(jobs[i]), impl=show_out(outs[i]),
                           disagreeing_cases=len(v2)), found_input=False)
    if v3:
        run.violation("C13:spec-validation:float-repr", f"repr annotation of a float in {json.dumps(job_json(jobs[v3[0]]))[:300]} does not read back",
                      dict(kind="spec-validation", stream=stream, case=job_json(jobs[v3[0]])), found_input=False)


def show_out(o):
    if not o.get("ok"):
        return o
    def pv(p):
        if p[0] in ("lit", "strv"):
            return [p[0], uncp(p[1])]
        if p[0] == "pre" and p[1] == "str":
            return ["pre", "str", uncp(p[2]), p[3]]
        return p
    return dict(ok=True, ref=[uncp(o["ref"][0]), uncp(o["ref"][1])], params=[[uncp(k), pv(v)] for k, v in o["params"]])


def nontrivial_value(v):
    k = v[0]
    if k in ("none", "other"):
        return False
    if k in ("str", "lit"):
        return len(v[1]) >= 2
    if k == "int":
        return abs(v[1]) >= 10
    if k in ("pre", "dec"):
        return v[1][1] >= 10 or v[1][2] != 0 or (k == "pre" and v[2] != 0)
    return True


def distinct(vals, pred=lambda v: True):
    return len({json.dumps(jv(v)) for v in vals if pred(v)})


def cpython_numeric(s):
    try:
        d = Decimal(uncp(s))
    except (InvalidOperation, ValueError, TypeError):
        return None
    except Exception:
        return None
    return triple(d) if d.is_finite() else None


def run(run, tier, seed, replay=None):
    quick = tier == "quick"
    meta = core.run_worker("c13", dict(kind="meta", jobs=[None]))["results"][0]
    prefixes = [v for _, v in meta["prefixes"]]
    enums = meta["enums"]
    prims = meta["prims"]
    xp_fields = meta["xp_fields"]

    if replay is not None and replay.get("case") is not None:
        ent = replay.get("entry")
        if ent in ("scalar", "value"):
            v = unjv(replay["case"])
            outs, bad = run_values(run, "replay", ent, [v], enums)
            run.stream("replay", 1, 1, rule="the replayed case")
            report_values(run, "replay", ent, [v], outs, bad)
            run.sample(dict(stream="replay", case=jv(v), impl=outs[0]))
        elif ent == "inst":
            j = job_unjson(replay["case"])
            outs, bad = run_insts(run, "replay", [j], enums)
            run.stream("replay", 1, 1, rule="the replayed case")
            report_insts(run, "replay", [j], outs, bad)
            run.sample(dict(stream="replay", case=job_json(j), impl=show_out(outs[0])))
        return

    traces = 0
    # ------------------------------------------------------------------ stream corpus
    cv = corpus_values(prefixes)
    r = core.rng(seed, "C13", "corpus")
    for kind in ("scalar", "value"):
        outs, bad = run_values(run, "corpus", kind, cv, enums)
        report_values(run, "corpus", kind, cv, outs, bad)
        if kind == "value":
            run.sample(dict(stream="corpus", entry=entry(kind), case=jv(cv[0]), impl=outs[0]))
    byname = {p["name"]: p for p in prims}
    cj = []
    for v in [("pre", (0, 1, 30), 0), ("pre", (0, I63, 0), 3), ("pre", (0, 15, -1), -9), ("int", 10 ** 30), ("str", cp("1_000")), ("str", cp("nan")),
              ("flt", 0.1), ("dec", (0, 150, -2))]:
        cj.append(prim_job(r, byname["IdealResistor"], 0, prefixes, enums, v=v, minimal=True))
        cj.append(prim_job(r, byname["Mos"], 0, prefixes, enums, v=v, minimal=True))
        cj.append(prim_job(r, byname["PulseVoltageSource"], 0, prefixes, enums, v=v, minimal=True))
        cj.append(dict(tgt=["ext", "dict", None, cp("X")], given=[[cp("p"), v]], all=[(cp("p"), 4, v)]))
    for v in [("str", cp("wparam")), ("lit", cp("l*2")), ("str", cp("1e-30")), ("int", 0), ("pre", (0, 1, -30), -24), ("pre", (0, 1, 0), -24)]:
        cj.append(prim_job(r, byname["Bipolar"], 0, prefixes, enums, v=v, minimal=True))      # Literal width: TypeError on the pinned tree
        cj.append(prim_job(r, byname["Bipolar"], 1, prefixes, enums, v=v, minimal=True))
    outs, bad = run_insts(run, "corpus", cj, enums)
    report_insts(run, "corpus", cj, outs, bad)
    run.sample(dict(stream="corpus", entry="inst", case=job_json(cj[2]), impl=show_out(outs[2])))
    run.stream("corpus", 2 * len(cv) + len(cj), distinct(cv, nontrivial_value) + len({json.dumps(job_json(j)) for j in cj}),
               rule="non-trivial = value other than None/foreign object with >= 2 characters, digits beyond one, a non-zero exponent or a non-UNIT prefix; distinct by value (and by call for instances)")
    traces += 2 * len(cv) + len(cj)

    # ------------------------------------------------------------------ streams scalar / value
    n = 1200 if quick else 20000
    for kind in ("scalar", "value"):
        r = core.rng(seed, "C13", kind)
        vals = [gen_any(r, prefixes, enums) for _ in range(n)]
        if kind == "scalar":        # every prefix x long coefficients; boundary decimals
            vals += [("pre", gen_triple(r), q) for q in prefixes for _ in range(2)]
        else:
            vals += [("pre", t, q) for q in prefixes for t in [gen_triple(r), r.choice(boundary_triples()), (r.randint(0, 1), r.randint(I63, 10 ** 40), r.randint(0, 3))]]
            vals += [("pre", t, r.choice(prefixes)) for t in boundary_triples()]
        outs, bad = run_values(run, kind, kind, vals, enums)
        report_values(run, kind, kind, vals, outs, bad)
        rej = sum(1 for o in outs if o[0] == "exc")
        extra = dict(rejected=rej, rejected_fraction=round(rej / len(vals), 4),
                     by_type={k: sum(1 for v in vals if v[0] == k) for k in ("str", "int", "flt", "dec", "pre", "lit", "none", "enum", "other")},
                     max_coefficient_digits=max([len(str(v[1][1])) for v in vals if v[0] in ("pre", "dec")] or [0]),
                     prefixes_covered=len({v[2] for v in vals if v[0] == "pre"}))
        if kind == "scalar":
            extra["became_prefixed"] = sum(1 for o in outs if o[0] == "pre")
            extra["became_literal"] = sum(1 for o in outs if o[0] == "lit")
        else:
            extra["prefixed_string_branch"] = sum(1 for o in outs if o[0] == "val" and o[1][0] == "pre" and o[1][1] == "str")
            extra["prefixed_int64_branch"] = sum(1 for o in outs if o[0] == "val" and o[1][0] == "pre" and o[1][1] == "int")
            extra["integral_beyond_int64"] = sum(1 for v in vals if v[0] == "pre" and v[1][2] >= 0 and v[1][1] * 10 ** v[1][2] >= I63)
        run.stream(kind, len(vals), distinct(vals, nontrivial_value), rule="as corpus; distinct by value", **extra)
        run.sample(dict(stream=kind, entry=entry(kind), case=jv(vals[3]), impl=outs[3]))
        traces += len(vals)

    # ------------------------------------------------------------------ stream inst
    r = core.rng(seed, "C13", "inst")
    per_field = 6 if quick else 100
    jobs = []
    for p in prims:
        for i, fld in enumerate(p["fields"]):
            for _ in range(per_field):
                jobs.append(prim_job(r, p, i, prefixes, enums))
    nprim = len(jobs)
    for _ in range(250 if quick else 4000):
        jobs.append(ext_job(r, "dict", xp_fields, prefixes, enums))
    for _ in range(250 if quick else 4000):
        jobs.append(ext_job(r, "pc", xp_fields, prefixes, enums))
    outs, bad = run_insts(run, "inst", jobs, enums)
    report_insts(run, "inst", jobs, outs, bad)
    rej = sum(1 for o in outs if not o.get("ok"))
    run.stream("inst", len(jobs), len({json.dumps(job_json(j)) for j in jobs if j["given"]}),
               primitive_calls=nprim, primitives=len(prims), fields=sum(len(p["fields"]) for p in prims), per_field=per_field,
               external_dict=sum(1 for j in jobs if j["tgt"][0] == "ext" and j["tgt"][1] == "dict"),
               external_paramclass=sum(1 for j in jobs if j["tgt"][0] == "ext" and j["tgt"][1] == "pc"),
               rejected=rej, rejected_fraction=round(rej / len(jobs), 4),
               rejected_at={s: sum(1 for o in outs if not o.get("ok") and o.get("stage") == s) for s in ("construct", "export", "shape", "bad-input")},
               exported_parameters=sum(len(o["params"]) for o in outs if o.get("ok")),
               rule="non-trivial = at least one parameter given explicitly; distinct by (target, given parameters)")
    run.sample(dict(stream="inst", case=job_json(jobs[0]), impl=show_out(outs[0])))
    run.sample(dict(stream="inst", case=job_json(jobs[nprim + 3]), impl=show_out(outs[nprim + 3])))
    traces += len(jobs)

    # ------------------------------------------------------------------ stream malformed
    r = core.rng(seed, "C13", "malformed")
    mv = [("other", t) for t in ("list", "tuple", "bytes", "complex", "dict", "object", "set")] + [("enum", "NE", "ONE"), ("enum", "NE", "TWO")]
    mv += [("int", z) for z in (I63, -I63 - 1, 2 ** 64, 10 ** 30, -10 ** 40)] + [("flt", float("nan")), ("flt", float("inf")), ("flt", float("-inf")), ("none",)]
    for kind in ("scalar", "value"):
        outs, bad = run_values(run, "malformed", kind, mv, enums)
        report_values(run, "malformed", kind, mv, outs, bad)
    mj = []
    for v in mv:
        mj.append(prim_job(r, byname["IdealResistor"], 0, prefixes, enums, v=v))
        mj.append(prim_job(r, byname["Diode"], 0, prefixes, enums, v=v))
        mj.append(dict(tgt=["ext", "dict", cp("d"), cp("X")], given=[[cp("ok"), ("int", 1)], [cp("p"), v]], all=[(cp("ok"), 4, ("int", 1)), (cp("p"), 4, v)]))
    outs, bad = run_insts(run, "malformed", mj, enums)
    report_insts(run, "malformed", mj, outs, bad)
    run.stream("malformed", 2 * len(mv) + len(mj), distinct(mv) + len({json.dumps(job_json(j)) for j in mj}),
               instance_calls_rejected=sum(1 for o in outs if not o.get("ok")),
               rule="every case carries a value no ParamValue can hold or a Scalar cannot be made from; distinct by value / call")
    traces += 2 * len(mv) + len(mj)

    # ------------------------------------------------------------------ spec validation against CPython's decimal
    r = core.rng(seed, "C13", "numspec")
    texts = [cp(s) for s in TEXTS] + [gen_text(r) for _ in range(1200 if quick else 20000)]
    texts += [cp(dstr(gen_triple(r))) for _ in range(100)]
    orc = [cpython_numeric(s) for s in texts]
    cases = [f"({c_str(s)}, {'None' if o is None else '(Some ' + c_dec(o) + ')'})" for s, o in zip(texts, orc)]
    nbad = core.coq_eval_cases("C13", "numspec", IMPORTS, "str * option dec", cases, "run_cases chk_numspec", chunk=600)
    run.stream("numeric-spec-vs-cpython", len(cases), len({json.dumps(s) for s in texts if len(s) >= 2}),
               numeric=sum(1 for o in orc if o is not None), non_numeric=sum(1 for o in orc if o is None),
               non_ascii=sum(1 for s in texts if any(c > 127 for c in s)),
               rule="non-trivial = at least two code points; distinct by text; oracle: decimal.Decimal(text), finite")
    if nbad:
        i = sorted(nbad, key=lambda ic: len(texts[ic[0]]))[0][0]
        run.violation("C13:spec-validation:numeric", f"the Coq numeric-string reader disagrees with decimal.Decimal on {uncp(texts[i])!r} (code points {texts[i]}): CPython {orc[i]}",
                      dict(kind="spec-validation", stream="numeric-spec", text=texts[i], cpython=orc[i], disagreeing=len(nbad)), found_input=False)
    r = core.rng(seed, "C13", "strspec")
    ts = boundary_triples() + [gen_triple(r, maxexp=r.choice([40, 40, 400])) for _ in range(800 if quick else 10000)]
    cases = [f"({c_dec(t)}, {c_str(cp(str(Decimal(dstr(t)))))})" for t in ts]
    sbad = core.coq_eval_cases("C13", "strspec", IMPORTS, "dec * str", cases, "run_cases chk_strspec", chunk=600)
    run.stream("str-spec-vs-cpython", len(cases), len({json.dumps(t) for t in ts if t[1] >= 10 or t[2] != 0}),
               scientific=sum(1 for t in ts if "E" in str(Decimal(dstr(t)))),
               rule="non-trivial = more than one digit or a non-zero exponent; distinct by triple; oracle: str(decimal.Decimal)")
    if sbad:
        i = sbad[0][0]
        run.violation("C13:spec-validation:str", f"the Coq str(Decimal) disagrees with CPython on {dstr(ts[i])}: {str(Decimal(dstr(ts[i])))}",
                      dict(kind="spec-validation", stream="str-spec", case=list(ts[i])), found_input=False)
    run.coverage["traces_validated_against_impl"] = traces
