"""C12E — C12 on the whole pipeline: the oracle-ordered pipeline model (coq Model/C12EOrdered.v, Props/C12E.v) tied to the
implementation, and the cross-process run extended to designs that exercise every site where the elaborator iterates over a
hash-ordered set (notes/C12E.md, inventory).

Called from the END of harness/vp/c12.py:run().  Streams:
  xgroups   reference-group designs in the abstract design language (harness/vp/design.py): rings of whole-connection port
            references with >= 3 members and tails pointing into them, chains ending in an unconnected port / a declared
            signal, several no-connects per instance, instance arrays whose ports take references (broadcast), instance and
            port names drawn so that the (instance, port) sort order differs from the order of declaration.
            (a) every design is built, exported and netlisted in fresh interpreters under >= 4 PYTHONHASHSEED values with
                randomised prework (harness/vp/c12.py:evaluate -> Coq `reproducible`);
            (b) the package JSON of the C01 worker under every hash seed is compared, and Coq (Corr/C12E.v:chk_c12e) computes
                pipeline_o under four oracles (as given, reversed, rotated, site-dependent), compares them with
                elab_export_model2 and with the implementation's package (chk_c01f).
  xbundles  bundle designs (harness/vp/c12.py:gen_bd) in which one bundle / bundle reference / implicit bundle feeds >= 3
            ports of one instance: cross-process run + the order tie of Model/C12Order.v (chk_order).
"""
import json
from . import core, design as D, c01e, c01f, c12

IMPORTS = c01f.IMPORTS + "\nRequire Import Hdl21.Model.C12EOrdered Hdl21.Corr.C12E."

INAMES = ["a", "b", "c", "i0", "i1", "i10", "i2", "u", "x1", "m", "B", "Zz"]
PNAMES = ["p", "q", "r", "z", "w", "a", "b0", "b1", "x"]


def M(name, ports):
    """a module whose 1-bit ports go to a ring of resistors (every port bit is a terminal of a leaf device)"""
    insts = [dict(name=f"r{k}", n=0, of=["prim", "R", 1],
                  conns=[["p", ["sig", ports[k]]], ["n", ["sig", ports[(k + 1) % len(ports)]]]]) for k in range(len(ports))]
    return dict(name=name, ports=[[p, 1, "inout"] for p in ports], sigs=[], insts=insts)


def build(mods, insts, sigs):
    return dict(mods=mods + [dict(name="Top", ports=[], sigs=sigs, insts=insts)], exts=[], top=len(mods))


def corpus():
    ref = lambda i, p: ["ref", i, p]
    A3, B1, C1, D2 = M("A3", ["p", "q", "r"]), M("B1", ["z"]), M("C1", ["w"]), M("D2", ["a", "b0"])
    mods = [A3, B1, C1, D2]
    i = lambda name, k, conns, n=0: dict(name=name, n=n, of=["mod", k], conns=conns)
    return [
        # the C12 witness: b.z = c.w, c.w = b.z (a ring), a.r = a.q = a.p = b.z -> named a_p whatever the set order
        build(mods, [i("b", 1, [["z", ref("c", "w")]]), i("c", 2, [["w", ref("b", "z")]]),
                     i("a", 0, [["r", ref("b", "z")], ["q", ref("b", "z")], ["p", ref("b", "z")]])], [["s", 1]]),
        # a ring of four through two instances, tails into it, an array broadcast from the ring, two no-connects
        build(mods, [i("i1", 3, [["a", ref("i0", "b0")], ["b0", ref("i0", "a")]]), i("i0", 3, [["b0", ref("i1", "b0")], ["a", ref("i1", "a")]]),
                     i("x1", 0, [["p", ref("i0", "a")], ["q", ["nc", 1, None]], ["r", ["nc", 2, None]]]),
                     i("arr", 3, [["a", ref("i1", "a")], ["b0", ["nc", 3, None]]], n=3)], [["s", 1]]),
        # one port connected to nothing, referred to by five ports of three instances and by an array: it names the signal
        build(mods, [i("u", 1, []), i("a", 0, [["q", ref("u", "z")], ["p", ref("a", "q")], ["r", ref("a", "p")]]),
                     i("m", 3, [["b0", ref("u", "z")], ["a", ref("m", "b0")]]), i("arr", 2, [["w", ref("u", "z")]], n=2)], [["s", 1]]),
        # a declared source at the end of a chain with a fan-in of four
        build(mods, [i("c", 2, [["w", ["sig", "s"]]]), i("a", 0, [["p", ref("c", "w")], ["q", ref("c", "w")], ["r", ref("a", "q")]]),
                     i("b", 1, [["z", ref("a", "r")]]), i("i2", 3, [["a", ref("c", "w")], ["b0", ref("b", "z")]])], [["s", 1]]),
        # two rings and two unconnected owners on ONE instance: the order of the entries added to its connections
        build(mods, [i("i0", 3, []), i("a", 0, [["p", ref("i0", "b0")], ["q", ref("i0", "a")], ["r", ref("a", "p")]]),
                     i("b", 1, [["z", ref("c", "w")]]), i("c", 2, [["w", ref("b", "z")]]), i("m", 3, [["a", ref("b", "z")], ["b0", ref("i0", "a")]])],
              [["s", 1]]),
    ]


def gen_ring(r):
    """structured random: a functional graph of whole-connection references over the ports of 2..5 instances"""
    nm = r.randint(2, 3)
    mods = [M(f"M{k}", r.sample(PNAMES, r.randint(1, 4))) for k in range(nm)]
    inames = r.sample(INAMES, r.randint(2, 5))
    insts = [dict(name=n, n=0, of=["mod", r.randrange(nm)], conns=[]) for n in inames]
    nodes = [(x["name"], p[0]) for x in insts for p in mods[x["of"][1]]["ports"]]
    nxt = {}
    # a ring of >= 3 ports first (when there are enough ports), then everything else at random
    if len(nodes) >= 3 and r.random() < 0.8:
        ring = r.sample(nodes, r.randint(3, min(5, len(nodes))))
        for k, n in enumerate(ring):
            nxt[n] = ring[(k + 1) % len(ring)]
    site = [0]
    conn = {}
    for n in nodes:
        if n in nxt:
            continue
        u = r.random()
        if u < 0.55 and len(nodes) > 1:
            hub = sorted(nxt)[0] if nxt else nodes[0]        # a hub: several ports refer to ONE port (a set of >= 3 back-references)
            nxt[n] = hub if hub != n and r.random() < 0.45 else r.choice([x for x in nodes if x != n])
        elif u < 0.70:
            site[0] += 1
            conn[n] = ["nc", site[0], None]
        elif u < 0.85:
            conn[n] = ["sig", r.choice(["s0", "s1"])]
        # else: left unconnected
    refd = set(nxt.values())
    for n in nodes:
        if n in conn and conn[n][0] == "nc" and n in refd:
            conn[n] = ["sig", "s0"]                 # a referenced port cannot be a no-connect
        if n not in nxt and n not in conn and n not in refd:
            conn[n] = ["sig", "s1"]                 # an unconnected port must be referenced
    # instance arrays: every port takes a reference (broadcast), a no-connect or a signal
    arrays = []
    if r.random() < 0.6:
        for k in range(r.randint(1, 2)):
            mk = r.randrange(nm)
            cs = []
            for p in mods[mk]["ports"]:
                u = r.random()
                if u < 0.6:
                    y = r.choice(nodes)
                    if not (y in conn and conn[y][0] == "nc"):
                        cs.append([p[0], ["ref", y[0], y[1]]])
                        refd.add(y)
                        continue
                if u < 0.8:
                    site[0] += 1
                    cs.append([p[0], ["nc", site[0], None]])
                else:
                    cs.append([p[0], ["sig", "s0"]])
            arrays.append(dict(name=f"arr{k}", n=r.choice([2, 3]), of=["mod", mk], conns=cs))
    for x in insts:
        cs = []
        for p in mods[x["of"][1]]["ports"]:
            n = (x["name"], p[0])
            if n in nxt:
                cs.append([p[0], ["ref", nxt[n][0], nxt[n][1]]])
            elif n in conn:
                cs.append([p[0], conn[n]])
        r.shuffle(cs)
        x["conns"] = cs
    allx = insts + arrays
    if r.random() < 0.5:
        r.shuffle(allx)
    return build(mods, allx, [["s0", 1], ["s1", 1]])


def features(d):
    """(largest reference group without terminal [a ring with its tails], no-connects, array ports taking references)"""
    top = d["mods"][d["top"]]
    nxt, ncs, arr_refs = {}, 0, 0
    for x in top["insts"]:
        for p, e in x["conns"]:
            if e[0] == "ref":
                if x["n"] > 0:
                    arr_refs += 1
                else:
                    nxt[(x["name"], p)] = (e[1], e[2])
            elif e[0] == "nc":
                ncs += 1
    nodes = set(nxt) | set(nxt.values())
    parent = {n: n for n in nodes}

    def find(a):
        while parent[a] != a:
            parent[a] = parent[parent[a]]
            a = parent[a]
        return a
    for a, b in nxt.items():
        parent[find(a)] = find(b)
    comps = {}
    for n in nodes:
        comps.setdefault(find(n), []).append(n)
    ring = max([len(c) for c in comps.values() if all(n in nxt for n in c)] + [0])
    fanin = max([sum(1 for b in nxt.values() if b == n) for n in nodes] + [0])
    return dict(ring=ring, ncs=ncs, arr_refs=arr_refs, fanin=fanin)


WHAT = {2: "the pipeline model rejects a frag_ok2 design on which the implementation satisfies the property (tie broken)",
        4: "an iteration-order oracle changes the model's package, or the package contradicts the end-to-end theorems (checker defect)",
        5: "the C01E and C01F models disagree on a frag_ok design (checker defect)",
        7: "the implementation's package has the nets of the model's package but is not identical to it (names / order differ: tie broken)",
        3: "generated design is not valid by Spec/WfDesign, outside xinfo_ok, or terminal list inconsistent (harness defect)"}


def run_tie(run, tier, seed, hashseeds):
    quick = tier == "quick"
    corp = corpus()
    designs = corp + [gen_ring(core.rng(seed, "C12", "xgroups", k)) for k in range(44 if quick else 500)]
    n = len(designs)
    feats = [features(d) for d in designs]

    # (a) the property itself, across processes, on bytes and netlist texts
    jobs = [dict(kind="abs", design=d) for d in designs]
    c12.evaluate(run, "xgroups", jobs, hashseeds, seed, 25 if quick else 100,
                 nontrivial=lambda j: (lambda f: f["ring"] >= 3 or f["fanin"] >= 3 or f["arr_refs"] >= 1)(features(j["design"])),
                 rule="non-trivial = a reference group without terminal of >= 3 ports, a port referred to by >= 3 ports, or an array port taking a reference; distinct by design")

    # (b) the package of the C01 worker under every hash seed, and the oracle-ordered model
    tie_seeds = hashseeds[:4] if quick else hashseeds[:8]
    outs = [core.run_worker_sharded("c12e", [dict(design=d) for d in designs], hashseed=str(hs)) for hs in tie_seeds]
    # the sets really are visited in different orders in different processes (observed before elaboration)
    set_orders_differ = [i for i in range(n) if len({json.dumps(o[i]["orders"], sort_keys=True) for o in outs}) > 1]
    differ = [i for i in range(n) if len({json.dumps(o[i]["pkg"], sort_keys=True) for o in outs}) > 1]
    for i in sorted(differ, key=lambda i: len(json.dumps(designs[i])))[:2]:
        hs2 = next(h for h, o in zip(tie_seeds, outs) if json.dumps(o[i]["pkg"], sort_keys=True) != json.dumps(outs[0][i]["pkg"], sort_keys=True))
        run.violation("C12:xgroups:" + c12.canon(jobs[i]), f"the exported package differs between PYTHONHASHSEED={tie_seeds[0]} and {hs2}",
                      dict(kind="impl-violates-spec", stream="xgroups_model", case=jobs[i],
                           runs=[dict(hashseed=tie_seeds[0], prework={}), dict(hashseed=hs2, prework={})], failing_cases=len(differ)))
    cases = [c01e.c_case(d, o, None) for d, o in zip(designs, outs[0])]
    res = dict(core.coq_eval_cases("C12", "xgroups_model", IMPORTS, "c01e_case", cases,
                                   "run_cases (fun c => 100 + 10 * c12e_shape c + chk_c12e c)", chunk=8, timeout=1500))
    code = {i: (res[i] - 100) % 10 for i in range(n)}
    shape = {i: (res[i] - 100) // 10 for i in range(n)}
    run.stream("xgroups_model", n * len(tie_seeds) + n, len({json.dumps(designs[i]) for i in range(n) if shape[i] & 1}),
               designs=n, corpus=len(corp), hashseeds=len(tie_seeds), processes=len(tie_seeds) * max(1, min(core.NPROC, (n + 49) // 50)),
               oracles=4, traversal_order_differs_between_oracles=sum(1 for i in range(n) if shape[i] & 1),
               rings_of_3_or_more=sum(1 for f in feats if f["ring"] >= 3), fan_in_3_or_more=sum(1 for f in feats if f["fanin"] >= 3),
               two_or_more_noconnects=sum(1 for f in feats if f["ncs"] >= 2), array_ports_taking_references=sum(1 for f in feats if f["arr_refs"] >= 1),
               model_pkg_identical_to_impl=sum(1 for i in range(n) if code[i] == 0),
               model_nets_equal_impl=sum(1 for i in range(n) if code[i] in (0, 7)),
               designs_whose_connected_ports_sets_iterate_differently_between_processes=len(set_orders_differ),
               rejected_by_impl=sum(1 for o in outs[0] if o["pkg"] is None), packages_differing_between_hashseeds=len(differ),
               rule="non-trivial = under two of the four oracles `follow` collects some group of the design in a different order; distinct by design",
               compared="package JSON of every process against each other; Coq: pipeline_o under 4 oracles = elab_export_model2, "
                        "and that package against the implementation's (identical / same nets), wf_pkg, specification nets")
    if sum(1 for f in feats if f["ring"] >= 3) < (20 if quick else 200) or sum(1 for f in feats if f["arr_refs"] >= 1) < (8 if quick else 80):
        run.violation("C12:coverage:xgroups", "generator coverage target missed (rings >= 3 / arrays taking references)",
                      dict(kind="coverage"), found_input=False)
    order = sorted((i for i in range(n) if code[i] != 0 and i not in differ), key=lambda i: (i >= len(corp), len(json.dumps(designs[i]))))
    v1 = [i for i in order if code[i] in (1, 6)]
    for i in v1[:1]:
        # the same in every process: C01's business, reported here because the C12 streams must not silently skip it
        run.violation("C12:xgroups:c01:" + json.dumps(designs[i], sort_keys=True),
                      "valid design rejected / exported with other nets than written, identically in every process: " + json.dumps(outs[0][i]["err"])[:300],
                      dict(kind="impl-violates-spec", stream="xgroups_model", case=jobs[i], impl=outs[0][i], failing_cases=len(v1)))
    rest = [i for i in order if code[i] not in (1, 6)]
    for i in rest[:2]:
        c = code[i]
        run.violation(f"C12:xmodel:{c}:" + json.dumps(designs[i], sort_keys=True), WHAT.get(c, f"code {c}"),
                      dict(kind="tie-broken" if c in (2, 7) else "checker-inconsistency", code=c, stream="xgroups_model", case=jobs[i],
                           impl=outs[0][i], failing_cases=len(rest),
                           theorem="C12E_is_reference / C12E_pipeline_order_free (model tie)"), found_input=False)
    run.sample(dict(stream="xgroups", design=designs[0]))
    run.coverage["c12e_tie"] = dict(designs=n, hashseeds=len(tie_seeds), identical=sum(1 for i in range(n) if code[i] == 0),
                                    orders_differ=sum(1 for i in range(n) if shape[i] & 1))

    # ---- bundles feeding >= 3 ports of one instance
    want = 24 if quick else 200
    bjobs, k = [], 0
    while len(bjobs) < want and k < 60 * want:
        bd = c12.gen_bd(core.rng(seed, "C12", "xbundles", k), tag=f"_x{k}")
        k += 1
        if max(oc["multi"] for oc in c12.order_cases(bd)) >= 3:
            bjobs.append(dict(kind="bd", bd=bd))
    c12.evaluate(run, "xbundles", bjobs, hashseeds, seed, 12 if quick else 50,
                 rule="one bundle, bundle reference, anonymous bundle or implicit bundle feeds at least THREE ports of one instance; all non-trivial; distinct by design")
